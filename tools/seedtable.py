#!/usr/bin/env python3
"""Rewrites the table of seeded changes in DESIGN.md (between the SEEDED-TABLE markers) from seeded/*/meta.json."""
import json, glob, os, re
ROOT = os.path.dirname(os.path.dirname(os.path.abspath(__file__)))
rows = []
for d in sorted(glob.glob(os.path.join(ROOT, "seeded", "*"))):
    mp = os.path.join(d, "meta.json")
    if not os.path.exists(mp):
        continue
    m = json.load(open(mp))
    det = m.get("detected_by_quick", [])
    thor = m.get("detected_by_thorough_only", [])
    need = m.get("needs_to_manifest", "").replace("|", "/")
    if len(need) > 230:
        need = need[:227] + "..."
    tgt = "yes" if m.get("target_property_detected") else ("thorough only" if m["property"] in thor else "**no**")
    rows.append(f"| {m['id']} | {m['property']} | {need} | {tgt} | {', '.join(det) or '-'}{(' (thorough: ' + ', '.join(thor) + ')') if thor else ''} |")
table = ["Every change below was written by a sub-agent that saw only the text of one property and a scratch",
         "worktree, compiles, keeps the pinned suite green (40 unit + 82 doc tests) and comes with a",
         "demonstration that fails with it and passes without it (all re-confirmed with",
         "`tools/confirm_seed.sh`). 'caught by' lists every check whose **quick** tier reports a VIOLATION",
         "with the change applied (`tools/run_seeded.sh` on /repo, undone straight afterwards, or `tools/run_seeded_scratch.sh` on a scratch copy", "of /repo with the committed harness built against it); nothing is ever committed to /repo. meta.json keeps the history (first pass / after strengthening).",
         "",
         "| seed | breaks | needs, in order to manifest | target check catches it | caught by (quick) |",
         "|------|--------|------------------------------|-------------------------|-------------------|"] + rows
p = os.path.join(ROOT, "DESIGN.md")
s = open(p).read()
new = "<!-- SEEDED-TABLE -->\n" + "\n".join(table) + "\n<!-- /SEEDED-TABLE -->"
if "<!-- /SEEDED-TABLE -->" in s:
    s = re.sub(r"<!-- SEEDED-TABLE -->.*?<!-- /SEEDED-TABLE -->", lambda _: new, s, flags=re.S)
else:
    s = s.replace("<!-- SEEDED-TABLE -->", new)
open(p, "w").write(s)
print(len(rows), "seeded changes in the table")
