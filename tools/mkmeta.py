#!/usr/bin/env python3
"""Writes seeded/<id>/meta.json for the batch-3 seeds from the table below plus the results of the
scratch runner logs given on the command line (lines '== <seed> <ID> exit=<rc> ...')."""
import json, os, re, sys
ROOT = os.path.dirname(os.path.dirname(os.path.abspath(__file__)))
NEEDS = {
 "C09-a": "a postfix operator with exactly the same power as a left-associative infix operator, placed right after that infix's right operand (a+b! with +: left(1), !: postfix(1))",
 "C09-b": "lhs OP1 OP2 rhs with both operators infix, OP2 declared later in the table than OP1 and without a prefix form: the missing rewind after OP1's failed right operand lets OP2 start from a stale position (a+*b yields (a*b))",
 "C10-a": "IoInput only: the parse position jumps FORWARDS to a saved checkpoint ahead of the reader (a.and_is(b) where b consumes fewer tokens than a, a memoized cache hit, a custom parser rewinding forwards); backward-only backtracking is unaffected",
 "C10-b": "Graphemes input only: an ASCII byte followed by another ASCII byte skips segmentation, so CR LF comes out as two clusters; every other cluster type is unaffected",
 "C11-a": "a memoized parser that succeeds cleanly (no pending error left), the parse then backtracks behind that position, and the SAME parser instance (shared by reference / boxed clone / recursive) runs again at that position: the stale in-progress marker makes it fail",
 "C11-b": "a left-recursive cycle whose memoized step reaches itself through with_ctx / then_with_ctx / ignore_with_ctx / map_ctx: the sub-parse gets a fresh memo table, the in-progress marker is invisible and the recursion is never cut",
 "C12-a": "feature pratt, prefix operators stacked directly on each other a few thousand deep: the prefix-operand recursion bypasses the stack guard (infix recursion and recursive() keep it)",
 "C12-b": "define, then a second define whose panic is survived (catch_unwind / through a clone), then further use of the parser or of an earlier clone: the refused definition has replaced the first one",
 "C13-a": "a separated_by whose allow_leading / allow_trailing flags differ, parsed through a .clone() (not the original, not a boxed clone), on an input with a trailing separator",
 "C13-b": "feature regex: the same regex parser value used on two texts of equal length at the same address (a refilled buffer) with an attempt at the same offset: a one-entry match cache keyed by (address, length, offset) returns the earlier match length",
 "C14-a": "&str input with a char >= U+0100 whose low byte falls in the tested ASCII class (to_ascii casts before testing): ascii::ident accepts 'zloty' with U+0142, newline accepts U+010D / eats CR U+010A as CRLF",
 "C14-b": "feature regex, a pattern that can match the empty string, cursor exactly at the end of input (or empty input): a fast path fails instead of matching empty",
 "C16-a": "the inner parser emits a non-fatal error, succeeds, and is a fixed shape that leaves NO pending alternative (no repeated / or_not / choice inside): the emitted errors are carried over only together with a pending alt",
 "C16-b": "the inner parser emits a non-fatal error and then fails fatally (nothing outside backtracks), or an ill-formed group follows a well-formed one: nested_in rewinds the outer input itself, truncating the re-homed inner errors and moving the inner failure before the group token",
 "C19-a": "group([..; N]) with a drop-observable output, parser i >= 1 fails: the guard drops one value too few (the output of parser i-1 leaks); success, failure at index 0, tuple groups unaffected",
 "C19-b": "collect_exactly over an iterable parser that fails HARD after yielding >= 1 item (repeated().exactly(n) / at_least(n) / separated_by().at_least(n) with too few items): the early `?` return skips the cleanup of the collected prefix",
 "C20-a": "recover_with(skip_then_retry_until(..)) around a parser with its own inner recovery, on an input where after skipping >= 1 token the retry succeeds only by emitting errors: that arm rewinds to before the skip, so the loop never advances (hang)",
 "C20-b": "feature pratt, a few thousand consecutive prefix operators: the prefix recursion lost its stack-growth wrapper (stack overflow / abort)",
 # ---- round 2 (second sub-agent round: corners -- one input kind / error type / check mode / IterParser impls / configuration)
 "C01-c": "or_not() used as an ITEM SOURCE (collect / count / folds / item-source then) whose child fails after consuming >= 1 token: the IterParser impl lost its save/rewind (the Parser impl is untouched)",
 "C01-d": "then() joining two item sources where the RIGHT one touches the input in make_iter (p.into_iter(), ignore_with_ctx, then_with_ctx): both sources are set up before the left one has run, so sub-parsers no longer run left to right",
 "C02-c": "separated_by with allow_leading() AND at_least(k>=1) / exactly on an input that does not start with the separator: the optional leading separator became mandatory below the lower bound",
 "C02-d": "repeated().configure(..) used directly as a parser (to_slice / ignored / then_ignore / as a separator, not collected): the Parser<()> impl of IterConfigure iterates the UNCONFIGURED repetition, so run-time bounds are ignored",
 "C03-c": "or_not() as an item source whose child fails after consuming: the consumed prefix stays consumed without an error, so an accepted input extended by a token is still accepted (same site as C01-c, written independently)",
 "C03-d": "a zero-sized error type (EmptyErr / extra::Default / a unit struct) and a parse that succeeds only through recovery: InputRef::emit returns early for zero-sized errors, so the result has an output and no error",
 "C04-c": "an unbounded repeated() used WITHOUT collect whose item emits a non-fatal error (validate / recover_with) and then fails in the last iteration: the fast path rewinds the position only, the abandoned emission survives (the collect path is untouched)",
 "C04-d": "into_iter() consumed by something whose acceptance depends on the item count (collect_exactly::<[_; N>0]>) and run in CHECK mode (check(), ignored, to_slice, ignore_then): no items are yielded in check mode",
 "C05-c": "validate() that emits, placed under a combinator that discards its child's output (ignored, to, to_slice, left of ignore_then, a separator, uncollected repeated, check()): validator and emissions moved inside M::bind, so nothing is emitted in check mode",
 "C05-d": "a user Inspector state and a .rewind() whose parser SUCCEEDS: the position-only rewind no longer calls on_rewind (errors, outputs and cursor unchanged; and_is hides it)",
 "C06-c": "map_err around a parser that SUCCEEDS while leaving a pending error (inner or_not / repeated / choice), an earlier abandoned alternative that failed further in, then a failure before that point: the sheltered pending error is restored only if the inner parser left none",
 "C06-d": "error type Cheap only: two failures merged at one position whose spans differ (a multi-token filter / try_map / custom error vs a single-token primitive arriving later through add_alt): Cheap keeps the LAST span, Simple and Rich the first",
 "C07-c": "feature pratt, operators passed as a Vec of boxed operators, an infix fold closure reading e.span() / e.slice(): the span starts at the operator instead of the left operand (tuple tables, prefix / postfix unaffected)",
 "C07-d": "an Input::map wrapper over &[(T, S)] whose last consumed token came through any_ref / select_ref! (BorrowInput::next_ref): the token's end offset is not recorded, the span ends at a stale offset",
 "C08-c": "skip_until recovery reached in CHECK mode (check(), or under to_slice / ignored / ignore_then / then_ignore): the emit moved inside M::bind, so input is skipped and nothing is reported",
 "C08-d": "skip_then_retry_until with a MULTI-TOKEN until (just(\"--\"), a keyword) and a proper prefix of it in the input at a probed position: the failed until probe is no longer rewound, skip steps start from the wrong place",
 "C15-c": "a repetition whose bounds come from configure / try_configure, bounds that allow one more attempt after the last good item, and an item that emits a non-fatal error and then fails: the abandoned attempt is undone with a position-only rewind",
 "C15-d": "try_configure returning Ok(cfg) with the configured repetition used directly as a parser (to_slice / ignored / then / separator) rather than collected: Parser::go iterates the unconfigured inner repetition",
 "C17-c": "an as_context label that fails further in (not at its first token), abandoned under or_not / repeated / an earlier choice branch, then a plain primitive failing at a LATER position: Rich::replace_expected_found no longer clears the stale context",
 "C17-d": "map_err around a parser that succeeds leaving a pending error, an earlier alternative with a pending error at exactly the same position, the two with different spans (keyword / try_map / custom vs primitive): merged the wrong way round, the identity map_err moves the span",
 "C18-c": "a parser that consumes through InputRef::skip() (text::newline's CR / CRLF branch, custom / extension parsers calling skip()): skip advances without on_token",
 "C18-d": "Parser::padded() followed by a non-whitespace token (skip_while): the first token after the padding is fed to the inspector twice (read one too many, cursor reset without on_rewind)",
}
res = {}
for path in sys.argv[1:]:
    for line in open(path):
        m = re.match(r"== (\S+) (C\d\d) exit=(\d+)", line)
        if m:
            res.setdefault(m.group(1), {})[m.group(2)] = int(m.group(3))
for sid, need in NEEDS.items():
    d = os.path.join(ROOT, "seeded", sid)
    prop = sid.split("-")[0]
    r = res.get(sid, {})
    det = sorted(k for k, v in r.items() if v == 1)
    meta = {
        "id": sid, "property": prop,
        "origin": "independent sub-agent given only the property text and a scratch worktree of /repo (nothing from /verif)",
        "needs_to_manifest": need,
        "confirmed": {"how": f"tools/confirm_seed.sh seeded/{sid} (scratch worktree /tmp/wt-confirm): patch applies; cargo test --workspace --no-fail-fast --offline = 40 unit + 82 doc tests pass with the change; demo.rs as tests/seed_demo.rs fails with the change and passes without it",
                      "suite_with_change": "40 passed + 82 doctests passed, 0 failed", "demo_with_change": "fails", "demo_without_change": "passes"},
        "checks_run": "tools/run_seeded_scratch.sh (a copy of /repo at HEAD with the patch applied, the committed harness built against it, quick tier, default seed): " + (", ".join(f"{k}={'VIOLATION' if v == 1 else 'exit ' + str(v)}" for k, v in sorted(r.items())) or "not run yet"),
        "detected_by_quick": det,
        "target_property_detected": prop in det,
    }
    old = os.path.join(d, "meta.json")
    if os.path.exists(old):
        o = json.load(open(old))
        for k in ("history",):
            if k in o:
                meta[k] = o[k]
    json.dump(meta, open(old, "w"), indent=1, ensure_ascii=False)
print("wrote", len(NEEDS), "meta files")
