#!/usr/bin/env python3
"""Writes seeded/<id>/meta.json for the batch-3 seeds from the table below plus the results of the
scratch runner logs given on the command line (lines '== <seed> <ID> exit=<rc> ...')."""
import json, os, re, sys
ROOT = os.path.dirname(os.path.dirname(os.path.abspath(__file__)))
NEEDS = {
 "C09-a": "a postfix operator with exactly the same power as a left-associative infix operator, placed right after that infix's right operand (a+b! with +: left(1), !: postfix(1))",
 "C09-b": "lhs OP1 OP2 rhs with both operators infix, OP2 declared later in the table than OP1 and without a prefix form: the missing rewind after OP1's failed right operand lets OP2 start from a stale position (a+*b yields (a*b))",
 "C10-a": "IoInput only: the parse position jumps FORWARDS to a saved checkpoint ahead of the reader (a.and_is(b) where b consumes fewer tokens than a, a memoized cache hit, a custom parser rewinding forwards); backward-only backtracking is unaffected",
 "C10-b": "Graphemes input only: an ASCII byte followed by another ASCII byte skips segmentation, so CR LF comes out as two clusters; every other cluster type is unaffected",
 "C11-a": "a memoized parser that succeeds cleanly (no pending error left), the parse then backtracks behind that position, and the SAME parser instance (shared by reference / boxed clone / recursive) runs again at that position: the stale in-progress marker makes it fail",
 "C11-b": "a left-recursive cycle whose memoized step reaches itself through with_ctx / then_with_ctx / ignore_with_ctx / map_ctx: the sub-parse gets a fresh memo table, the in-progress marker is invisible and the recursion is never cut",
 "C12-a": "feature pratt, prefix operators stacked directly on each other a few thousand deep: the prefix-operand recursion bypasses the stack guard (infix recursion and recursive() keep it)",
 "C12-b": "define, then a second define whose panic is survived (catch_unwind / through a clone), then further use of the parser or of an earlier clone: the refused definition has replaced the first one",
 "C13-a": "a separated_by whose allow_leading / allow_trailing flags differ, parsed through a .clone() (not the original, not a boxed clone), on an input with a trailing separator",
 "C13-b": "feature regex: the same regex parser value used on two texts of equal length at the same address (a refilled buffer) with an attempt at the same offset: a one-entry match cache keyed by (address, length, offset) returns the earlier match length",
 "C14-a": "&str input with a char >= U+0100 whose low byte falls in the tested ASCII class (to_ascii casts before testing): ascii::ident accepts 'zloty' with U+0142, newline accepts U+010D / eats CR U+010A as CRLF",
 "C14-b": "feature regex, a pattern that can match the empty string, cursor exactly at the end of input (or empty input): a fast path fails instead of matching empty",
 "C16-a": "the inner parser emits a non-fatal error, succeeds, and is a fixed shape that leaves NO pending alternative (no repeated / or_not / choice inside): the emitted errors are carried over only together with a pending alt",
 "C16-b": "the inner parser emits a non-fatal error and then fails fatally (nothing outside backtracks), or an ill-formed group follows a well-formed one: nested_in rewinds the outer input itself, truncating the re-homed inner errors and moving the inner failure before the group token",
 "C19-a": "group([..; N]) with a drop-observable output, parser i >= 1 fails: the guard drops one value too few (the output of parser i-1 leaks); success, failure at index 0, tuple groups unaffected",
 "C19-b": "collect_exactly over an iterable parser that fails HARD after yielding >= 1 item (repeated().exactly(n) / at_least(n) / separated_by().at_least(n) with too few items): the early `?` return skips the cleanup of the collected prefix",
 "C20-a": "recover_with(skip_then_retry_until(..)) around a parser with its own inner recovery, on an input where after skipping >= 1 token the retry succeeds only by emitting errors: that arm rewinds to before the skip, so the loop never advances (hang)",
 "C20-b": "feature pratt, a few thousand consecutive prefix operators: the prefix recursion lost its stack-growth wrapper (stack overflow / abort)",
}
res = {}
for path in sys.argv[1:]:
    for line in open(path):
        m = re.match(r"== (\S+) (C\d\d) exit=(\d+)", line)
        if m:
            res.setdefault(m.group(1), {})[m.group(2)] = int(m.group(3))
for sid, need in NEEDS.items():
    d = os.path.join(ROOT, "seeded", sid)
    prop = sid.split("-")[0]
    r = res.get(sid, {})
    det = sorted(k for k, v in r.items() if v == 1)
    meta = {
        "id": sid, "property": prop,
        "origin": "independent sub-agent given only the property text and a scratch worktree of /repo (nothing from /verif)",
        "needs_to_manifest": need,
        "confirmed": {"how": f"tools/confirm_seed.sh seeded/{sid} (scratch worktree /tmp/wt-confirm): patch applies; cargo test --workspace --no-fail-fast --offline = 40 unit + 82 doc tests pass with the change; demo.rs as tests/seed_demo.rs fails with the change and passes without it",
                      "suite_with_change": "40 passed + 82 doctests passed, 0 failed", "demo_with_change": "fails", "demo_without_change": "passes"},
        "checks_run": "tools/run_seeded_scratch.sh (a copy of /repo at HEAD with the patch applied, the committed harness built against it, quick tier, default seed): " + (", ".join(f"{k}={'VIOLATION' if v == 1 else 'exit ' + str(v)}" for k, v in sorted(r.items())) or "not run yet"),
        "detected_by_quick": det,
        "target_property_detected": prop in det,
    }
    old = os.path.join(d, "meta.json")
    if os.path.exists(old):
        o = json.load(open(old))
        for k in ("history",):
            if k in o:
                meta[k] = o[k]
    json.dump(meta, open(old, "w"), indent=1, ensure_ascii=False)
print("wrote", len(NEEDS), "meta files")
