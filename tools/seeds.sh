#!/bin/bash
# usage: tools/seeds.sh <ID> [tier] [seeds...]  -- run a check under several PRNG seeds, print verdict lines only
ID=$1; TIER=${2:-quick}
if [ $# -ge 3 ]; then shift 2; SEEDS="$*"; else SEEDS="1 2 3 4 5"; fi
cd "$(dirname "$0")/.."
for s in $SEEDS; do
  VERIF_SEED=$s ./check $ID $TIER > /tmp/seeds.$ID.$s.log 2>&1; rc=$?
  echo "seed=$s exit=$rc $(grep -E 'VIOLATION|INCONCLUSIVE|harness panic' /tmp/seeds.$ID.$s.log | head -3)"
  [ $rc -ne 0 ] && grep -B6 VIOLATION /tmp/seeds.$ID.$s.log | head -12
  rm -f /tmp/seeds.$ID.$s.log
done
exit 0
