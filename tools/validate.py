#!/usr/bin/env python3
"""Validate MANIFEST.json and every evidence file against the given schemas (python3-vt has jsonschema)."""
import json, sys, glob, jsonschema
m = json.load(open('/verif/MANIFEST.json'))
jsonschema.validate(m, json.load(open('/root/.vp/MANIFEST.schema.json')))
es = json.load(open('/root/.vp/EVIDENCE.schema.json'))
bad = 0
for c in m['checks']:
    f = c['evidence_file']
    try:
        jsonschema.validate(json.load(open(f)), es)
    except Exception as e:
        bad += 1
        print('BAD', f, str(e)[:300])
print('manifest ok;', len(m['checks']), 'checks;', bad, 'bad evidence files')
sys.exit(1 if bad else 0)
