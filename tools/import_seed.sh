#!/bin/bash
# usage: tools/import_seed.sh <agent worktree> <letter> <ID>
# Copies a sub-agent's deliverable (seedout/<letter>/{patch.diff,demo.rs,notes.md}) to seeded/<ID>-<letter>/ and
# confirms it in a scratch worktree (tools/confirm_seed.sh). Prints the CONFIRM line.
WT=$1; L=$2; ID=$3
D=/verif/seeded/$ID-$L
mkdir -p $D
cp $WT/seedout/$L/patch.diff $WT/seedout/$L/demo.rs $WT/seedout/$L/notes.md $D/ || exit 2
/verif/tools/confirm_seed.sh $D 2>&1 | tail -1 | tee $D/confirm.txt
