#!/bin/bash
# usage: tools/run_seeded_scratch.sh <seed-name> <ID> [<ID>...]      (env TIER=quick|thorough, PROFILE=fast|release)
# PROFILE=fast (default): opt-level 0, builds in ~2 min, the checks run 10-30x slower (same cases, same results).
# Development helper (does not touch /repo): copies /repo and the harness to a scratch directory
# under /tmp, applies the seeded change there, points the harness copy at the patched copy, builds
# with a scratch target directory and runs the named checks with a scratch VERIF_ROOT. The scratch
# directory is reused between calls (incremental builds) and removed with `rm -rf /tmp/seedrun`.
# The recorded results in seeded/*/meta.json come from tools/run_seeded.sh (patch applied to /repo).
set -u
N=$1; shift
S=${SEEDRUN:-/tmp/seedrun}
mkdir -p $S/root
rsync -a --delete --exclude target --exclude .git /repo/ $S/repo/
( cd $S/repo && patch -p1 -s < /verif/seeded/$N/patch.diff ) || { echo "== $N: patch does not apply"; exit 2; }
# the harness as COMMITTED (work in progress in /verif does not leak in)
rm -rf $S/harness && git -C /verif archive HEAD harness | tar -x -C $S
sed -i "s#path = \"/repo\"#path = \"$S/repo\"#" $S/harness/Cargo.toml
rm -rf $S/root/corpus $S/root/replays; git -C /verif archive HEAD corpus known_findings.json properties.jsonl | tar -x -C $S/root
cd $S/harness
if ! CARGO_NET_OFFLINE=true CARGO_TARGET_DIR=$S/target cargo build --profile ${PROFILE:-fast} --offline > $S/build.log 2>&1; then echo "== $N: build failed"; tail -5 $S/build.log; exit 2; fi
cd $S/root
for id in "$@"; do
  out=$(VERIF_ROOT=$S/root timeout 3000 $S/target/${PROFILE:-fast}/cv check $id ${TIER:-quick} 2>&1); rc=$?
  echo "== $N $id exit=$rc $(echo "$out" | grep -E 'VIOLATION|INCONCLUSIVE' | head -2)"
  echo "$out" | grep -A4 "^failing case" | head -6
done
