#!/usr/bin/env python3
"""Regenerates /verif/MANIFEST.json from the table below (kept in one place so that the
manifest stays valid while checks are added)."""
import json, os
ROOT = os.path.dirname(os.path.dirname(os.path.abspath(__file__)))

CHECKS = {
 "C01": dict(
   technique="property-based differential testing against a reference PEG evaluator (generated grammars x generated inputs, bounded-exhaustive small tier + proptest-driven random tier, structural shrinking)",
   text="Generated-input search: every tree of <=3 combinator nodes over 5 primitives x all strings over {a,b,c} up to length 4 (quick) / 6 (thorough), plus 40k (quick) / 800k (thorough) random (grammar, input) pairs of the C01 class, each run through parse and check with Rich and EmptyErr, a plain and a span-observed build and g.then(rest), compared with an independently written PEG reference (acceptance, output value, consumed extent of every sub-parser). Exploration, not proof: absence of a counterexample within these bounds.",
   note="Trusted: the reference evaluator harness/src/reference.rs (written from the PEG definitions), proptest's RNG, the boxed dynamic builder (children are reached through dyn Parser; static monomorphisations only via the catalogue).",
   design="DESIGN.md section 4, C01"),
 "C02": dict(
   technique="property-based differential testing against a reference repetition semantics: complete enumeration of the bounds/flags/consumer configuration grid x all short strings, plus proptest-driven random item/separator grammars, structural shrinking",
   text="Generated-input search: the complete grid at_least 0..4 x at_most {none,0..4} x allow_leading x allow_trailing x 9 consumers (+collect_exactly, +configure()) for 6 fixed item/separator pairs on every string over {a , b} up to length 5 (quick) / 7 (thorough), the empty-interval sub-domain separately, and 60k / 800k random repetitions with generated item and separator grammars; compared with the reference on acceptance, collected value (order via non-commutative folds and enumerate) and unconsumed remainder. Exploration within these bounds.",
   note="Trusted: the reference repetition loop (harness/src/reference.rs), the admissible variants V-lead / V-trail-cap (DESIGN.md 3.1), proptest RNG. Known finding KF-b (at_least > at_most) is listed in known_findings.json and confined to its own sub-domain.",
   design="DESIGN.md section 4, C02"),
 "C03": dict(
   technique="property-based testing of the ParseResult contract over generated grammars and inputs, with a reference PEG evaluator deciding 'matches the entire input', one-token extensions of every accepted input (metamorphic), and lazy() vs prefix match",
   text="Generated-input search: ~9.5k small grammars x all strings over {a,b,c} up to length 4 (quick) / 5 (thorough) plus 60k / 800k random (grammar, input) pairs of the C01/C02 classes with validate, recover_with, memoized and labelled nodes; on every case the raw ParseResult of parse() and check(), with Rich and with EmptyErr, is tested for the four implications of the statement, error-free output <=> reference matches the entire input, every one-token extension of an accepted input is rejected unless the reference matches it, and g.lazy() accepts iff the reference matches a prefix. Exploration within these bounds.",
   note="Trusted: the reference PEG evaluator for 'entire input matched'; panics inside recovery strategies are left to C20 (counted).",
   design="DESIGN.md section 4, C03"),
 "C05": dict(
   technique="property-based differential testing of the reported error list and of Inspector user state against the surviving-path emissions computed by a reference semantics (generated grammars with emitters at every backtracking site; exhaustive templates x short strings + proptest-driven random tier)",
   text="Generated-input search: 42 hand-shaped templates (one per backtracking site: choice tuple/Vec/array, or, or_not, not, and_is, rewind, repeated fast/counted loop, folds, the four separated_by exits, custom-consumes-then-fails, abandoned and nested recovery) x every string over {a,b,c} up to length 6 (quick) / 8 (thorough), plus 150k / 2M random C01/C02-class grammars with validate emitters, recover_with nodes, state pushes and consuming-then-failing custom parsers; whenever there is an output, errors() must equal as a sequence the emissions of the surviving path and the Inspector log the surviving pushes, for parse and for check. Exploration within these bounds.",
   note="Trusted: the reference (an abandoned attempt returns nothing, by construction); content of recovered errors is C08's. Emitters are not generated inside the right-hand side of and_is. F2 (and_is/rewind dropped kept emissions) was found by this check and fixed in /repo (7fea062).",
   design="DESIGN.md section 4, C05"),
 "C06": dict(
   technique="property-based differential testing of the last reported error against a never-rolled-back failure-event log kept by a reference semantics (position, expected-set union, user-error preservation), plus oracle-free span/found well-formedness and cross-error-type agreement; exhaustive small grammars x short strings + proptest-driven random tier",
   text="Generated-input search over rejected inputs: ~7.1k small grammars (incl. repetitions and 19 templates aimed at each failure-bookkeeping site) x every string over {a,b,c} up to length 4 (quick) / 6 (thorough), plus 300k / 4M random (grammar, input) pairs (strict and general class, no `not`); the last Rich error must start exactly at the furthest failure event, carry the union of the expectations at that position or the user-supplied error there, have a well-formed span and a truthful `found`; Cheap and Simple must report the same span (Simple the same found), EmptyErr exactly one error. Exploration within these bounds.",
   note="Trusted: the reference's event positions (primitive mismatch at the offending token, semantic rejection at the start of the rejected match). Content comparison is skipped (counted) where a failure event lies inside a rejected filter/try_map. F4 and F5/F10 were found by this check and fixed in /repo (d8e9691, 72acc61).",
   design="DESIGN.md section 4, C06"),
 "C04": dict(
   technique="property-based differential testing: parse vs check on the same (grammar, input); metamorphic paired formulations (value-eliding combinators rebuilt in their value-building form); metamorphic inner elision (wrapping a node in to_slice()/ignored()); generated grammars of every class, exhaustive templates x short strings + proptest-driven random tier",
   text="Generated-input search: 220 templates (each value-eliding combinator around each Emit-forcing parser incl. Ext parsers with a separately written check path) x every string over {a,b,c} up to length 5 (quick) / 7 (thorough), plus 300k / 4M random (grammar, input) pairs over every node family the harness can build (structural / +emitters+recovery / everything incl. labels, map_err, memoized, recursion, state, context), &str and &[char]; check() must report the same has_output and the identical error list as parse() (Rich; Simple and Cheap on a quarter of the cases), the value-building rewrite of the grammar must give the identical output, errors and user state, and running an un-inspected node in Check mode must not change acceptance or errors. Exploration within these bounds.",
   note="No reference semantics is involved (pure differential). Panics occurring identically in both modes are counted and left to C20. Pratt and nested-input grammars are compared parse-vs-check inside C09 / C16.",
   design="DESIGN.md section 4, C04"),
 "C08": dict(
   technique="property-based differential testing against a reference semantics of recover_with and its four strategies (output incl. fallback markers, number/order/content of reported errors, final error when both fail), plus oracle-free invariants (no fallback marker in an error-free result; errors >= fallback markers); exhaustive templates x short strings + proptest-driven random tier",
   text="Generated-input search: 112 templates (8 strategy instances x {alone, followed, inside choice / repetition / or_not, behind an alternative that failed further ahead, recovery inside recovery, validated p} and nested_delimiters with 0..2 extra pairs) x every string over {a,b,c} up to length 6 (quick) / 8 (thorough) resp. over {( ) [ ] a} up to 5 / 7, plus 400k / 5M random C01/C02-class grammars with recover_with at arbitrary nodes and nesting and validate emitters; compared with the reference: has_output, output value (which nodes produced fallback markers), number and order of errors, content (span start, found, expected set / message) of every recovered error and of the final error of a rejected input. Exploration within these bounds.",
   note="Trusted: the reference strategies written from the statement; both readings of V-take are admissible (the default one matched every case so far). Events inside nested_delimiters' scanner have no specified position (content not compared after one ran). collect_exactly under recover_with panics are F9 / C20 (counted).",
   design="DESIGN.md section 4, C08"),
 "C17": dict(
   technique="property-based metamorphic + differential testing: decorated (labelled / as_context / span-preserving map_err) vs undecorated grammar on acceptance, output, error count and spans; error content (label in place of expectations, contexts, map_err marker, map_err invocation count) against a reference failure-event log with the statement's decoration rules; exhaustive templates x short strings + proptest-driven random tier",
   text="Generated-input search: 252 templates (6 decorations x 7 inner parsers x 6 surroundings: alone, followed, behind alternatives that left a pending error before / at / beyond the decorated failure, under or_not) x every string over {a,b,c} up to length 5 (quick) / 7 (thorough), plus 400k / 5M random C01/C02-class grammars with labelled / as_context / map_err / map_err_with_state at random nodes (validate emitters in half of them); the decorated and the undecorated grammar must agree on has_output, output, number of errors and every span, and the reported errors must carry exactly the labels / contexts / map_err markers the statement prescribes, with f invoked once per failure of its parser. Exploration within these bounds.",
   note="Trusted: the reference event log with label / map_err rules; V-label-success admits both readings; contexts after a merge are only required to be a subset (unspecified which survive); `found` of a labelled user-supplied error is unspecified. F6 (map_err dropped the pending error on success) was found by this check and fixed in /repo (d0236bb).",
   design="DESIGN.md section 4, C17"),
 "C18": dict(
   technique="property-based testing with a snapshot Inspector (count + hash of consumed tokens) observed at every node: oracle-free position-consistency check of every observation against a direct fold of the tokens before the node's own span end, plus differential comparison of all observations and the final state with a reference that threads state by position and with_state scope; &str, &[char] and Stream inputs; exhaustive templates x short strings + proptest-driven random tier",
   text="Generated-input search: 16 templates (backtracking, lookahead, repetition fast/counted loops, fold_with callbacks, the three recovery strategies, with_state inside repetition / choice / nested) x every string over {a,b,c} up to length 6 (quick) / 8 (thorough) x 3 input kinds, plus 300k / 4M random C01/C02/C08-class grammars with every node wrapped in a state-reading map_with (select! and fold_with callbacks too); every observation must equal fold(S0, tokens before the current position), the caller's state after a successful parse_with_state / check_with_state must equal fold(S0, whole input), and with_state sub-parsers must start from a fresh copy on every invocation and leave the outer state untouched. Exploration within these bounds.",
   note="Trusted: the node's own span end as 'current position' for the oracle-free part (C07 ties it to the consumed extent); the reference's scope bookkeeping for with_state. Pratt fold callbacks reading state are exercised in C09's module.",
   design="DESIGN.md section 4, C18"),
 "C15": dict(
   technique="property-based differential testing against a reference semantics that threads an explicit context value (nearest enclosing provider on the current path), plus a reference-free metamorphic relation (consumers under constant providers replaced by their statically configured equivalents); exhaustive grammar families x short strings + proptest-driven random tier",
   text="Generated-input search: 67 family members (length-prefixed with exactly / at_most / try_configure and 4 consumers, nested two levels, lists of length-prefixed lists, providers in abandoned alternatives; delimiter-echo; indentation-like with_ctx / map_ctx nesting; context under lookahead and recursion) x every string over {0,1,2,a} up to length 6 (quick) / 8 (thorough), plus 300k / 4M random C01/C02-class grammars with with_ctx / ignore_with_ctx / then_with_ctx / map_ctx providers and map_with(ctx) / just.configure / repeated.configure / try_configure consumers at random nodes (incl. repetitions, choices, lookahead, recursion); acceptance, output (which embeds every observed context), check-mode acceptance and the final error must equal the reference's, and the statically configured equivalent must agree wherever the provider is a constant. Exploration within these bounds.",
   note="Trusted: the reference's context threading; ctx_num (test scaffolding shared by builder and reference). at_most-from-context keeps the static lower bound at 0 (the empty-interval corner is C02's known finding KF-b).",
   design="DESIGN.md section 4, C15"),
 "C07": dict(
   technique="property-based differential testing of every captured span / slice against the consumed extents computed by a reference PEG evaluator, plus oracle-free span well-formedness (ordered, in range, char boundaries, nesting) and pointer-identity of slices; six input kinds incl. gapped token-span inputs (Input::map over slice and Stream, IterInput); exhaustive templates x short strings + proptest-driven random tier",
   text="Generated-input search: ~170-234 templates per input kind (7 capture sites x 8 subjects incl. empty matches, rewound and backtracked matches x 4 surroundings, fold_with callbacks, captures under lookahead) x every string over {a,b,c} up to length 5 (quick) / 7 (thorough) for &str, &[char], Stream, slice.map, Stream.map and IterInput with generated gapped token spans and eoi spans, the same templates over {a,e-acute,U+1D11E} for multi-byte text, plus 400k / 5M random C01/C02-class grammars with every node wrapped in a span capture; every span must equal the extent the reference says the node consumed (empty matches: an empty span between the neighbouring tokens), be well-formed and nested, and every slice must be the caller's memory at input[span]. Exploration within these bounds.",
   note="Trusted: the reference's consumed extents; the span conversion tables (byte offsets / indices / token spans). F7 (empty-match spans of Input::map / IterInput) was found by this check and fixed in /repo (bf56838). Pratt fold-callback spans: C09's module.",
   design="DESIGN.md section 4, C07"),
 "C11": dict(
   technique="property-based metamorphic testing: the same generated grammar with and without memoized() at a random subset of nodes must give identical results (differential on output and full error lists, parse and check); statically typed probes for parser-address aliasing; left-recursive grammar families run in a resource-limited child process (termination + ParseResult contract); exhaustive templates x short strings + proptest-driven random tier",
   text="Generated-input search: 16 templates (failing memoized parsers next to alternatives, the same memoized parser retried at one position, nested / adjacent placements, inside repetitions, lookahead, with emissions, try_map, custom) x every string over {a,b,c} up to length 6 (quick) / 8 (thorough); 5 statically typed inline templates (3 aliasing probes, 2 controls) x all strings up to 4 / 6; 150k / 3M random C01/C02-class grammars (with recursion, validate in half) with memoized() at random nodes incl. directly nested; memo(g) and g must agree on has_output, output and every error. Left recursion: 4 grammars (direct with two memo placements, expr op expr, indirect) x all strings over {x,y,+,z} up to length 6 / 7 + 2k / 40k random ones up to length 200 in a child process (4 GiB address-space limit, 120 s watchdog): every parse and check must return and obey the ParseResult contract. Exploration within these bounds.",
   note="Trusted: nothing but the plain grammar as the model. `found` is not compared in grammars containing `not` (pinned, merge-order dependent). Known finding KF-a (memo key = position + parser address aliases for a wrapper and its first field and for distinct zero-sized parsers) is listed per static template in known_findings.json. F3 was found by this check and fixed in /repo (b359b1f).",
   design="DESIGN.md section 4, C11"),
 "C12": dict(
   technique="property-based differential testing of generated guarded-recursive grammars against a reference PEG evaluator, reference-free metamorphic comparison with the bounded unrolling (no Recursive in it), metamorphic build-style / handle variations (recursive(), declare/define, early clone with the declaring handle dropped, clone/boxed/Rc with the original dropped), a depth ladder in resource-limited child processes, and a small history test for define-twice",
   text="Generated-input search: 7 recursive templates (paren / list / optional nests, right recursion, two mutually recursive definitions, recursion under lookahead and behind a partially matching alternative) x every string over {( ) x ,} up to length 5 (quick) / 7 (thorough) plus derived sentences nested to every depth 0..9 / 0..12 with one deletion or insertion at every position; 300k / 4M random grammars with 1..2 guarded recursive definitions; each compared with the reference (acceptance, output, extents), with its own unrolling to depth len+1, and across three build styles and dropped-original handles. Depth ladder: 5 parser shapes x parse / check / to_slice x depths 10..10^5 (quick) and 3*10^5, 10^6 (thorough), balanced and truncated, each in a child process that must exit normally with the right depth. define-twice: 6 histories. Exploration within these bounds.",
   note="Trusted: reference PEG evaluator for part (1); unrolling and style comparisons need no reference. 'Any depth' is sampled on a ladder up to 10^6 (thorough), not shown for all depths. Exponentially backtracking cases (> 8000 reference evaluations) are skipped and counted.",
   design="DESIGN.md section 4, C12"),
 "C19": dict(
   technique="property-based testing with a drop-tracking output type and a drop-tracking token type (per-thread ledger of live ids, double-drop detector): invariant checks after every generated parse and check -- live ids == ids reachable from the output while the result is alive, nothing alive after it is dropped, the caller's tokens untouched; exhaustive templates x short strings + proptest-driven random tier",
   text="Generated-input search: 85 templates (group arrays of 1..4 and tuple groups alone / under choice / or_not, collect_exactly over repeated / separated_by with every bounds shape, into_iter() into fixed-size arrays with too few / exact / too many items, folds, recovery, validate + filter, and_is / rewind) x every string over {a,b,c} up to length 6 (quick) / 8 (thorough), rotating over &str, &[TrackedTok] and Stream<TrackedTok>, plus 400k / 5M random C01/C02-class grammars with tracked-value mappers at random nodes; parse and check; after each run the ledger must balance exactly (no leak, no double drop, tokens neither lost nor duplicated). Exploration within these bounds.",
   note="No reference semantics involved. F1 (group([..;N]) leaked its initialised prefix) was found by this check and fixed in /repo (6cc87d9). The thorough tier's ASan fuzz build is not part of this check (see DESIGN.md, tooling limits).",
   design="DESIGN.md section 4, C19"),
 "C20": dict(
   technique="property-based robustness testing / fuzzing of generated (grammar, input, error type) triples in a supervised child process: every panic is caught and reported with its location, a signal-killed child is a violation (re-run single-threaded with a trace file to pin the case), the ParseResult contract and span well-formedness are asserted on every result, and a counting Inspector enforces a deterministic work bound tied to the reference evaluator's evaluation count (polynomial time / termination); exhaustive wrapper-x-failing-parser templates + proptest-driven random tier incl. arbitrary Unicode and bytes",
   text="Generated-input search: 720 templates (10 wrappers -- map_err, map_err_with_state, recover_with x4 strategies, labelled, memoized, stacked -- x 18 ways of failing incl. try_map / custom / Ext rejections, memoized failures, short collect_exactly / into_iter, not, unwrapped x 4 surroundings) x every string over {a,b,c} up to length 4 (quick) / 6 (thorough) plus delimiter and multi-byte strings; 250k / 4M random grammars over every node family with a wrapper at the root, on &str (derived, truncated, random Unicode incl. combining marks, 4-byte and boundary code points) and &[u8] (arbitrary bytes); each with Rich, Simple, Cheap and EmptyErr, parse and check; 40k / 600k random strings through every text::* parser, regex and the Graphemes input. No panic, no crash, contract and spans valid, tokens consumed <= 64 x (reference evaluations + length + 16). Exploration within these bounds.",
   note="Trusted: the reference's evaluation count as the yardstick of the work bound. Hangs that consume no tokens would only hit the wall-clock watchdog (inconclusive). F8 (zero-sized errors not recorded by add_alt_err), F3 and F9 (failing memoized / collect_exactly leave no pending error) were found here / in C11 / C06 and fixed in /repo. The ASan build of a libFuzzer target is a thorough-tier extra (see DESIGN.md).",
   design="DESIGN.md section 4, C20"),
 "C09": dict(
   technique="property-based differential testing of atom.pratt(ops) against an independently written textbook binding-power evaluator over generated operator tables (bounded-exhaustive: every token string up to a length bound per table; plus proptest-driven random tables and long strings), with oracle-free invariants (flattened tree == consumed tokens in order; Vec / tuple-of-boxed / plain-tuple tables and check mode agree; fold-callback spans and states)",
   text="Generated-input search: 8 statically typed plain-operator tuples x every string up to length 6 (quick) / 7 (thorough) over their alphabets; 300 / 3000 generated tables (1..6 operators over + - * ! ^ ~, powers 0..3, 70% plain / 30% unrestricted incl. duplicates and mixed associativity, a third with parenthesised atoms via recursive) x EVERY string over (atoms, used symbols, a foreign symbol, parentheses) up to length 5..6 / 6..8 (about 10^4..10^5 strings per table); 300k / 4M random (table, string) pairs with derived expressions (+edits) and random strings up to length 40. Tree, acceptance and consumed length must equal the textbook algorithm's; all representations and check mode must agree; every fold callback must see the span and state of exactly its sub-expression. Exploration within these bounds (the string enumeration is complete per table, the set of tables is sampled).",
   note="Trusted: the reference evaluator in harness/src/props/c09.rs (written from the statement; validated in the design pilot on 600k unrestricted cases). 'exhaustive' in the evidence refers to the per-table string enumeration.",
   design="DESIGN.md section 4, C09"),
}

NOT_YET = {}

def main():
    props = [json.loads(l) for l in open(os.path.join(ROOT, "properties.jsonl"))]
    checks = []
    na = []
    for p in props:
        pid = p["id"]
        if pid in CHECKS:
            c = CHECKS[pid]
            checks.append({
                "property_id": pid,
                "quick_cmd": f"./check {pid} quick",
                "thorough_cmd": f"./check {pid} thorough",
                "evidence_file": f"/verif/evidence/{pid}.json",
                "replay_cmd_template": "./check replay {path}",
                "engine": "cv",
                "level_claimed": {"category": "exploration", "text": c["text"], "design_ref": c["design"]},
                "level_note": c["note"],
                "technique": c["technique"],
            })
        else:
            na.append({"property_id": pid, "reason": NOT_YET.get(pid, "check not built yet in this round (planned: property-based testing per DESIGN.md section 4); nothing is claimed for it")})
    m = {
        "version": 1,
        "setup_cmd": "cd harness && CARGO_NET_OFFLINE=true cargo build --release --offline",
        "hooks": {
            "guard": "chumsky_verif",
            "enable": "none needed: every observation point (ParseResult, spans in outputs, Inspector, drop counters, counting iterators) is public API; the harness depends on chumsky by path=/repo so each check rebuilds from the working tree",
            "baseline_off_cmd": "cd /repo && cargo test --workspace --no-fail-fast --offline",
            "source_commits": [],
            "add_only": True,
        },
        "engines": [{"name": "cv", "path": "harness", "serves_properties": [c["property_id"] for c in checks],
                     "kind_free_text": "Rust binary: grammar AST -> real chumsky parser (dynamic builder) + reference semantics; proptest-generated choice tapes; structural shrinker; replay files"}],
        "checks": checks,
        "not_applicable": na,
        "notes": "Technique family: property-based testing and fuzzing. Exit codes: 0 held, 1 VIOLATION line printed, 2 inconclusive. VERIF_SEED selects the PRNG stream (0 = fixed default).",
    }
    json.dump(m, open(os.path.join(ROOT, "MANIFEST.json"), "w"), indent=1)
    print("MANIFEST.json:", len(checks), "checks,", len(na), "not claimed")

if __name__ == "__main__":
    main()
