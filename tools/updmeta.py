#!/usr/bin/env python3
"""usage: tools/updmeta.py <label> <runner log>...
Updates seeded/<id>/meta.json for every seed that occurs in the given runner logs (lines
'== <seed> <ID> exit=<rc> ...' as printed by tools/run_seeded_scratch.sh / run_seeded.sh). Results are merged per
check (a new result for a check replaces the old one); the previous state is appended to `history` under its label.
A seed without meta.json needs seeded/<id>/need.txt (one paragraph: what the change needs in order to manifest)."""
import json, os, re, sys
ROOT = os.path.dirname(os.path.dirname(os.path.abspath(__file__)))
label = sys.argv[1]
res = {}
for path in sys.argv[2:]:
    for line in open(path):
        m = re.match(r"== (\S+) (C\d\d) exit=(\d+)", line)
        if m:
            res.setdefault(m.group(1), {})[m.group(2)] = int(m.group(3))
for sid, r in sorted(res.items()):
    d = os.path.join(ROOT, "seeded", sid)
    mp = os.path.join(d, "meta.json")
    prop = sid.split("-")[0]
    if os.path.exists(mp):
        meta = json.load(open(mp))
    else:
        need = open(os.path.join(d, "need.txt")).read().strip()
        meta = {"id": sid, "property": prop,
                "origin": "independent sub-agent given only the property text and a scratch worktree of /repo (nothing from /verif)",
                "needs_to_manifest": need,
                "confirmed": {"how": f"tools/confirm_seed.sh seeded/{sid} (scratch worktree /tmp/wt-confirm): patch applies; cargo test --workspace --no-fail-fast --offline = 40 unit + 82 doc tests pass with the change; demo.rs as tests/seed_demo.rs fails with the change and passes without it",
                              "suite_with_change": "40 passed + 82 doctests passed, 0 failed", "demo_with_change": "fails", "demo_without_change": "passes"}}
    old = meta.get("results")
    if old is None:
        old = {}
        for m in re.finditer(r"(C\d\d)=(VIOLATION|exit (\d+))", meta.get("checks_run", "")):
            old[m.group(1)] = 1 if m.group(2) == "VIOLATION" else int(m.group(3))
    if old:
        meta.setdefault("history", []).append({"pass": meta.get("pass", "first pass"), "results": old, "detected_by_quick": sorted(k for k, v in old.items() if v == 1)})
    new = dict(old)
    new.update(r)
    det = sorted(k for k, v in new.items() if v == 1)
    meta["pass"] = label
    meta["results"] = new
    meta["checks_run"] = "tools/run_seeded_scratch.sh (a copy of /repo at HEAD with the patch applied, the committed harness built against it, quick tier, default seed): " + ", ".join(f"{k}={'VIOLATION' if v == 1 else 'exit ' + str(v)}" for k, v in sorted(new.items()))
    meta["detected_by_quick"] = det
    meta["target_property_detected"] = prop in det
    json.dump(meta, open(mp, "w"), indent=1, ensure_ascii=False)
    print(sid, "target detected" if prop in det else "TARGET NOT DETECTED", det)
