#!/bin/bash
# usage: tools/run_seeded.sh <patch.diff> <ID> [<ID>...]   (env TIER=quick|thorough)
# Applies a seeded change to /repo, runs the named checks, and undoes it straight afterwards.
P=$(readlink -f "$1"); shift
cd /repo || exit 2
if [ -n "$(git status --porcelain)" ]; then echo "/repo is not clean"; exit 2; fi
git apply "$P" || { echo "patch does not apply to /repo"; exit 2; }
trap 'git -C /repo checkout -- . ' EXIT
cd /verif
for id in "$@"; do
  out=$(VERIF_KEEP_EVIDENCE=1 ./check $id ${TIER:-quick} 2>&1); rc=$?
  echo "== $id exit=$rc $(echo "$out" | grep -E 'VIOLATION|INCONCLUSIVE' | head -2)"
  echo "$out" | grep -A4 "^failing case" | head -6
done
