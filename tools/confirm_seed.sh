#!/bin/bash
# usage: tools/confirm_seed.sh <dir with patch.diff + demo.rs> [worktree]
# Confirms, in a scratch worktree of /repo (outside /repo and /verif), that a seeded change
#  (1) applies and compiles, (2) leaves the pinned test suite green, (3) makes its demonstration
#  fail, and (4) the demonstration passes without it. Prints one CONFIRM line.
D=$(cd "$1" && pwd); WT=${2:-/tmp/wt-confirm}
if [ ! -d "$WT" ]; then git -C /repo worktree add --detach "$WT" HEAD >/dev/null 2>&1 || { echo "cannot create worktree"; exit 2; }; fi
cd "$WT" || exit 2
git checkout -q --detach "$(git -C /repo rev-parse HEAD)" 2>/dev/null
git checkout -- . ; git clean -fdq -e target
export CARGO_NET_OFFLINE=true
git apply "$D/patch.diff" || { echo "CONFIRM $(basename $D): patch does not apply"; exit 1; }
T=$(cargo test --workspace --no-fail-fast --offline 2>&1); 
suite=$(echo "$T" | grep -E "^test result" | head -2 | tr '\n' ' ')
suite_ok=$(echo "$T" | grep -E "^test result" | grep -vc "ok\.")
mkdir -p tests; cp "$D/demo.rs" tests/seed_demo.rs
FEAT=$(head -1 "$D/demo.rs" | grep -o -- "--features [A-Za-z,_]*"); cargo test --offline $FEAT --test seed_demo >/tmp/confirm.with.log 2>&1; with=$?
git apply -R "$D/patch.diff"
cargo test --offline $FEAT --test seed_demo >/tmp/confirm.without.log 2>&1; without=$?
rm -f tests/seed_demo.rs; rmdir tests 2>/dev/null; git checkout -- .
echo "CONFIRM $(basename $D): suite_failures_with_change=$suite_ok [$suite] demo_with_change_exit=$with demo_without_change_exit=$without"
[ "$suite_ok" = "0" ] && [ $with -ne 0 ] && [ $without -eq 0 ]
