#![no_main]
//! Coverage-guided tier: libFuzzer bytes -> choice tape -> (grammar, input) -> the in-target oracles
//! of the property checks (see harness/src/fuzz.rs).
use libfuzzer_sys::fuzz_target;

fuzz_target!(|data: &[u8]| {
    cv::fuzz::fuzz_entry(data);
});
