#![no_main]
#![allow(dead_code, unused_imports, clippy::all)]
//! Coverage-guided tier: libFuzzer bytes -> choice tape -> (grammar, input) -> the in-target oracles
//! of the property checks (see harness/src/fuzz.rs). The harness is a binary crate; its modules are
//! compiled into this target directly (same sources, `crate::` paths resolve because they sit at the
//! crate root here too).
#[path = "../../src/build.rs"]
pub mod build;
#[path = "../../src/build_a.rs"]
pub mod build_a;
#[path = "../../src/build_b.rs"]
pub mod build_b;
#[path = "../../src/build_c.rs"]
pub mod build_c;
#[path = "../../src/build_d.rs"]
pub mod build_d;
#[path = "../../src/build_e.rs"]
pub mod build_e;
#[path = "../../src/compare.rs"]
pub mod compare;
#[path = "../../src/driver.rs"]
pub mod driver;
#[path = "../../src/gen.rs"]
pub mod gen;
#[path = "../../src/grammar.rs"]
pub mod grammar;
#[path = "../../src/props/mod.rs"]
pub mod props;
#[path = "../../src/reference.rs"]
pub mod reference;
#[path = "../../src/run.rs"]
pub mod run;
#[path = "../../src/val.rs"]
pub mod val;
#[path = "../../src/worker.rs"]
pub mod worker;
#[path = "../../src/fuzz.rs"]
pub mod fuzz;

use libfuzzer_sys::fuzz_target;

fuzz_target!(|data: &[u8]| {
    fuzz::fuzz_entry(data);
});
