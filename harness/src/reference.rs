//! Reference semantics (the oracle). Written from the PEG definitions and the property
//! statements: a direct recursive evaluator over the token vector with explicit positions.
//! All positions and spans are *token indices*; conversion to the input kind's offsets is done by
//! the comparator (compare.rs).
use crate::build::{ctx_op, fnv_step, Insp, Pat};
use crate::grammar::*;
use crate::val::{Tracked, Val};
use std::collections::{BTreeSet, HashMap};

#[derive(Clone, Debug, PartialEq)]
pub struct AltR {
    pub pos: usize,
    pub span: (usize, usize),
    pub exp: BTreeSet<Pat>,
    /// Some(found) for expected/found errors, None for user-supplied errors
    pub found: Option<Option<char>>,
    pub custom: Option<String>,
    pub ctx: Vec<(String, (usize, usize))>,
    /// contexts of every merged event (which ones survive a merge is not specified)
    pub ctx_any: Vec<(String, (usize, usize))>,
    /// number of failure events merged at this position (evidence only)
    pub merged: usize,
    /// some contributing event has no specified position (failed `not`, nested_delimiters...)
    pub fuzzy: bool,
    /// `found` is unspecified (a label rewrote a user-supplied error, which carries no found token)
    pub found_fuzzy: bool,
    /// the error was produced inside a nested input (C16): its span in absolute offsets
    pub abs: Option<(usize, usize)>,
    /// for an inner error at the end of the inner input: the other admissible start (eoi.end)
    pub abs_end_alt: Option<usize>,
}

#[derive(Clone, Debug, PartialEq)]
pub enum EmisKind {
    Validate(u32, u8),
    Recovered(AltR),
}
#[derive(Clone, Debug, PartialEq)]
pub struct Emis {
    pub kind: EmisKind,
    pub span: (usize, usize),
    /// position the emission is attached to (used for as_context spans)
    pub at: usize,
    pub ctx: Vec<(String, (usize, usize))>,
    /// emitted inside a nested input (C16): the admissible span in absolute offsets
    pub abs: Option<crate::compare::ExpSpan>,
}

#[derive(Clone, Debug, Default)]
pub struct Stats {
    pub evals: u64,
    pub partial_backtracks: u32,
    pub backtracks: u32,
    pub semantic_rejects: u32,
    pub abandoned_emissions: u32,
    pub abandoned_pushes: u32,
    pub kept_under_lookahead: u32,
    pub custom_consumed_then_failed: u32,
    pub empty_matches: u32,
    pub empty_matches_between_tokens: u32,
    pub recoveries_fired: u32,
    pub recoveries_abandoned: u32,
    pub recoveries_failed: u32,
    pub events: u32,
    pub events_replaced_later: u32,
    pub events_kept_earlier: u32,
    pub events_merged: u32,
    pub events_merged_diff: u32,
    pub map_err_applied: u64,
    pub label_at_start: u32,
    pub label_further_in: u32,
    pub label_sheltered_pending: u32,
    pub custom_at_max: u32,
    pub rec_calls: u32,
    pub max_rec_depth: u32,
    pub rep_at_bound: u32,
    pub sep_boundary: u32,
    pub used_vlead: bool,
    pub used_vtrailcap: bool,
    pub used_vlabel: bool,
    pub trymap_inner_events: bool,
    pub lo_gt_hi: bool,
    pub ctx_values_seen: u32,
    /// some consumer node saw two different context values within one parse
    pub ctx_multi: u32,
    pub memo_revisits: u32,
    pub memo_failures: u32,
    pub memo_two_at_one_pos: u32,
    pub try_cfg_errs: u32,
    pub fuel_out: bool,
    /// failure events with unspecified positions were generated (nested_delimiters' scanner)
    pub unspecified_events: bool,
    pub sites: Vec<&'static str>,
    // ---- nested inputs (C16)
    pub nested_entered: u32,
    pub nested_inner_failed: u32,
    pub nested_inner_prefix_only: u32,
    pub nested_inner_emitted: u32,
    pub nested_inner_left_alt: u32,
    pub nested_not_a_group: u32,
    pub nested_max_depth: u32,
}

#[derive(Clone, Debug, Default)]
pub struct RefOpts {
    pub observed: bool,
    /// every node's output is wrapped in the user state observed when it finished (C18)
    pub obs_state: bool,
    /// try_map / try_map_with / validate / select closures also record the span they are given (C07)
    pub cap_spans: bool,
    /// V-lead variant: leading separator with zero items is left unconsumed even with allow_trailing
    pub vlead_alt: bool,
    /// V-trail-cap variant: trailing separator consumed after exactly at_most items
    pub vtrailcap_alt: bool,
    /// V-label-success variant: labels do not rewrite events left by a parser that succeeded
    pub vlabel_alt: bool,
    /// V-take variant: a successful recovery does not consume the pending error
    pub vtake_alt: bool,
    /// V-nested-pos variant: the failure of a nested parse counts at the outer position OF the group
    /// token instead of just after it
    pub vnested_at_token: bool,
    /// V-nested-leftover variant: a nested parse that succeeded leaves no failure events behind
    pub vnested_drop_leftover: bool,
}

#[derive(Clone)]
struct Env {
    ctx: Val,
    st_seed: Option<u64>,
    st_start: usize,
    in_ws: bool,
    depth: u32,
    /// user-state scope: 0 = the caller's state, a fresh id per with_state invocation
    scope: u32,
}

pub struct Rf<'a> {
    pub toks: &'a [char],
    ids: HashMap<*const G, u32>,
    pub opts: RefOpts,
    pub alt: Option<AltR>,
    pub emitted: Vec<Emis>,
    pub log: Vec<u32>,
    recs: HashMap<u8, &'a G>,
    pub stats: Stats,
    hi: usize,
    fuel: u64,
    /// token ranges consumed inside with_state invocations on the current path: (outer scope, start, end)
    ws_ranges: Vec<(u32, usize, usize)>,
    next_scope: u32,
    ctx_seen: HashMap<u32, u64>,
    memo_seen: HashMap<(u32, usize), u32>,
    /// user state left behind in the caller's scope after the whole parse
    pub final_state: (u64, u64),
    /// token-tree inputs (C16): the nodes behind `toks` and the eoi span of this sequence
    tree: Option<&'a [TNode]>,
    nest_depth: u32,
}

#[derive(Clone, Debug)]
pub struct RefOut {
    /// result of the grammar itself (before the top-level end-of-input requirement)
    pub prefix: Option<(Val, usize)>,
    /// the grammar matched the entire input
    pub accepted: bool,
    pub emitted: Vec<Emis>,
    /// pending error after the top-level end() contributed
    pub alt: Option<AltR>,
    pub log: Vec<u32>,
    pub stats: Stats,
    pub final_state: (u64, u64),
    pub fuel_left: u64,
}

type R = Result<(Val, usize), ()>;

pub fn eval(g: &G, toks: &[char], opts: RefOpts) -> RefOut {
    eval_with(g, g, toks, None, opts, None, 400_000, 0)
}

/// evaluate over a token tree (C16): group tokens look like GOPEN to every parser but nested_in
pub fn eval_tree(g: &G, nodes: &[TNode], opts: RefOpts) -> RefOut {
    let toks: Vec<char> = nodes.iter().map(|n| n.ch()).collect();
    eval_with(g, g, &toks, Some(nodes), opts, None, 400_000, 0)
}

#[allow(clippy::too_many_arguments)]
fn eval_with<'a>(root: &'a G, g: &'a G, toks: &'a [char], tree: Option<&'a [TNode]>, opts: RefOpts, outer: Option<(&HashMap<*const G, u32>, &HashMap<u8, &'a G>, &Env)>, fuel: u64, nest_depth: u32) -> RefOut {
    let mut rf = Rf {
        toks,
        ids: match outer {
            Some((ids, _, _)) => ids.clone(),
            None => number(root),
        },
        opts,
        alt: None,
        emitted: vec![],
        log: vec![],
        recs: match outer {
            Some((_, recs, _)) => recs.clone(),
            None => HashMap::new(),
        },
        stats: Stats::default(),
        hi: 0,
        fuel,
        ws_ranges: vec![],
        next_scope: 1,
        ctx_seen: HashMap::new(),
        memo_seen: HashMap::new(),
        final_state: (0, 0),
        tree,
        nest_depth,
    };
    rf.stats.nested_max_depth = nest_depth;
    let env = match outer {
        // the inner parse shares the caller's context; user state inside nested inputs is not modelled
        Some((_, _, e)) => Env { ctx: e.ctx.clone(), st_seed: None, st_start: 0, in_ws: false, depth: e.depth, scope: 0 },
        None => Env { ctx: Val::Unit, st_seed: None, st_start: 0, in_ws: false, depth: 0, scope: 0 },
    };
    let res = rf.ev(g, 0, &env);
    if let Ok((_, e)) = &res {
        let st = rf.state_at(&env, *e);
        rf.final_state = (st.n, st.h);
    }
    let n = toks.len();
    let (prefix, accepted) = match res {
        Ok((v, e)) => {
            if e == n {
                (Some((v, e)), true)
            } else {
                // top-level end(): an ordinary primitive failure at e
                rf.event(e, [Pat::End].into_iter().collect(), (e, e + 1));
                (Some((v, e)), false)
            }
        }
        Err(()) => (None, false),
    };
    if rf.stats.unspecified_events {
        if let Some(a) = &mut rf.alt {
            a.fuzzy = true;
        }
    }
    RefOut { prefix, accepted, emitted: rf.emitted, alt: rf.alt, log: rf.log, stats: rf.stats, final_state: rf.final_state, fuel_left: rf.fuel }
}

impl<'a> Rf<'a> {
    fn n(&self) -> usize {
        self.toks.len()
    }

    // ---- failure bookkeeping: furthest position wins, equal positions merge, user errors win ----
    pub fn add(&mut self, mut new: AltR) {
        self.stats.events += 1;
        if self.stats.unspecified_events {
            new.fuzzy = true;
        }
        match self.alt.take() {
            None => self.alt = Some(new),
            Some(mut old) => {
                if new.pos > old.pos {
                    self.stats.events_replaced_later += 1;
                    self.alt = Some(new)
                } else if new.pos < old.pos {
                    self.stats.events_kept_earlier += 1;
                    self.alt = Some(old)
                } else {
                    self.stats.events_merged += 1;
                    old.merged += new.merged;
                    old.fuzzy |= new.fuzzy;
                    // an error from inside a nested input merged with another event: which span / found
                    // survives is not specified
                    old.fuzzy |= old.abs.is_some() || new.abs.is_some();
                    old.found_fuzzy |= new.found_fuzzy;
                    for c in new.ctx_any.iter().chain(new.ctx.iter()) {
                        if !old.ctx_any.contains(c) {
                            old.ctx_any.push(c.clone());
                        }
                    }
                    if old.custom.is_some() {
                        // first user error wins
                    } else if new.custom.is_some() {
                        old.custom = new.custom;
                        old.found = None;
                        old.exp.clear();
                    } else {
                        if old.exp != new.exp {
                            // genuinely different expectations merged
                            self.stats.events_merged_diff += 1;
                        }
                        old.exp.extend(new.exp);
                        if let (Some(of), Some(nf)) = (&mut old.found, new.found) {
                            if of.is_none() {
                                *of = nf;
                            }
                        }
                    }
                    self.alt = Some(old)
                }
            }
        }
    }
    fn event(&mut self, pos: usize, exp: BTreeSet<Pat>, span: (usize, usize)) {
        let n = self.n();
        let found = self.toks.get(pos).copied();
        let span = (span.0.min(n), span.1.min(n));
        self.add(AltR { pos, span, exp, found: Some(found), custom: None, ctx: vec![], ctx_any: vec![], merged: 1, fuzzy: false, found_fuzzy: false, abs: None, abs_end_alt: None });
    }
    fn custom_event(&mut self, pos: usize, msg: String, span: (usize, usize)) {
        let n = self.n();
        let span = (span.0.min(n), span.1.min(n));
        self.add(AltR {
            pos,
            span,
            exp: BTreeSet::new(),
            found: None,
            custom: Some(msg),
            ctx: vec![],
            ctx_any: vec![],
            merged: 1,
            fuzzy: false,
            found_fuzzy: false,
            abs: None,
            abs_end_alt: None,
        });
    }

    /// run an attempt that may be abandoned: on failure the emissions and state pushes of the
    /// attempt are discarded (failure events are not)
    fn attempt(&mut self, site: &'static str, f: impl FnOnce(&mut Self) -> R, pos: usize) -> R {
        let em = self.emitted.len();
        let lg = self.log.len();
        let old_hi = std::mem::replace(&mut self.hi, pos);
        let r = f(self);
        let reached = self.hi;
        self.hi = old_hi.max(reached);
        if r.is_err() {
            self.abandon(site, em, lg, reached > pos);
        }
        r
    }
    fn abandon(&mut self, site: &'static str, em: usize, lg: usize, consumed: bool) {
        self.stats.backtracks += 1;
        if consumed {
            self.stats.partial_backtracks += 1;
        }
        if self.emitted.len() > em {
            self.stats.abandoned_emissions += 1;
            if self.emitted[em..].iter().any(|e| matches!(e.kind, EmisKind::Recovered(_))) {
                self.stats.recoveries_abandoned += 1;
            }
            if !self.stats.sites.contains(&site) {
                self.stats.sites.push(site);
            }
            self.emitted.truncate(em);
        }
        if self.log.len() > lg {
            self.stats.abandoned_pushes += 1;
            self.log.truncate(lg);
        }
    }

    fn saw_ctx(&mut self, g: &G, ctx: &Val) {
        self.stats.ctx_values_seen += 1;
        let id = self.ids[&(g as *const G)];
        let d = ctx.digest();
        match self.ctx_seen.insert(id, d) {
            Some(old) if old != d => self.stats.ctx_multi += 1,
            _ => {}
        }
    }

    fn tok(&mut self, pos: usize) -> Option<char> {
        self.toks.get(pos).copied()
    }
    fn adv(&mut self, e: usize) {
        if e > self.hi {
            self.hi = e;
        }
    }

    fn ev(&mut self, g: &'a G, pos: usize, env: &Env) -> R {
        self.stats.evals += 1;
        if self.fuel == 0 {
            self.stats.fuel_out = true;
            return Err(());
        }
        self.fuel -= 1;
        let ws_mark = self.ws_ranges.len();
        let r = self.node(g, pos, env);
        match r {
            Ok((v, e)) => {
                if e == pos {
                    self.stats.empty_matches += 1;
                    if pos > 0 && pos < self.toks.len() {
                        self.stats.empty_matches_between_tokens += 1;
                    }
                }
                let v = if self.opts.observed {
                    let id = self.ids[&(g as *const G)];
                    Val::obs(id, pos, e, v)
                } else {
                    v
                };
                if self.opts.obs_state {
                    let st = self.state_at(env, e);
                    Ok((Val::St(st.n, st.h, Box::new(v)), e))
                } else {
                    Ok((v, e))
                }
            }
            Err(()) => {
                // whatever with_state invocations consumed during the failed attempt is off the path
                self.ws_ranges.truncate(ws_mark);
                Err(())
            }
        }
    }

    fn seq(&mut self, gs: &[&'a G], pos: usize, env: &Env) -> Result<(Vec<Val>, usize), ()> {
        let mut p = pos;
        let mut out = Vec::with_capacity(gs.len());
        for g in gs {
            let (v, e) = self.ev(g, p, env)?;
            out.push(v);
            p = e;
        }
        Ok((out, p))
    }

    fn choice(&mut self, site: &'static str, alts: &'a [G], pos: usize, env: &Env) -> R {
        for a in alts {
            if let Ok(r) = self.attempt(site, |s| s.ev(a, pos, env), pos) {
                return Ok(r);
            }
        }
        Err(())
    }

    fn take_custom(&mut self, take: u8, ok: bool, tag: u32, pos: usize) -> R {
        let n = self.n();
        let take = take as usize;
        if pos + take > n {
            if n > pos {
                self.stats.custom_consumed_then_failed += 1;
            }
            self.custom_event(pos, format!("C{}:eof", tag), (pos, n));
            return Err(());
        }
        if !ok {
            if take > 0 {
                self.stats.custom_consumed_then_failed += 1;
            }
            self.custom_event(pos, format!("C{}", tag), (pos, pos + take));
            return Err(());
        }
        self.adv(pos + take);
        Ok((Val::Str(self.toks[pos..pos + take].iter().collect()), pos + take))
    }

    fn state_at(&self, env: &Env, e: usize) -> Insp {
        let base = match env.st_seed {
            Some(s) => Insp::seeded(s),
            None => Insp::default(),
        };
        let scope = env.scope;
        let rs = &self.ws_ranges;
        base.fold(
            (env.st_start..e)
                .filter(|i| !rs.iter().any(|(sc, a, b)| *sc == scope && a <= i && i < b))
                .map(|i| self.toks[i]),
        )
    }

    fn node(&mut self, g: &'a G, pos: usize, env: &Env) -> R {
        use G::*;
        let n = self.n();
        match g {
            Just(s) => {
                let mut p = pos;
                for c in s.chars() {
                    if self.tok(p) == Some(c) {
                        p += 1;
                    } else {
                        self.event(p, [Pat::Tok(c)].into_iter().collect(), (p, p + 1));
                        return Err(());
                    }
                }
                self.adv(p);
                Ok((Val::Str(s.clone()), p))
            }
            Any => match self.tok(pos) {
                Some(c) => {
                    self.adv(pos + 1);
                    Ok((Val::Tok(c), pos + 1))
                }
                None => {
                    self.event(pos, [Pat::Any].into_iter().collect(), (pos, pos));
                    Err(())
                }
            },
            OneOf(set) => match self.tok(pos) {
                Some(c) if set.contains(c) => {
                    self.adv(pos + 1);
                    Ok((Val::Tok(c), pos + 1))
                }
                _ => {
                    self.event(pos, set.chars().map(Pat::Tok).collect(), (pos, pos + 1));
                    Err(())
                }
            },
            NoneOf(set) => match self.tok(pos) {
                Some(c) if !set.contains(c) => {
                    self.adv(pos + 1);
                    Ok((Val::Tok(c), pos + 1))
                }
                _ => {
                    self.event(pos, [Pat::SomethingElse].into_iter().collect(), (pos, pos + 1));
                    Err(())
                }
            },
            Select(set) => match self.tok(pos) {
                Some(c) if set.contains(c) => {
                    self.adv(pos + 1);
                    if self.opts.obs_state {
                        // the closure of select! runs after its token was taken
                        let st = self.state_at(env, pos + 1);
                        return Ok((Val::St(st.n, st.h, Box::new(Val::Tok(c))), pos + 1));
                    }
                    if self.opts.cap_spans {
                        return Ok((Val::pair(Val::Span(pos, pos + 1), Val::Tok(c)), pos + 1));
                    }
                    Ok((Val::Tok(c), pos + 1))
                }
                _ => {
                    self.event(pos, [Pat::SomethingElse].into_iter().collect(), (pos, pos + 1));
                    Err(())
                }
            },
            End => {
                if pos == n {
                    Ok((Val::Unit, pos))
                } else {
                    self.event(pos, [Pat::End].into_iter().collect(), (pos, pos + 1));
                    Err(())
                }
            }
            Empty => Ok((Val::Unit, pos)),
            Custom { take, ok, tag } | Ext { take, ok, tag } => self.take_custom(*take, *ok, *tag, pos),
            Then(a, c) => {
                let (va, e) = self.ev(a, pos, env)?;
                let (vc, e) = self.ev(c, e, env)?;
                Ok((Val::pair(va, vc), e))
            }
            IgnoreThen(a, c) => {
                let (_, e) = self.ev(a, pos, env)?;
                self.ev(c, e, env)
            }
            ThenIgnore(a, c) => {
                let (va, e) = self.ev(a, pos, env)?;
                let (_, e) = self.ev(c, e, env)?;
                Ok((va, e))
            }
            Group(v) | GroupArr(v) => {
                let gs: Vec<&G> = v.iter().collect();
                let (vs, e) = self.seq(&gs, pos, env)?;
                Ok((Val::List(vs), e))
            }
            Or(a, c) => {
                if let Ok(r) = self.attempt("or", |s| s.ev(a, pos, env), pos) {
                    return Ok(r);
                }
                self.attempt("or", |s| s.ev(c, pos, env), pos)
            }
            Choice(v) => self.choice("choice-tuple", v, pos, env),
            ChoiceVec(v) => self.choice("choice-vec", v, pos, env),
            ChoiceArr(v) => self.choice("choice-array", v, pos, env),
            OrNot(a) => match self.attempt("or_not", |s| s.ev(a, pos, env), pos) {
                Ok((v, e)) => Ok((Val::opt(Some(v)), e)),
                Err(()) => Ok((Val::opt(None), pos)),
            },
            Not(a) => {
                // negative lookahead: nothing it does leaves a trace, whether it matches or not
                let saved = self.alt.take();
                let em = self.emitted.len();
                let lg = self.log.len();
                let old_hi = std::mem::replace(&mut self.hi, pos);
                let ws = self.ws_ranges.len();
                let r = self.ev(a, pos, env);
                self.ws_ranges.truncate(ws);
                let reached = self.hi;
                self.hi = old_hi.max(reached);
                self.alt = saved;
                self.abandon("not", em, lg, reached > pos);
                match r {
                    Ok((_, e)) => {
                        // a failed `not` has no specified position; modelled after the observed
                        // behaviour and flagged so that content comparisons skip it
                        let p = (pos + 1).min(n);
                        let found = self.toks.get(pos).copied();
                        self.add(AltR {
                            pos: p,
                            span: (pos, e),
                            exp: [Pat::SomethingElse].into_iter().collect(),
                            found: Some(found),
                            custom: None,
                            ctx: vec![],
                            ctx_any: vec![],
                            merged: 1,
                            fuzzy: true,
                            found_fuzzy: false,
                            abs: None,
                            abs_end_alt: None,
                        });
                        Err(())
                    }
                    Err(()) => Ok((Val::Unit, pos)),
                }
            }
            AndIs(a, c) => {
                let em_a = self.emitted.len();
                let lg_a = self.log.len();
                let (va, ea) = self.ev(a, pos, env)?;
                // positive lookahead on the same start; its own emissions are not part of the output
                let em = self.emitted.len();
                let lg = self.log.len();
                if em > em_a || lg > lg_a {
                    self.stats.kept_under_lookahead += 1;
                }
                let ws = self.ws_ranges.len();
                let r = self.ev(c, pos, env);
                self.ws_ranges.truncate(ws);
                self.emitted.truncate(em);
                self.log.truncate(lg);
                match r {
                    Ok(_) => Ok((va, ea)),
                    Err(()) => Err(()),
                }
            }
            Rewind(a) => {
                let em = self.emitted.len();
                let ws = self.ws_ranges.len();
                let (va, _) = self.ev(a, pos, env)?;
                self.ws_ranges.truncate(ws);
                if self.emitted.len() > em {
                    self.stats.kept_under_lookahead += 1;
                }
                Ok((va, pos))
            }
            Delim { inner, open, close } => {
                let (_, e) = self.ev(open, pos, env)?;
                let (v, e) = self.ev(inner, e, env)?;
                let (_, e) = self.ev(close, e, env)?;
                Ok((v, e))
            }
            PaddedBy(a, p) => {
                let (_, e) = self.ev(p, pos, env)?;
                let (v, e) = self.ev(a, e, env)?;
                let (_, e) = self.ev(p, e, env)?;
                Ok((v, e))
            }
            Map(a, t) => {
                let (v, e) = self.ev(a, pos, env)?;
                Ok((Val::mark(*t, v), e))
            }
            To(a, t) => {
                let (_, e) = self.ev(a, pos, env)?;
                Ok((Val::mark(*t, Val::Unit), e))
            }
            Ignored(a) => {
                let (_, e) = self.ev(a, pos, env)?;
                Ok((Val::Unit, e))
            }
            Filter(a, p) => {
                let (v, e) = self.ev(a, pos, env)?;
                if p.test(&v) {
                    Ok((v, e))
                } else {
                    // a rejecting filter is a failure of the sub-parser at the start of its match
                    self.stats.semantic_rejects += 1;
                    self.event(pos, [Pat::SomethingElse].into_iter().collect(), (pos, e));
                    Err(())
                }
            }
            TryMap(a, p, t) => {
                let saved = self.alt.take();
                let r = self.ev(a, pos, env);
                let inner = self.alt.take();
                self.alt = saved;
                match r {
                    Err(()) => {
                        if let Some(i) = inner {
                            self.add(i)
                        }
                        Err(())
                    }
                    Ok((v, e)) => {
                        if p.test(&v) {
                            if let Some(i) = inner {
                                self.add(i)
                            }
                            let m = Val::mark(*t, v);
                            Ok((if self.opts.cap_spans { Val::pair(Val::Span(pos, e), m) } else { m }, e))
                        } else {
                            self.stats.semantic_rejects += 1;
                            if inner.is_some() {
                                self.stats.trymap_inner_events = true;
                            }
                            self.custom_event(pos, format!("T{}", t), (pos, e));
                            Err(())
                        }
                    }
                }
            }
            TryMapWith(a, p, t) => {
                let had = self.stats.events;
                let (v, e) = self.ev(a, pos, env)?;
                if p.test(&v) {
                    let m = Val::mark(*t, v);
                    Ok((if self.opts.cap_spans { Val::pair(Val::Span(pos, e), m) } else { m }, e))
                } else {
                    self.stats.semantic_rejects += 1;
                    if self.stats.events > had {
                        self.stats.trymap_inner_events = true;
                    }
                    self.custom_event(pos, format!("T{}", t), (pos, e));
                    Err(())
                }
            }
            ToSlice(a) => {
                let (_, e) = self.ev(a, pos, env)?;
                Ok((Val::Slice(pos, e - pos, self.toks[pos..e].iter().collect()), e))
            }
            MapSlice(a) => {
                let (v, e) = self.ev(a, pos, env)?;
                Ok((Val::pair(Val::Slice(pos, e - pos, self.toks[pos..e].iter().collect()), v), e))
            }
            ToSpan(a) => {
                let (_, e) = self.ev(a, pos, env)?;
                Ok((Val::Span(pos, e), e))
            }
            MapSpan(a) => {
                let (v, e) = self.ev(a, pos, env)?;
                Ok((Val::pair(Val::Span(pos, e), v), e))
            }
            Unwrapped(a) => self.ev(a, pos, env),
            IntoIter(a, k) => {
                let (v, e) = self.ev(a, pos, env)?;
                let items = v.into_items();
                match *k {
                    0 => Ok((Val::List(items), e)),
                    1 => Ok((Val::Num(items.len() as u64), e)),
                    n => {
                        let n = (n - 2) as usize;
                        if items.len() == n {
                            Ok((Val::List(items), e))
                        } else if items.len() < n {
                            // the fixed-size collection runs short: a failure of this parser, where it stands
                            self.event(e, BTreeSet::new(), (e, e));
                            Err(())
                        } else {
                            // more items than N: not specified (V-exactly-more)
                            self.stats.fuel_out = true;
                            Err(())
                        }
                    }
                }
            }
            IterThen(parts, k) => {
                // item sources run left to right, each from where the previous one stopped; their items are
                // concatenated in order
                let mut items = vec![];
                let mut p = pos;
                for part in parts {
                    let (v, e) = self.ev(part, p, env)?;
                    items.extend(v.into_items());
                    p = e;
                }
                Ok((if *k == 0 { Val::List(items) } else { Val::Num(items.len() as u64) }, p))
            }
            G::Rep(r) => {
                if r.ctxb != 0 {
                    self.saw_ctx(g, &env.ctx);
                }
                self.rep(r, pos, env)
            }
            Validate(a, t, k) => {
                let (v, e) = self.ev(a, pos, env)?;
                for i in 0..*k {
                    self.emitted.push(Emis { kind: EmisKind::Validate(*t, i), span: (pos, e), at: pos, ctx: vec![], abs: None });
                }
                Ok((if self.opts.cap_spans { Val::pair(Val::Span(pos, e), v) } else { v }, e))
            }
            Recover(a, s) => self.recover(a, s, pos, env),
            Labelled(a, l, as_ctx) => {
                let saved = self.alt.take();
                let em = self.emitted.len();
                let r = self.ev(a, pos, env);
                let inner = self.alt.take();
                self.alt = saved;
                if let Some(mut i) = inner {
                    if let Some(sv) = &self.alt {
                        if sv.pos >= i.pos {
                            self.stats.label_sheltered_pending += 1;
                        }
                    }
                    if i.pos == pos {
                        self.stats.label_at_start += 1;
                        if r.is_ok() {
                            self.stats.used_vlabel = true;
                        }
                        if !(r.is_ok() && self.opts.vlabel_alt) {
                            i.exp = [Pat::Label(l.clone())].into_iter().collect();
                            if i.custom.take().is_some() {
                                i.found = Some(None);
                                i.found_fuzzy = true;
                            }
                        }
                    } else if *as_ctx && i.pos > pos {
                        self.stats.label_further_in += 1;
                        if !i.ctx.iter().any(|(x, _)| x == l) {
                            i.ctx.push((l.clone(), (pos, i.pos)));
                        }
                        if !i.ctx_any.iter().any(|(x, _)| x == l) {
                            i.ctx_any.push((l.clone(), (pos, i.pos)));
                        }
                    }
                    self.add(i);
                }
                if *as_ctx {
                    let len = self.emitted.len();
                    for e in &mut self.emitted[em.min(len)..] {
                        if !e.ctx.iter().any(|(x, _)| x == l) {
                            e.ctx.push((l.clone(), (pos, e.at)));
                        }
                    }
                }
                r
            }
            MapErr(a, t, _) => {
                let saved = self.alt.take();
                let r = self.ev(a, pos, env);
                let inner = self.alt.take();
                self.alt = saved;
                match r {
                    Err(()) => {
                        // the function is applied to exactly the error produced by this failure
                        if let Some(mut i) = inner {
                            let mut e: Vec<Pat> = i.exp.iter().cloned().collect();
                            e.sort();
                            let exp = if i.custom.is_some() { None } else { Some(e) };
                            i.custom = Some(crate::grammar::map_err_marker(*t, &exp, &i.custom));
                            i.found_fuzzy = false;
                            i.found = None;
                            i.exp.clear();
                            i.ctx.clear();
                            i.ctx_any.clear();
                            self.stats.map_err_applied += 1;
                            self.add(i);
                        }
                        Err(())
                    }
                    Ok(x) => {
                        if let Some(i) = inner {
                            self.add(i)
                        }
                        Ok(x)
                    }
                }
            }
            Memo(a) => {
                let id = self.ids[&(g as *const G)];
                if self.memo_seen.keys().any(|(i, p)| *p == pos && *i != id) {
                    self.stats.memo_two_at_one_pos += 1;
                }
                let n = self.memo_seen.entry((id, pos)).or_insert(0);
                *n += 1;
                if *n > 1 {
                    self.stats.memo_revisits += 1;
                }
                let r = self.ev(a, pos, env);
                if r.is_err() {
                    self.stats.memo_failures += 1;
                }
                r
            }
            Wrapped(a, _) => self.ev(a, pos, env),
            Rec(id, body) => {
                let prev = self.recs.insert(*id, body);
                let r = self.ev(body, pos, env);
                match prev {
                    Some(p) => {
                        self.recs.insert(*id, p);
                    }
                    None => {
                        self.recs.remove(id);
                    }
                }
                r
            }
            RecRef(id) => {
                let body: &'a G = self.recs.get(id).copied().expect("unbound RecRef");
                self.stats.rec_calls += 1;
                let mut env2 = env.clone();
                env2.depth += 1;
                if env2.depth > self.stats.max_rec_depth {
                    self.stats.max_rec_depth = env2.depth;
                }
                if env2.depth > 3000 {
                    self.stats.fuel_out = true;
                    return Err(());
                }
                // the observed wrapper belongs to the definition node, as in the built parser
                self.ev(body, pos, &env2)
            }
            NestedIn(a) => {
                let node = self.tree.and_then(|t| t.get(pos));
                let Some(TNode { tok: TreeTok::Group(kids, eoi), .. }) = node else {
                    // select_ref! { Group(..) => .. } on a leaf token or at the end
                    self.stats.nested_not_a_group += 1;
                    self.event(pos, [Pat::SomethingElse].into_iter().collect(), (pos, pos + 1));
                    return Err(());
                };
                self.adv(pos + 1);
                self.stats.nested_entered += 1;
                let ktoks: Vec<char> = kids.iter().map(|k| k.ch()).collect();
                let sub = {
                    let ids = &self.ids;
                    let recs = &self.recs;
                    // SAFETY of lifetimes: `kids` lives as long as the tree ('a); `ktoks` only for this call
                    eval_inner(a, &ktoks, kids, self.opts.clone(), ids, recs, env, self.fuel, self.nest_depth + 1)
                };
                self.fuel = sub.fuel_left;
                self.stats.absorb(&sub.stats);
                let spans: Vec<(usize, usize)> = kids.iter().map(|k| k.span).collect();
                let sm = crate::compare::SpanMap::gapped(&spans, *eoi, 1);
                if !sub.emitted.is_empty() {
                    self.stats.nested_inner_emitted += 1;
                }
                for mut e in sub.emitted {
                    absolutize_emis(&mut e, &sm);
                    e.at = pos + 1;
                    self.emitted.push(e);
                }
                let leftover_dropped = sub.accepted && self.opts.vnested_drop_leftover;
                if let (Some(mut al), false) = (sub.alt, leftover_dropped) {
                    absolutize_alt(&mut al, &sm);
                    al.pos = if self.opts.vnested_at_token { pos } else { pos + 1 };
                    al.span = (pos, pos + 1);
                    if sub.accepted {
                        self.stats.nested_inner_left_alt += 1;
                    }
                    self.add(al);
                }
                match sub.prefix {
                    Some((mut v, _)) if sub.accepted => {
                        absolutize_val(&mut v, &sm);
                        Ok((v, pos + 1))
                    }
                    Some(_) => {
                        self.stats.nested_inner_prefix_only += 1;
                        self.stats.nested_inner_failed += 1;
                        Err(())
                    }
                    None => {
                        self.stats.nested_inner_failed += 1;
                        Err(())
                    }
                }
            }
            Lazy(a) => {
                let (v, e) = self.ev(a, pos, env)?;
                // then_ignore(any().repeated()): the last, failing any() is a failure event at n
                if e < n {
                    self.adv(n);
                }
                self.event(n, [Pat::Any].into_iter().collect(), (n, n));
                Ok((v, n))
            }
            StPush(a, t) => {
                let (v, e) = self.ev(a, pos, env)?;
                if !env.in_ws {
                    self.log.push(*t);
                }
                Ok((v, e))
            }
            StObs(a) => {
                let (v, e) = self.ev(a, pos, env)?;
                let st = self.state_at(env, e);
                Ok((Val::St(st.n, st.h, Box::new(v)), e))
            }
            WithState(a, seed) => {
                let mut env2 = env.clone();
                env2.st_seed = Some(*seed);
                env2.st_start = pos;
                env2.in_ws = true;
                env2.scope = self.next_scope;
                self.next_scope += 1;
                let (v, e) = self.ev(a, pos, &env2)?;
                // the outer state does not see what was consumed in here
                self.ws_ranges.push((env.scope, pos, e));
                Ok((v, e))
            }
            WithCtx(a, s) => {
                let mut env2 = env.clone();
                env2.ctx = Val::Str(s.clone());
                self.ev(a, pos, &env2)
            }
            ThenWithCtx(a, c) => {
                let (va, e) = self.ev(a, pos, env)?;
                let mut env2 = env.clone();
                env2.ctx = va.clone();
                let (vc, e) = self.ev(c, e, &env2)?;
                Ok((Val::pair(va, vc), e))
            }
            IgnoreWithCtx(a, c) => {
                let (va, e) = self.ev(a, pos, env)?;
                let mut env2 = env.clone();
                env2.ctx = va;
                self.ev(c, e, &env2)
            }
            MapCtx(a, k) => {
                let mut env2 = env.clone();
                env2.ctx = ctx_op(*k, &env.ctx);
                self.ev(a, pos, &env2)
            }
            CxObs(a) => {
                let (v, e) = self.ev(a, pos, env)?;
                self.saw_ctx(g, &env.ctx);
                Ok((Val::Cx(Box::new(env.ctx.clone()), Box::new(v)), e))
            }
            JustCfg(s) => {
                let mut t = Vec::new();
                env.ctx.tokens(&mut t);
                let seq: Vec<char> = if t.is_empty() { s.chars().collect() } else { t };
                self.saw_ctx(g, &env.ctx);
                let mut p = pos;
                for c in &seq {
                    if self.tok(p) == Some(*c) {
                        p += 1;
                    } else {
                        self.event(p, [Pat::Tok(*c)].into_iter().collect(), (p, p + 1));
                        return Err(());
                    }
                }
                self.adv(p);
                Ok((Val::Str(seq.into_iter().collect()), p))
            }
            Track(a, t) => {
                let (v, e) = self.ev(a, pos, env)?;
                Ok((Val::pair(Val::Tr(Tracked::phantom(*t)), v), e))
            }
        }
    }

    // ---- repetition: greedy, possessive, bounded -------------------------------------------
    fn rep(&mut self, r: &'a Rep, pos: usize, env: &Env) -> R {
        // fold sinks evaluate their other operand first (foldl) or last (foldr)
        let mut p = pos;
        let mut init: Option<Val> = None;
        match &r.sink {
            Sink::Foldl(g) | Sink::FoldlWith(g) => {
                let (v, e) = self.ev(g, p, env)?;
                init = Some(v);
                p = e;
            }
            _ => {}
        }
        let mut lo = r.lo as usize;
        let mut rhi = r.hi;
        if r.ctxb != 0 {
            // bounds come from the context value of the nearest enclosing provider
            let n = ctx_num(&env.ctx);
            match r.ctxb {
                1 => {
                    lo = n;
                    rhi = Some(n as u8);
                }
                2 => rhi = Some(n as u8),
                _ => {
                    if n % 2 == 1 {
                        // try_configure returned Err: the parser fails with that error, here
                        self.stats.try_cfg_errs += 1;
                        self.custom_event(p, format!("K{}", n), (p, p));
                        return Err(());
                    }
                    lo = n;
                    rhi = Some(n as u8);
                }
            }
        }
        let hi = match (&r.sink, rhi) {
            // collect_exactly::<[T; N]> pulls at most N items from the iterator
            (Sink::Exactly(n), h) => Some((*n as usize).min(h.map(|h| h as usize).unwrap_or(usize::MAX))),
            (_, h) => h.map(|h| h as usize),
        };
        if let Some(h) = rhi {
            if (h as usize) < lo {
                self.stats.lo_gt_hi = true;
                // empty interval: can never succeed. No natural failure event exists.
                return Err(());
            }
        }
        let mut items: Vec<(Val, usize, usize)> = Vec::new(); // (value, start of the item step, end of the item)
        let rep_start = p;
        loop {
            if let Some(h) = hi {
                if items.len() >= h {
                    self.stats.rep_at_bound += 1;
                    // V-trail-cap
                    if let (Some(sep), true) = (&r.sep, r.trailing && self.opts.vtrailcap_alt) {
                        self.stats.used_vtrailcap = true;
                        if let Ok((_, e)) = self.attempt("sep-trailing", |s| s.ev(sep, p, env), p) {
                            p = e;
                        }
                    } else if r.sep.is_some() && r.trailing && !items.is_empty() {
                        self.stats.used_vtrailcap = true;
                    }
                    break;
                }
            }
            let step_start = p;
            let ws_step = self.ws_ranges.len();
            let mut q = p;
            let em = self.emitted.len();
            let lg = self.log.len();
            let mut had_sep = false;
            if let Some(sep) = &r.sep {
                if items.is_empty() {
                    if r.leading {
                        if let Ok((_, e)) = self.attempt("sep-leading", |s| s.ev(sep, q, env), q) {
                            q = e;
                            had_sep = true;
                        }
                    }
                } else {
                    match self.attempt("sep", |s| s.ev(sep, q, env), q) {
                        Ok((_, e)) => {
                            q = e;
                            had_sep = true;
                        }
                        Err(()) => {
                            if items.len() < lo {
                                return Err(());
                            }
                            if items.len() == lo || Some(items.len() + 1) == hi {
                                self.stats.rep_at_bound += 1;
                            }
                            break;
                        }
                    }
                }
            }
            let em_item = self.emitted.len();
            let lg_item = self.log.len();
            let old_hi = std::mem::replace(&mut self.hi, q);
            let ir = self.ev(&r.item, q, env);
            let reached = self.hi;
            self.hi = old_hi.max(reached);
            match ir {
                Ok((v, e)) => {
                    items.push((v, step_start, e));
                    p = e;
                }
                Err(()) => {
                    if had_sep {
                        self.stats.sep_boundary += 1;
                    }
                    if items.len() < lo {
                        return Err(());
                    }
                    if items.len() == lo {
                        self.stats.rep_at_bound += 1;
                    }
                    // enough items: stop here. A separator taken before the failing item is kept
                    // only where trailing (resp. leading) separators are permitted.
                    if had_sep && items.is_empty() {
                        // zero items with a leading separator: V-lead
                        self.stats.used_vlead = true;
                        let keep = if self.opts.vlead_alt { false } else { r.trailing };
                        if keep {
                            // discard only the item's traces
                            self.abandon("sep-item", em_item, lg_item, reached > q);
                            p = q;
                        } else {
                            self.abandon("sep-item", em, lg, reached > step_start);
                            self.ws_ranges.truncate(ws_step);
                            p = step_start;
                        }
                    } else if had_sep && r.trailing {
                        self.abandon("sep-item-trailing", em_item, lg_item, reached > q);
                        p = q;
                    } else {
                        self.abandon(
                            if r.sep.is_some() { "sep-item" } else { "repeated" },
                            em,
                            lg,
                            reached > step_start,
                        );
                        self.ws_ranges.truncate(ws_step);
                        p = step_start;
                    }
                    break;
                }
            }
        }
        if items.len() < lo {
            return Err(());
        }
        let _ = rep_start;
        // consumers
        let vals = |items: Vec<(Val, usize, usize)>| items.into_iter().map(|(v, _, _)| v).collect::<Vec<_>>();
        match &r.sink {
            Sink::Vec => Ok((Val::List(vals(items)), p)),
            Sink::Str => Ok((
                Val::Str(items.iter().map(|(v, _, _)| v.first_tok().unwrap_or('\u{0}')).collect()),
                p,
            )),
            Sink::Count => Ok((Val::Num(items.len() as u64), p)),
            Sink::Unit | Sink::Bare => Ok((Val::Unit, p)),
            Sink::Exactly(k) => {
                if items.len() == *k as usize {
                    Ok((Val::List(vals(items)), p))
                } else {
                    // too few items: the fixed-size collection fails, where the iterator ended
                    self.event(p, BTreeSet::new(), (p, p));
                    Err(())
                }
            }
            Sink::Enumerate => Ok((
                Val::List(
                    items
                        .into_iter()
                        .enumerate()
                        .map(|(i, (v, _, _))| Val::pair(Val::Num(i as u64), v))
                        .collect(),
                ),
                p,
            )),
            Sink::Foldl(_) => {
                let mut acc = init.unwrap();
                for (v, _, _) in items {
                    acc = Val::pair(acc, v);
                }
                Ok((acc, p))
            }
            Sink::FoldlWith(_) => {
                // the callback sees the span of the sub-expression built so far: from the start
                // of the whole fold to the end of the current item
                let mut acc = init.unwrap();
                for (v, _, e) in items {
                    acc = Val::pair(Val::Span(pos, e), Val::pair(acc, v));
                    if self.opts.obs_state {
                        // foldl_with folds as it goes: the callback runs right after each item
                        let st = self.state_at(env, e);
                        acc = Val::St(st.n, st.h, Box::new(acc));
                    }
                }
                Ok((acc, p))
            }
            Sink::Foldr(g) => {
                let (tail, e) = self.ev(g, p, env)?;
                let mut acc = tail;
                for (v, _, _) in items.into_iter().rev() {
                    acc = Val::pair(v, acc);
                }
                Ok((acc, e))
            }
            Sink::FoldrWith(g) => {
                let (tail, e) = self.ev(g, p, env)?;
                let mut acc = tail;
                for (v, s, _) in items.into_iter().rev() {
                    // span of the sub-expression being built: from this item's step to the end
                    acc = Val::pair(Val::Span(s, e), Val::pair(v, acc));
                    if self.opts.obs_state {
                        // foldr_with folds once everything (incl. the tail) has been parsed
                        let st = self.state_at(env, e);
                        acc = Val::St(st.n, st.h, Box::new(acc));
                    }
                }
                Ok((acc, e))
            }
        }
    }

    // ---- recovery ----------------------------------------------------------------------------
    fn recover(&mut self, a: &'a G, s: &'a Strat, pos: usize, env: &Env) -> R {
        if let Ok(r) = self.attempt("recover-parser", |s2| s2.ev(a, pos, env), pos) {
            return Ok(r);
        }
        // p failed: the error the parse would report now is the furthest-failure summary
        let e_alt = match self.alt.take() {
            Some(x) => x,
            None => {
                // no pending error: nothing sensible can be reported (C20 territory)
                self.stats.fuel_out = true;
                return Err(());
            }
        };
        let em0 = self.emitted.len();
        let lg0 = self.log.len();
        let old_hi = std::mem::replace(&mut self.hi, pos);
        let r = self.strategy(a, s, pos, env, &e_alt);
        let reached = self.hi;
        self.hi = old_hi.max(reached);
        match r {
            Ok((v, e)) => {
                self.stats.recoveries_fired += 1;
                let site = match s {
                    Strat::Via(_) => "strat:via",
                    Strat::SkipUntil { .. } => "strat:skip_until",
                    Strat::SkipRetry { .. } => "strat:skip_retry",
                    Strat::Nested { .. } => "strat:nested",
                };
                if !self.stats.sites.contains(&site) {
                    self.stats.sites.push(site);
                }
                self.emitted.push(Emis { kind: EmisKind::Recovered(e_alt.clone()), span: e_alt.span, at: e, ctx: e_alt.ctx.clone(), abs: None });
                if self.opts.vtake_alt {
                    let keep = e_alt;
                    self.add(keep);
                }
                Ok((v, e))
            }
            Err(()) => {
                self.stats.recoveries_failed += 1;
                self.abandon("recover-strategy", em0, lg0, reached > pos);
                self.alt = Some(e_alt);
                Err(())
            }
        }
    }

    fn strategy(&mut self, a: &'a G, s: &'a Strat, pos: usize, env: &Env, _e: &AltR) -> R {
        let n = self.n();
        match s {
            Strat::Via(g) => self.ev(g, pos, env),
            Strat::SkipUntil { skip, until, tag } => {
                let mut p = pos;
                loop {
                    if let Ok((_, e)) = self.attempt("skip_until-until", |s2| s2.ev(until, p, env), p) {
                        return Ok((Val::Fallback(*tag), e));
                    }
                    match self.ev(skip, p, env) {
                        Ok((_, e)) => {
                            if e == p {
                                // a non-consuming skip would loop forever; generators avoid it
                                self.stats.fuel_out = true;
                                return Err(());
                            }
                            p = e
                        }
                        Err(()) => return Err(()),
                    }
                }
            }
            Strat::SkipRetry { skip, until } => {
                let mut p = pos;
                loop {
                    let ur = {
                        let em = self.emitted.len();
                        let lg = self.log.len();
                        let ws = self.ws_ranges.len();
                        let r = self.ev(until, p, env);
                        self.ws_ranges.truncate(ws);
                        // `until` is only a test here: whatever it did is rolled back
                        self.emitted.truncate(em);
                        self.log.truncate(lg);
                        r
                    };
                    if ur.is_ok() {
                        return Err(());
                    }
                    match self.ev(skip, p, env) {
                        Ok((_, e)) => {
                            if e == p {
                                self.stats.fuel_out = true;
                                return Err(());
                            }
                            p = e
                        }
                        Err(()) => return Err(()),
                    }
                    let em = self.emitted.len();
                    let lg = self.log.len();
                    let ws = self.ws_ranges.len();
                    let r = self.ev(a, p, env);
                    match r {
                        Ok((v, e)) if self.emitted.len() == em => return Ok((v, e)),
                        _ => {
                            // a failed retry, or one that needed its own recoveries, is discarded -- together with the
                            // with_state invocations it made (a retry that SUCCEEDED with emissions does not go through the
                            // failure path of `ev`, which would have dropped them)
                            self.emitted.truncate(em);
                            self.log.truncate(lg);
                            self.ws_ranges.truncate(ws);
                            self.alt = None;
                        }
                    }
                    if p >= n && false {
                        return Err(());
                    }
                }
            }
            Strat::Nested { open, close, others, tag } => {
                // exactly one balanced region starting at `open`
                let mut pairs = vec![(*open, *close)];
                pairs.extend(others.iter().copied());
                self.stats.unspecified_events = true;
                match self.balanced(&pairs, 0, pos) {
                    Some(e) => {
                        self.adv(e);
                        // failure events inside the delimiter scanner are not specified
                        if let Some(a) = &mut self.alt {
                            a.fuzzy = true;
                        }
                        Ok((Val::Fallback(*tag), e))
                    }
                    None => Err(()),
                }
            }
        }
    }

    fn balanced(&self, pairs: &[(char, char)], k: usize, pos: usize) -> Option<usize> {
        if self.toks.get(pos) != Some(&pairs[k].0) {
            return None;
        }
        let q = self.block(pairs, pos + 1);
        if self.toks.get(q) == Some(&pairs[k].1) {
            Some(q + 1)
        } else {
            None
        }
    }
    fn block(&self, pairs: &[(char, char)], mut p: usize) -> usize {
        loop {
            let Some(&c) = self.toks.get(p) else { return p };
            let is_delim = pairs.iter().any(|(o, cl)| *o == c || *cl == c);
            if !is_delim {
                p += 1;
                continue;
            }
            let mut matched = None;
            for k in 0..pairs.len() {
                if pairs[k].0 == c {
                    if let Some(e) = self.balanced(pairs, k, p) {
                        matched = Some(e);
                        break;
                    }
                }
            }
            match matched {
                Some(e) => p = e,
                None => return p,
            }
        }
    }
}

pub fn fold_state(toks: &[char]) -> (u64, u64) {
    let mut h = crate::build::FNV0;
    for c in toks {
        h = fnv_step(h, *c);
    }
    (toks.len() as u64, h)
}

impl Emis {
    pub fn kind_name(&self) -> String {
        match &self.kind {
            EmisKind::Validate(t, k) => format!("V{}.{}", t, k),
            EmisKind::Recovered(a) => format!("recovered@{}", a.pos),
        }
    }
}

// ---------------------------------------------------------------------------------------------
// nested inputs (C16)

#[allow(clippy::too_many_arguments)]
fn eval_inner<'a>(g: &'a G, ktoks: &[char], kids: &'a [TNode], opts: RefOpts, ids: &HashMap<*const G, u32>, recs: &HashMap<u8, &'a G>, env: &Env, fuel: u64, depth: u32) -> RefOut {
    // `ktoks` is only borrowed for the duration of the inner evaluation; the result owns everything
    let ktoks: &'a [char] = unsafe { std::mem::transmute::<&[char], &'a [char]>(ktoks) };
    eval_with(g, g, ktoks, Some(kids), opts, Some((ids, recs, env)), fuel, depth)
}

impl Stats {
    fn absorb(&mut self, o: &Stats) {
        self.evals += o.evals;
        self.partial_backtracks += o.partial_backtracks;
        self.backtracks += o.backtracks;
        self.semantic_rejects += o.semantic_rejects;
        self.abandoned_emissions += o.abandoned_emissions;
        self.recoveries_fired += o.recoveries_fired;
        self.recoveries_abandoned += o.recoveries_abandoned;
        self.recoveries_failed += o.recoveries_failed;
        self.rec_calls += o.rec_calls;
        self.fuel_out |= o.fuel_out;
        self.unspecified_events |= o.unspecified_events;
        self.used_vlead |= o.used_vlead;
        self.used_vtrailcap |= o.used_vtrailcap;
        self.lo_gt_hi |= o.lo_gt_hi;
        self.trymap_inner_events |= o.trymap_inner_events;
        self.nested_entered += o.nested_entered;
        self.nested_inner_failed += o.nested_inner_failed;
        self.nested_inner_prefix_only += o.nested_inner_prefix_only;
        self.nested_inner_emitted += o.nested_inner_emitted;
        self.nested_inner_left_alt += o.nested_inner_left_alt;
        self.nested_not_a_group += o.nested_not_a_group;
        self.nested_max_depth = self.nested_max_depth.max(o.nested_max_depth);
        for k in &o.sites {
            if !self.sites.contains(k) {
                self.sites.push(k);
            }
        }
    }
}

/// spans of an inner result become absolute offsets (they can no longer be looked up in the outer
/// sequence's table)
fn absolutize_val(v: &mut Val, sm: &crate::compare::SpanMap) {
    use crate::compare::ExpSpan;
    match v {
        Val::Span(s, e) => {
            *v = match sm.expect(*s, *e) {
                ExpSpan::Exact(a, b) => Val::Abs(a, b, true),
                ExpSpan::EmptyIn(a, b) => Val::Abs(a, b, false),
            }
        }
        Val::Obs(_, _, _, inner) => absolutize_val(inner, sm),
        Val::List(l) => l.iter_mut().for_each(|x| absolutize_val(x, sm)),
        Val::Pair(a, b) => {
            absolutize_val(a, sm);
            absolutize_val(b, sm)
        }
        Val::Opt(Some(a)) | Val::St(_, _, a) | Val::Mark(_, a) => absolutize_val(a, sm),
        Val::Cx(c, a) => {
            absolutize_val(c, sm);
            absolutize_val(a, sm)
        }
        _ => {}
    }
}
fn absolutize_alt(a: &mut AltR, sm: &crate::compare::SpanMap) {
    if a.abs.is_some() {
        return;
    }
    let n = sm.n();
    let (s, e) = a.span;
    if s >= n {
        a.abs_end_alt = Some(sm.eoi.1);
    }
    a.abs = Some(if s >= n {
        sm.eoi
    } else if s < e {
        (sm.starts[s], sm.ends[(e - 1).min(n - 1)])
    } else {
        a.fuzzy = true;
        (sm.starts[s], sm.starts[s])
    });
    // label contexts would need the same treatment; not generated inside nested inputs
    a.ctx.clear();
    a.ctx_any.clear();
}
fn absolutize_emis(e: &mut Emis, sm: &crate::compare::SpanMap) {
    if e.abs.is_none() {
        e.abs = Some(sm.expect(e.span.0, e.span.1));
    }
    if let EmisKind::Recovered(a) = &mut e.kind {
        absolutize_alt(a, sm);
    }
    e.ctx.clear();
}
