//! Shared driver: deterministic parallel case loops fed by proptest-generated choice tapes,
//! first-failure capture, structural shrinking, replay files, known-finding attribution and
//! evidence files.
use crate::grammar::{render, shrink_candidates, wf, G};
use proptest::strategy::{Strategy, ValueTree};
use proptest::test_runner::{Config, RngAlgorithm, TestRng, TestRunner};
use serde::{Deserialize, Serialize};
use serde_json::{json, Value};
use std::collections::{BTreeMap, HashSet};
use std::sync::atomic::{AtomicBool, AtomicU64, Ordering};
use std::sync::Mutex;
use std::time::Instant;

#[derive(Clone, Copy, Debug, PartialEq, Eq)]
pub enum Tier {
    Quick,
    Thorough,
}

#[derive(Clone, Debug, Serialize, Deserialize, PartialEq)]
pub struct Case {
    pub prop: String,
    /// which sub-check of the property this case belongs to
    pub sub: String,
    pub g: G,
    pub input: String,
    #[serde(default)]
    pub extra: Value,
}

impl Case {
    pub fn new(prop: &str, sub: &str, g: &G, input: &[char]) -> Case {
        Case { prop: prop.into(), sub: sub.into(), g: g.clone(), input: input.iter().collect(), extra: Value::Null }
    }
    pub fn toks(&self) -> Vec<char> {
        self.input.chars().collect()
    }
    pub fn hash(&self) -> u64 {
        use std::hash::{Hash, Hasher};
        let mut h = std::collections::hash_map::DefaultHasher::new();
        self.sub.hash(&mut h);
        self.g.hash(&mut h);
        self.input.hash(&mut h);
        self.extra.to_string().hash(&mut h);
        h.finish()
    }
}

#[derive(Clone, Debug)]
pub struct Fail {
    pub msg: String,
    /// specific signature of the failure (used to attribute known findings)
    pub sig: String,
}
impl Fail {
    pub fn new(sig: impl Into<String>, msg: impl Into<String>) -> Fail {
        Fail { sig: sig.into(), msg: msg.into() }
    }
}

#[derive(Default)]
pub struct Local {
    pub evals: u64,
    pub counters: BTreeMap<String, u64>,
    pub nontrivial: HashSet<u64>,
    /// non-trivial cases that are distinct by construction (enumerated tiers): counted, not hashed
    pub nontrivial_counted: u64,
    pub samples_nt: Vec<Value>,
    pub samples_tr: Vec<Value>,
    pub kf_hits: BTreeMap<String, (u64, String)>,
    pub steered: u64,
}
impl Local {
    pub fn bump(&mut self, k: &str) {
        *self.counters.entry(k.to_string()).or_insert(0) += 1;
    }
    pub fn add(&mut self, k: &str, n: u64) {
        if n > 0 {
            *self.counters.entry(k.to_string()).or_insert(0) += n;
        }
    }
    pub fn note(&mut self, g: &G, input: &[char], sub: &str, nontrivial: bool, outcome: impl FnOnce() -> String) {
        use std::hash::{Hash, Hasher};
        if nontrivial {
            let mut h = std::collections::hash_map::DefaultHasher::new();
            sub.hash(&mut h);
            g.hash(&mut h);
            input.hash(&mut h);
            self.nontrivial.insert(h.finish());
        }
        let tgt = if nontrivial { &mut self.samples_nt } else { &mut self.samples_tr };
        if tgt.len() < 3 {
            tgt.push(json!({
                "sub": sub,
                "grammar": render(g),
                "input": input.iter().collect::<String>(),
                "nontrivial": nontrivial,
                "outcome": outcome(),
            }));
        }
    }
    pub fn merge(&mut self, o: Local) {
        self.evals += o.evals;
        self.steered += o.steered;
        self.nontrivial_counted += o.nontrivial_counted;
        for (k, v) in o.counters {
            *self.counters.entry(k).or_insert(0) += v;
        }
        self.nontrivial.extend(o.nontrivial);
        for s in o.samples_nt {
            if self.samples_nt.len() < 4 {
                self.samples_nt.push(s)
            }
        }
        for s in o.samples_tr {
            if self.samples_tr.len() < 2 {
                self.samples_tr.push(s)
            }
        }
        for (k, (n, ex)) in o.kf_hits {
            let e = self.kf_hits.entry(k).or_insert((0, ex));
            e.0 += n;
        }
    }
}

#[derive(Clone, Debug, Deserialize)]
pub struct KnownFinding {
    pub property: String,
    pub id: String,
    pub status: String,
    pub sig: String,
    pub what: String,
    #[serde(default)]
    pub commit: Option<String>,
}

pub fn verif_root() -> std::path::PathBuf {
    if let Ok(p) = std::env::var("VERIF_ROOT") {
        return p.into();
    }
    let cwd = std::env::current_dir().unwrap();
    if cwd.join("MANIFEST.json").exists() || cwd.join("properties.jsonl").exists() {
        return cwd;
    }
    "/verif".into()
}

pub fn load_known(prop: &str) -> Vec<KnownFinding> {
    let p = verif_root().join("known_findings.json");
    let Ok(s) = std::fs::read_to_string(&p) else { return vec![] };
    let v: Value = serde_json::from_str(&s).expect("known_findings.json is not valid JSON");
    let list: Vec<KnownFinding> =
        serde_json::from_value(v.get("findings").cloned().unwrap_or(json!([]))).expect("known_findings.json: bad entry");
    list.into_iter().filter(|k| k.property == prop && k.status == "known").collect()
}

pub struct Ctx {
    pub id: &'static str,
    pub tier: Tier,
    pub seed: u64,
    pub threads: usize,
    pub t0: Instant,
    acc: Mutex<Local>,
    fail: Mutex<Option<(Case, Fail)>>,
    pub stop: AtomicBool,
    pub known: Vec<KnownFinding>,
    pub exhaustive: AtomicBool,
    pub inconclusive: Mutex<Option<String>>,
    pub budget_cases: AtomicU64,
}

pub type CaseRes = Result<(), (Case, Fail)>;

impl Ctx {
    pub fn new(id: &'static str, tier: Tier, seed: u64) -> Ctx {
        let threads = std::env::var("VERIF_THREADS")
            .ok()
            .and_then(|s| s.parse().ok())
            .unwrap_or_else(|| std::thread::available_parallelism().map(|n| n.get()).unwrap_or(4).min(16));
        Ctx {
            id,
            tier,
            seed,
            threads,
            t0: Instant::now(),
            acc: Mutex::new(Local::default()),
            fail: Mutex::new(None),
            stop: AtomicBool::new(false),
            known: load_known(id),
            exhaustive: AtomicBool::new(false),
            inconclusive: Mutex::new(None),
            budget_cases: AtomicU64::new(0),
        }
    }
    pub fn quick(&self) -> bool {
        self.tier == Tier::Quick
    }
    pub fn pick<T>(&self, q: T, t: T) -> T {
        if self.quick() {
            q
        } else {
            t
        }
    }

    /// Decide what a failing case means: a listed known finding (counted, search continues) or a
    /// violation (recorded, search stops).
    pub fn judge(&self, l: &mut Local, r: CaseRes) {
        if let Err((case, fail)) = r {
            if let Some(k) = self.known.iter().find(|k| k.sig == fail.sig) {
                let e = l.kf_hits.entry(k.id.clone()).or_insert((0, format!("{} on {:?}: {}", render(&case.g), case.input, fail.msg)));
                e.0 += 1;
                return;
            }
            let mut f = self.fail.lock().unwrap();
            if f.is_none() {
                *f = Some((case, fail));
            }
            self.stop.store(true, Ordering::SeqCst);
        }
    }
    pub fn stopped(&self) -> bool {
        self.stop.load(Ordering::Relaxed)
    }

    /// Run `f` over a fixed list of jobs on all cores (work split by index: the result does not
    /// depend on thread timing).
    pub fn par_jobs<J: Sync>(&self, jobs: &[J], f: impl Fn(&J, &mut Local) -> CaseRes + Sync) {
        let next = AtomicU64::new(0);
        std::thread::scope(|s| {
            for _ in 0..self.threads {
                // generous stacks: the reference evaluator and the builder recurse over the grammar (debug-sized
                // frames in the `fast` profile)
                let _ = std::thread::Builder::new().stack_size(256 << 20).spawn_scoped(s, || {
                    crate::run::install_panic_hook();
                    let mut l = Local::default();
                    loop {
                        if self.stopped() {
                            break;
                        }
                        let i = next.fetch_add(1, Ordering::Relaxed) as usize;
                        if i >= jobs.len() {
                            break;
                        }
                        let r = f(&jobs[i], &mut l);
                        self.judge(&mut l, r);
                    }
                    self.acc.lock().unwrap().merge(l);
                });
            }
        });
    }

    /// Run `f` on `n` proptest-generated choice tapes. `stream` separates independent uses of the
    /// same seed. Case i always sees the same tape for a given (seed, stream), whatever the number
    /// of threads.
    pub fn par_random(&self, n: u64, tape_len: usize, stream: u64, f: impl Fn(&[u32], &mut Local) -> CaseRes + Sync) {
        let chunk: u64 = 256;
        let chunks = (n + chunk - 1) / chunk;
        let next = AtomicU64::new(0);
        // diagnostics only (CV_SLOW_SECS=n): print the tape of any case that has been running for more than n seconds
        let slow_secs: u64 = std::env::var("CV_SLOW_SECS").ok().and_then(|v| v.parse().ok()).unwrap_or(0);
        let current: Vec<Mutex<Option<(std::time::Instant, Vec<u32>, bool)>>> = (0..self.threads).map(|_| Mutex::new(None)).collect();
        let done = std::sync::atomic::AtomicBool::new(false);
        let tix = AtomicU64::new(0);
        let finished = AtomicU64::new(0);
        std::thread::scope(|s| {
            if slow_secs > 0 {
                s.spawn(|| {
                    while !done.load(Ordering::Relaxed) {
                        std::thread::sleep(std::time::Duration::from_millis(500));
                        for c in &current {
                            let mut g = c.lock().unwrap();
                            if let Some((t0, tape, reported)) = g.as_mut() {
                                if !*reported && t0.elapsed().as_secs() >= slow_secs {
                                    *reported = true;
                                    eprintln!("SLOW CASE (stream {}): tape {:?}", stream, tape);
                                }
                            }
                        }
                    }
                });
            }
            let (current, done, tix, finished) = (&current, &done, &tix, &finished);
            for _ in 0..self.threads {
                // generous stacks: the reference evaluator and the builder recurse over the grammar (debug-sized
                // frames in the `fast` profile)
                let _ = std::thread::Builder::new().stack_size(256 << 20).spawn_scoped(s, || {
                    crate::run::install_panic_hook();
                    let my = tix.fetch_add(1, Ordering::Relaxed) as usize;
                    let mut l = Local::default();
                    loop {
                        if self.stopped() {
                            break;
                        }
                        let c = next.fetch_add(1, Ordering::Relaxed);
                        if c >= chunks {
                            break;
                        }
                        let mut runner = tape_runner(self.seed, stream, c);
                        let strat = proptest::collection::vec(proptest::num::u32::ANY, 0..=tape_len);
                        let hi = ((c + 1) * chunk).min(n);
                        for _ in c * chunk..hi {
                            let tape = strat.new_tree(&mut runner).unwrap().current();
                            if slow_secs > 0 {
                                *current[my].lock().unwrap() = Some((std::time::Instant::now(), tape.clone(), false));
                            }
                            let r = f(&tape, &mut l);
                            if slow_secs > 0 {
                                *current[my].lock().unwrap() = None;
                            }
                            self.judge(&mut l, r);
                            if self.stopped() {
                                break;
                            }
                        }
                    }
                    self.acc.lock().unwrap().merge(l);
                    if finished.fetch_add(1, Ordering::Relaxed) + 1 == self.threads as u64 {
                        done.store(true, Ordering::Relaxed);
                    }
                });
            }
        });
    }

    pub fn with_local(&self, f: impl FnOnce(&mut Local)) {
        let mut l = Local::default();
        f(&mut l);
        self.acc.lock().unwrap().merge(l);
    }

    /// Replay every committed regression case of this property (the seconds-long replay tier).
    pub fn replay_corpus(&self, check: &(dyn Fn(&Case, &mut Local) -> Result<(), Fail> + Sync)) {
        let dir = verif_root().join("corpus").join(self.id);
        let mut files: Vec<_> = match std::fs::read_dir(&dir) {
            Ok(rd) => rd.filter_map(|e| e.ok()).map(|e| e.path()).filter(|p| p.extension().map(|x| x == "json").unwrap_or(false)).collect(),
            Err(_) => vec![],
        };
        files.sort();
        let mut l = Local::default();
        for p in files {
            let Ok(s) = std::fs::read_to_string(&p) else { continue };
            let Ok(case) = serde_json::from_str::<Case>(&s) else {
                eprintln!("corpus file {} does not parse", p.display());
                continue;
            };
            l.bump("corpus_cases_replayed");
            let r = check(&case, &mut l).map_err(|f| (case.clone(), f));
            self.judge(&mut l, r);
        }
        self.acc.lock().unwrap().merge(l);
    }

    /// Finish: shrink and report a violation if any, write the evidence file, return the exit code.
    pub fn finish(
        self,
        check: &(dyn Fn(&Case, &mut Local) -> Result<(), Fail> + Sync),
        rule: &str,
        assumptions: &[&str],
        vacuity: &dyn Fn(&Local) -> Result<(), String>,
    ) -> i32 {
        let acc = std::mem::take(&mut *self.acc.lock().unwrap());
        let fail = self.fail.lock().unwrap().take();
        let mut exit = 0;
        let mut violations = 0;
        let mut violation_info = Value::Null;
        if let Some((case, fail)) = fail {
            violations = 1;
            let (case, fail) = shrink_case(case, fail, check);
            let path = write_replay(self.id, &case, &fail);
            println!("failing case ({}): {}", case.sub, render(&case.g));
            println!("  input: {:?}", case.input);
            if !case.extra.is_null() {
                println!("  extra: {}", case.extra);
            }
            println!("  why:   {}", fail.msg);
            println!("  sig:   {}", fail.sig);
            println!("VIOLATION property={} replay={}", self.id, path);
            violation_info = json!({"replay": path, "sig": fail.sig, "msg": fail.msg, "grammar": render(&case.g), "input": case.input});
            exit = 1;
        }
        for k in &self.known {
            // every listed finding is announced, with the number of generated cases that hit it
            let (n, ex) = acc.kf_hits.get(&k.id).cloned().unwrap_or((0, String::new()));
            println!("KNOWN-FINDING: property={} {} [{}] ({} generated cases hit it{})", self.id, k.what, k.id, n, if ex.is_empty() { String::new() } else { format!("; e.g. {}", ex) });
        }
        let mut inconclusive = self.inconclusive.lock().unwrap().clone();
        if exit == 0 && inconclusive.is_none() {
            if let Err(m) = vacuity(&acc) {
                inconclusive = Some(format!("vacuity guard: {}", m));
            }
        }
        let mut samples: Vec<Value> = acc.samples_nt.clone();
        samples.extend(acc.samples_tr.clone());
        if samples.is_empty() {
            samples.push(json!({"note": "no sample recorded"}));
        }
        let ev = json!({
            "property_id": self.id,
            "tier": if self.quick() { "quick" } else { "thorough" },
            "seed": self.seed,
            "level": "exploration",
            "coverage": {
                "evaluations": acc.evals,
                "distinct_nontrivial": acc.nontrivial.len() as u64 + acc.nontrivial_counted,
                "rule": rule,
                "samples": samples,
                "exhaustive": self.exhaustive.load(Ordering::Relaxed),
                "classes": acc.counters,
                "known_findings_hit": acc.kf_hits.iter().map(|(k, (n, ex))| (k.clone(), json!({"cases": n, "example": ex}))).collect::<BTreeMap<_, _>>(),
                "steered_around_known_findings": acc.steered,
                "violation": violation_info,
                "inconclusive": inconclusive,
                "threads": self.threads,
            },
            "assumptions": assumptions,
            "wall_s": self.t0.elapsed().as_secs_f64(),
            "violations": violations,
        });
        let dir = verif_root().join("evidence");
        let _ = std::fs::create_dir_all(&dir);
        let path = dir.join(format!("{}.json", self.id));
        std::fs::write(&path, serde_json::to_string_pretty(&ev).unwrap() + "\n").expect("cannot write evidence");
        println!(
            "{} {}: {} evaluations, {} distinct non-trivial, {:.1}s, classes: {}",
            self.id,
            if self.quick() { "quick" } else { "thorough" },
            acc.evals,
            acc.nontrivial.len() as u64 + acc.nontrivial_counted,
            self.t0.elapsed().as_secs_f64(),
            acc.counters.iter().map(|(k, v)| format!("{}={}", k, v)).collect::<Vec<_>>().join(" ")
        );
        if exit == 0 {
            if let Some(m) = inconclusive {
                println!("INCONCLUSIVE property={} {}", self.id, m);
                return 2;
            }
        }
        exit
    }
}

pub fn tape_runner(seed: u64, stream: u64, chunk: u64) -> TestRunner {
    let mut s = [0u8; 32];
    s[..8].copy_from_slice(&seed.to_le_bytes());
    s[8..16].copy_from_slice(&stream.to_le_bytes());
    s[16..24].copy_from_slice(&chunk.to_le_bytes());
    s[24..32].copy_from_slice(&0x5eed_c0de_u64.to_le_bytes());
    let rng = TestRng::from_seed(RngAlgorithm::ChaCha, &s);
    TestRunner::new_with_rng(Config { failure_persistence: None, ..Config::default() }, rng)
}

/// Greedy structural shrinking: keep any one-step simplification of the grammar or the input that
/// still fails with the same signature.
pub fn shrink_case(mut case: Case, mut fail: Fail, check: &(dyn Fn(&Case, &mut Local) -> Result<(), Fail> + Sync)) -> (Case, Fail) {
    let mut l = Local::default();
    let t0 = Instant::now();
    let still = |c: &Case, l: &mut Local, sig: &str| -> Option<Fail> {
        let r = crate::run::quietly(|| check(c, l));
        match r {
            Ok(Err(f)) if f.sig == sig => Some(f),
            _ => None,
        }
    };
    // the original must reproduce outside the generator loop; otherwise keep it as it is
    if still(&case, &mut l, &fail.sig).is_none() {
        return (case, fail);
    }
    'outer: loop {
        if t0.elapsed().as_secs() > 60 {
            break;
        }
        // input edits first (cheap)
        let toks: Vec<char> = case.toks();
        for i in 0..toks.len() {
            let mut t2 = toks.clone();
            t2.remove(i);
            let mut c2 = case.clone();
            c2.input = t2.iter().collect();
            if let Some(f) = still(&c2, &mut l, &fail.sig) {
                case = c2;
                fail = f;
                continue 'outer;
            }
        }
        for cand in shrink_candidates(&case.g) {
            if !wf(&cand) {
                continue;
            }
            let mut c2 = case.clone();
            c2.g = cand;
            if let Some(f) = still(&c2, &mut l, &fail.sig) {
                case = c2;
                fail = f;
                continue 'outer;
            }
        }
        // simplify characters
        for i in 0..toks.len() {
            if toks[i] != 'a' {
                let mut t2 = toks.clone();
                t2[i] = 'a';
                let mut c2 = case.clone();
                c2.input = t2.iter().collect();
                if let Some(f) = still(&c2, &mut l, &fail.sig) {
                    case = c2;
                    fail = f;
                    continue 'outer;
                }
            }
        }
        break;
    }
    (case, fail)
}

pub fn write_replay(id: &str, case: &Case, fail: &Fail) -> String {
    let dir = verif_root().join("replays").join(id);
    let _ = std::fs::create_dir_all(&dir);
    let path = dir.join(format!("{:016x}.json", case.hash()));
    let mut v = serde_json::to_value(case).unwrap();
    v["_why"] = json!(fail.msg);
    v["_sig"] = json!(fail.sig);
    v["_grammar"] = json!(render(&case.g));
    std::fs::write(&path, serde_json::to_string_pretty(&v).unwrap() + "\n").expect("cannot write replay");
    path.display().to_string()
}

pub fn seed_from_env() -> u64 {
    let s = std::env::var("VERIF_SEED").ok().and_then(|s| s.parse::<u64>().ok()).unwrap_or(0);
    if s == 0 {
        0x5eed_0001
    } else {
        s
    }
}
