//! Grammar AST `G`: generated, shrunk, serialised (replay files), built into a real chumsky parser
//! (build.rs) and evaluated by the reference semantics (reference.rs).
use crate::val::Val;
use serde::{Deserialize, Serialize};
use std::collections::HashMap;

#[derive(Clone, Debug, PartialEq, Eq, Hash, Serialize, Deserialize)]
pub enum Pred {
    Always,
    Never,
    /// accept iff digest(val) % m != r
    DigestMod(u8, u8),
    /// accept iff the first token of the value is in the set
    FirstIn(String),
}

impl Pred {
    pub fn test(&self, v: &Val) -> bool {
        match self {
            Pred::Always => true,
            Pred::Never => false,
            Pred::DigestMod(m, r) => (v.digest() % (*m).max(1) as u64) != *r as u64,
            Pred::FirstIn(set) => v.first_tok().map(|c| set.contains(c)).unwrap_or(false),
        }
    }
}

#[derive(Clone, Debug, PartialEq, Eq, Hash, Serialize, Deserialize)]
pub enum Sink {
    Vec,
    Str,
    Count,
    Unit,
    /// the repetition used directly as a `Parser<()>`
    Bare,
    /// collect_exactly::<[Val; N]>()
    Exactly(u8),
    Enumerate,
    Foldl(Box<G>),
    Foldr(Box<G>),
    FoldlWith(Box<G>),
    FoldrWith(Box<G>),
}

#[derive(Clone, Debug, PartialEq, Eq, Hash, Serialize, Deserialize)]
pub struct Rep {
    pub item: Box<G>,
    pub sep: Option<Box<G>>,
    pub leading: bool,
    pub trailing: bool,
    pub lo: u8,
    pub hi: Option<u8>,
    pub sink: Sink,
    /// bounds supplied at run time through configure() under with_ctx
    pub cfg: bool,
    /// bounds taken from the CONTEXT value (C15): 0 = no; with n = ctx_num(ctx):
    /// 1 = configure(exactly(n)), 2 = configure(at_least(lo).at_most(n)),
    /// 3 = try_configure(Err(custom) if n is odd, else exactly(n))
    #[serde(default)]
    pub ctxb: u8,
}

/// number carried by a context value: its first token if that is an ASCII digit, else the number of
/// tokens it contains (mod 5)
pub fn ctx_num(v: &Val) -> usize {
    let mut t = Vec::new();
    v.tokens(&mut t);
    match t.first() {
        Some(c) if c.is_ascii_digit() => *c as usize - '0' as usize,
        _ => t.len() % 5,
    }
}

#[derive(Clone, Debug, PartialEq, Eq, Hash, Serialize, Deserialize)]
pub enum Strat {
    Via(Box<G>),
    SkipUntil { skip: Box<G>, until: Box<G>, tag: u32 },
    SkipRetry { skip: Box<G>, until: Box<G> },
    Nested { open: char, close: char, others: Vec<(char, char)>, tag: u32 },
}

#[derive(Clone, Debug, PartialEq, Eq, Hash, Serialize, Deserialize)]
pub enum Wrap {
    Boxed,
    BoxedTwice,
    RcW,
    BoxW,
    ArcW,
    EitherL,
    EitherR,
    Cloned,
    /// an extension parser whose parse() runs `inp.parse(&inner)` and whose check() runs `inp.check(&inner)` (generated only
    /// in classes with `ext`: on failure Ext re-homes the inner error at its own start, which the reference does not model)
    ExtOf,
}

#[derive(Clone, Debug, PartialEq, Eq, Hash, Serialize, Deserialize)]
pub enum G {
    // ---- primitives
    Just(String),
    Any,
    OneOf(String),
    NoneOf(String),
    Select(String),
    End,
    Empty,
    /// custom(): pulls `take` tokens, then succeeds (Str of tokens) or fails with a user error
    Custom { take: u8, ok: bool, tag: u32 },
    /// an ExtParser with separately written parse / check paths (same language as Custom)
    Ext { take: u8, ok: bool, tag: u32 },
    // ---- sequencing / choice / lookahead
    Then(Box<G>, Box<G>),
    IgnoreThen(Box<G>, Box<G>),
    ThenIgnore(Box<G>, Box<G>),
    Group(Vec<G>),
    GroupArr(Vec<G>),
    Or(Box<G>, Box<G>),
    Choice(Vec<G>),
    ChoiceVec(Vec<G>),
    ChoiceArr(Vec<G>),
    OrNot(Box<G>),
    Not(Box<G>),
    AndIs(Box<G>, Box<G>),
    Rewind(Box<G>),
    Delim { inner: Box<G>, open: Box<G>, close: Box<G> },
    PaddedBy(Box<G>, Box<G>),
    // ---- output shaping
    Map(Box<G>, u32),
    To(Box<G>, u32),
    Ignored(Box<G>),
    Filter(Box<G>, Pred),
    TryMap(Box<G>, Pred, u32),
    TryMapWith(Box<G>, Pred, u32),
    ToSlice(Box<G>),
    ToSpan(Box<G>),
    MapSpan(Box<G>),
    MapSlice(Box<G>),
    Unwrapped(Box<G>),
    // ---- repetition
    Rep(Rep),
    /// `a.map(items).into_iter()` used as an IterParser: code 0 = collect::<Vec>, 1 = count,
    /// 2 + n = collect_exactly::<[_; n]> (n in 0..=4)
    IntoIter(Box<G>, u8),
    /// one or two item sources joined by `then` and consumed as ONE IterParser: parts are `Rep` (plain bounds,
    /// Sink::Vec), `OrNot` or `IntoIter(_, 0)` nodes; sink code 0 = collect::<Vec>, 1 = count
    IterThen(Vec<G>, u8),
    // ---- errors
    Validate(Box<G>, u32, u8),
    Recover(Box<G>, Strat),
    Labelled(Box<G>, String, bool),
    MapErr(Box<G>, u32, bool),
    // ---- structure
    Memo(Box<G>),
    Wrapped(Box<G>, Wrap),
    Rec(u8, Box<G>),
    RecRef(u8),
    Lazy(Box<G>),
    /// `a.nested_in(select_ref!{ Group(children) => children as an input })` (token-tree inputs, C16)
    NestedIn(Box<G>),
    // ---- state
    StPush(Box<G>, u32),
    StObs(Box<G>),
    WithState(Box<G>, u64),
    // ---- context
    WithCtx(Box<G>, String),
    ThenWithCtx(Box<G>, Box<G>),
    IgnoreWithCtx(Box<G>, Box<G>),
    MapCtx(Box<G>, u8),
    CxObs(Box<G>),
    JustCfg(String),
    // ---- drop tracking
    Track(Box<G>, u32),
}

pub fn b(g: G) -> Box<G> {
    Box::new(g)
}

impl G {
    pub fn children(&self) -> Vec<&G> {
        use G::*;
        match self {
            Just(_) | Any | OneOf(_) | NoneOf(_) | Select(_) | End | Empty | Custom { .. }
            | Ext { .. } | RecRef(_) | JustCfg(_) => vec![],
            Then(a, c) | IgnoreThen(a, c) | ThenIgnore(a, c) | Or(a, c) | AndIs(a, c)
            | PaddedBy(a, c) | ThenWithCtx(a, c) | IgnoreWithCtx(a, c) => vec![a, c],
            Group(v) | GroupArr(v) | Choice(v) | ChoiceVec(v) | ChoiceArr(v) | IterThen(v, _) => v.iter().collect(),
            OrNot(a) | Not(a) | Rewind(a) | Map(a, _) | To(a, _) | Ignored(a) | Filter(a, _)
            | TryMap(a, _, _) | TryMapWith(a, _, _) | ToSlice(a) | ToSpan(a) | MapSpan(a)
            | MapSlice(a) | Unwrapped(a) | IntoIter(a, _) | Validate(a, _, _) | Labelled(a, _, _)
            | MapErr(a, _, _) | Memo(a) | Wrapped(a, _) | Rec(_, a) | Lazy(a) | NestedIn(a) | StPush(a, _)
            | StObs(a) | WithState(a, _) | WithCtx(a, _) | MapCtx(a, _) | CxObs(a)
            | Track(a, _) => vec![a],
            Delim { inner, open, close } => vec![open, inner, close],
            Rep(r) => {
                let mut v: Vec<&G> = vec![&r.item];
                if let Some(s) = &r.sep {
                    v.push(s)
                }
                match &r.sink {
                    Sink::Foldl(g) | Sink::Foldr(g) | Sink::FoldlWith(g) | Sink::FoldrWith(g) => {
                        v.push(g)
                    }
                    _ => {}
                }
                v
            }
            Recover(a, s) => {
                let mut v: Vec<&G> = vec![a];
                match s {
                    Strat::Via(g) => v.push(g),
                    Strat::SkipUntil { skip, until, .. } | Strat::SkipRetry { skip, until } => {
                        v.push(skip);
                        v.push(until)
                    }
                    Strat::Nested { .. } => {}
                }
                v
            }
        }
    }

    pub fn children_mut(&mut self) -> Vec<&mut G> {
        use G::*;
        match self {
            Just(_) | Any | OneOf(_) | NoneOf(_) | Select(_) | End | Empty | Custom { .. }
            | Ext { .. } | RecRef(_) | JustCfg(_) => vec![],
            Then(a, c) | IgnoreThen(a, c) | ThenIgnore(a, c) | Or(a, c) | AndIs(a, c)
            | PaddedBy(a, c) | ThenWithCtx(a, c) | IgnoreWithCtx(a, c) => vec![a, c],
            Group(v) | GroupArr(v) | Choice(v) | ChoiceVec(v) | ChoiceArr(v) | IterThen(v, _) => {
                v.iter_mut().collect()
            }
            OrNot(a) | Not(a) | Rewind(a) | Map(a, _) | To(a, _) | Ignored(a) | Filter(a, _)
            | TryMap(a, _, _) | TryMapWith(a, _, _) | ToSlice(a) | ToSpan(a) | MapSpan(a)
            | MapSlice(a) | Unwrapped(a) | IntoIter(a, _) | Validate(a, _, _) | Labelled(a, _, _)
            | MapErr(a, _, _) | Memo(a) | Wrapped(a, _) | Rec(_, a) | Lazy(a) | NestedIn(a) | StPush(a, _)
            | StObs(a) | WithState(a, _) | WithCtx(a, _) | MapCtx(a, _) | CxObs(a)
            | Track(a, _) => vec![a],
            Delim { inner, open, close } => vec![open, inner, close],
            Rep(r) => {
                let mut v: Vec<&mut G> = vec![&mut r.item];
                if let Some(s) = &mut r.sep {
                    v.push(s)
                }
                match &mut r.sink {
                    Sink::Foldl(g) | Sink::Foldr(g) | Sink::FoldlWith(g) | Sink::FoldrWith(g) => {
                        v.push(g)
                    }
                    _ => {}
                }
                v
            }
            Recover(a, s) => {
                let mut v: Vec<&mut G> = vec![a];
                match s {
                    Strat::Via(g) => v.push(g),
                    Strat::SkipUntil { skip, until, .. } | Strat::SkipRetry { skip, until } => {
                        v.push(skip);
                        v.push(until)
                    }
                    Strat::Nested { .. } => {}
                }
                v
            }
        }
    }

    pub fn size(&self) -> usize {
        1 + self.children().iter().map(|c| c.size()).sum::<usize>()
    }
    pub fn depth(&self) -> usize {
        1 + self.children().iter().map(|c| c.depth()).max().unwrap_or(0)
    }
    pub fn any_node(&self, f: &dyn Fn(&G) -> bool) -> bool {
        f(self) || self.children().iter().any(|c| c.any_node(f))
    }
    pub fn count_nodes(&self, f: &dyn Fn(&G) -> bool) -> usize {
        (f(self) as usize) + self.children().iter().map(|c| c.count_nodes(f)).sum::<usize>()
    }
    /// Apply `f` to every node, bottom-up (children first).
    pub fn transform(&mut self, f: &mut dyn FnMut(&mut G)) {
        for c in self.children_mut() {
            c.transform(f);
        }
        f(self);
    }

    /// All characters mentioned by the grammar (its alphabet).
    pub fn alphabet(&self, out: &mut Vec<char>) {
        use G::*;
        match self {
            Just(s) | OneOf(s) | NoneOf(s) | Select(s) | JustCfg(s) | WithCtx(_, s) => {
                for c in s.chars() {
                    if !out.contains(&c) {
                        out.push(c)
                    }
                }
            }
            Filter(_, Pred::FirstIn(s)) | TryMap(_, Pred::FirstIn(s), _)
            | TryMapWith(_, Pred::FirstIn(s), _) => {
                for c in s.chars() {
                    if !out.contains(&c) {
                        out.push(c)
                    }
                }
            }
            Recover(_, Strat::Nested { open, close, others, .. }) => {
                for c in [*open, *close].into_iter().chain(others.iter().flat_map(|(a, b)| [*a, *b])) {
                    if !out.contains(&c) {
                        out.push(c)
                    }
                }
            }
            _ => {}
        }
        for c in self.children() {
            c.alphabet(out)
        }
    }

    /// true if every successful match of `self` consumes at least one token (conservative: `false`
    /// when unsure).
    pub fn must_consume(&self) -> bool {
        use G::*;
        match self {
            Just(s) => !s.is_empty(),
            Any | OneOf(_) | NoneOf(_) | Select(_) => true,
            End | Empty => false,
            Custom { take, .. } | Ext { take, .. } => *take >= 1,
            Then(a, c) | IgnoreThen(a, c) | ThenIgnore(a, c) | PaddedBy(a, c)
            | ThenWithCtx(a, c) | IgnoreWithCtx(a, c) => a.must_consume() || c.must_consume(),
            Group(v) | GroupArr(v) | IterThen(v, _) => v.iter().any(|g| g.must_consume()),
            Or(a, c) => a.must_consume() && c.must_consume(),
            Choice(v) | ChoiceVec(v) | ChoiceArr(v) => {
                !v.is_empty() && v.iter().all(|g| g.must_consume())
            }
            OrNot(_) | Not(_) | Rewind(_) => false,
            AndIs(a, _) => a.must_consume(),
            Delim { inner, open, close } => {
                inner.must_consume() || open.must_consume() || close.must_consume()
            }
            Map(a, _) | To(a, _) | Ignored(a) | Filter(a, _) | TryMap(a, _, _)
            | TryMapWith(a, _, _) | ToSlice(a) | ToSpan(a) | MapSpan(a) | MapSlice(a)
            | Unwrapped(a) | Validate(a, _, _) | Labelled(a, _, _) | MapErr(a, _, _) | Memo(a)
            | Wrapped(a, _) | Rec(_, a) | StPush(a, _) | StObs(a) | WithState(a, _)
            | WithCtx(a, _) | MapCtx(a, _) | CxObs(a) | Track(a, _) | Lazy(a) => a.must_consume(),
            IntoIter(a, _) => a.must_consume(),
            Rep(r) => {
                let base = !r.cfg && r.ctxb == 0 && r.lo >= 1;
                match &r.sink {
                    Sink::Foldl(g) | Sink::Foldr(g) | Sink::FoldlWith(g) | Sink::FoldrWith(g) => {
                        base || g.must_consume()
                    }
                    Sink::Exactly(n) => *n >= 1,
                    _ => base,
                }
            }
            Recover(a, s) => {
                a.must_consume()
                    && match s {
                        Strat::Via(g) => g.must_consume(),
                        Strat::SkipUntil { until, .. } => until.must_consume(),
                        Strat::SkipRetry { .. } => true,
                        Strat::Nested { .. } => true,
                    }
            }
            RecRef(_) => false,
            JustCfg(_) => false,
            NestedIn(_) => true,
        }
    }
}

/// Pre-order numbering of nodes, shared by the builder and the reference.
pub fn number(g: &G) -> HashMap<*const G, u32> {
    fn go(g: &G, m: &mut HashMap<*const G, u32>) {
        let id = m.len() as u32;
        m.insert(g as *const G, id);
        for c in g.children() {
            go(c, m)
        }
    }
    let mut m = HashMap::new();
    go(g, &mut m);
    m
}

/// Compact human-readable rendering (for evidence samples and logs).
pub fn render(g: &G) -> String {
    use G::*;
    let r = |g: &G| render(g);
    let rs = |v: &Vec<G>| v.iter().map(render).collect::<Vec<_>>().join(", ");
    match g {
        Just(s) => format!("just({:?})", s),
        Any => "any()".into(),
        OneOf(s) => format!("one_of({:?})", s),
        NoneOf(s) => format!("none_of({:?})", s),
        Select(s) => format!("select!({:?})", s),
        End => "end()".into(),
        Empty => "empty()".into(),
        Custom { take, ok, .. } => format!("custom(take {}, {})", take, if *ok { "Ok" } else { "Err" }),
        Ext { take, ok, .. } => format!("ext(take {}, {})", take, if *ok { "Ok" } else { "Err" }),
        Then(a, c) => format!("{}.then({})", r(a), r(c)),
        IgnoreThen(a, c) => format!("{}.ignore_then({})", r(a), r(c)),
        ThenIgnore(a, c) => format!("{}.then_ignore({})", r(a), r(c)),
        Group(v) => format!("group(({}))", rs(v)),
        GroupArr(v) => format!("group([{}])", rs(v)),
        Or(a, c) => format!("{}.or({})", r(a), r(c)),
        Choice(v) => format!("choice(({}))", rs(v)),
        ChoiceVec(v) => format!("choice(vec![{}])", rs(v)),
        ChoiceArr(v) => format!("choice([{}])", rs(v)),
        OrNot(a) => format!("{}.or_not()", r(a)),
        Not(a) => format!("{}.not()", r(a)),
        AndIs(a, c) => format!("{}.and_is({})", r(a), r(c)),
        Rewind(a) => format!("{}.rewind()", r(a)),
        Delim { inner, open, close } => {
            format!("{}.delimited_by({}, {})", r(inner), r(open), r(close))
        }
        PaddedBy(a, c) => format!("{}.padded_by({})", r(a), r(c)),
        Map(a, t) => format!("{}.map(m{})", r(a), t),
        To(a, t) => format!("{}.to(m{})", r(a), t),
        Ignored(a) => format!("{}.ignored()", r(a)),
        Filter(a, p) => format!("{}.filter({:?})", r(a), p),
        TryMap(a, p, t) => format!("{}.try_map({:?},e{})", r(a), p, t),
        TryMapWith(a, p, t) => format!("{}.try_map_with({:?},e{})", r(a), p, t),
        ToSlice(a) => format!("{}.to_slice()", r(a)),
        ToSpan(a) => format!("{}.to_span()", r(a)),
        MapSpan(a) => format!("{}.map_with(span)", r(a)),
        MapSlice(a) => format!("{}.map_with(slice)", r(a)),
        Unwrapped(a) => format!("{}.map(Some).unwrapped()", r(a)),
        IntoIter(a, k) => match k {
            0 => format!("{}.map(items).into_iter().collect::<Vec>()", r(a)),
            1 => format!("{}.map(items).into_iter().count()", r(a)),
            n => format!("{}.map(items).into_iter().collect_exactly::<[_;{}]>()", r(a), n - 2),
        },
        IterThen(v, k) => format!("{}.{}", v.iter().map(|x| format!("[{}]", render(x))).collect::<Vec<_>>().join(".then"), if *k == 0 { "collect::<Vec>() [as one IterParser]" } else { "count() [as one IterParser]" }),
        Rep(x) => {
            let mut s = match &x.sep {
                None => format!("{}.repeated()", r(&x.item)),
                Some(sep) => format!("{}.separated_by({})", r(&x.item), r(sep)),
            };
            if x.leading {
                s += ".allow_leading()"
            }
            if x.trailing {
                s += ".allow_trailing()"
            }
            let bounds = match (x.lo, x.hi) {
                (l, Some(h)) if l == h => format!("exactly({})", l),
                (0, None) => String::new(),
                (l, None) => format!("at_least({})", l),
                (0, Some(h)) => format!("at_most({})", h),
                (l, Some(h)) => format!("at_least({}).at_most({})", l, h),
            };
            match x.ctxb {
                1 => s += ".configure(|c,ctx| c.exactly(num(ctx)))",
                2 => s += &format!(".configure(|c,ctx| c.at_least({}).at_most(num(ctx)))", x.lo),
                3 => s += ".try_configure(|c,ctx,_| if odd(num(ctx)) Err else c.exactly(num(ctx)))",
                _ => {}
            }
            if !bounds.is_empty() && x.ctxb == 0 {
                if x.cfg {
                    s += &format!(".configure(|c,_| c.{})", bounds)
                } else {
                    s += &format!(".{}", bounds)
                }
            }
            match &x.sink {
                Sink::Vec => s + ".collect::<Vec>()",
                Sink::Str => s + ".collect::<String>()",
                Sink::Count => s + ".count()",
                Sink::Unit => s + ".collect::<()>()",
                Sink::Bare => s,
                Sink::Exactly(n) => format!("{}.collect_exactly::<[_;{}]>()", s, n),
                Sink::Enumerate => s + ".enumerate().collect()",
                Sink::Foldl(g) => format!("{}.foldl({}, pair)", r(g), s),
                Sink::Foldr(g) => format!("{}.foldr({}, pair)", s, r(g)),
                Sink::FoldlWith(g) => format!("{}.foldl_with({}, pair+span)", r(g), s),
                Sink::FoldrWith(g) => format!("{}.foldr_with({}, pair+span)", s, r(g)),
            }
        }
        Validate(a, t, n) => format!("{}.validate(emit V{}x{})", r(a), t, n),
        Recover(a, s) => {
            let st = match s {
                Strat::Via(g) => format!("via_parser({})", r(g)),
                Strat::SkipUntil { skip, until, tag } => {
                    format!("skip_until({}, {}, F{})", r(skip), r(until), tag)
                }
                Strat::SkipRetry { skip, until } => {
                    format!("skip_then_retry_until({}, {})", r(skip), r(until))
                }
                Strat::Nested { open, close, others, tag } => {
                    format!("via_parser(nested_delimiters({:?},{:?},{:?},F{}))", open, close, others, tag)
                }
            };
            format!("{}.recover_with({})", r(a), st)
        }
        Labelled(a, l, c) => {
            format!("{}.labelled({:?}){}", r(a), l, if *c { ".as_context()" } else { "" })
        }
        MapErr(a, t, ws) => {
            format!("{}.map_err{}(M{})", r(a), if *ws { "_with_state" } else { "" }, t)
        }
        Memo(a) => format!("{}.memoized()", r(a)),
        Wrapped(a, w) => format!("{:?}({})", w, r(a)),
        Rec(id, a) => format!("recursive(|r{}| {})", id, r(a)),
        RecRef(id) => format!("r{}", id),
        Lazy(a) => format!("{}.lazy()", r(a)),
        NestedIn(a) => format!("{}.nested_in(group)", r(a)),
        StPush(a, t) => format!("{}.validate(push {})", r(a), t),
        StObs(a) => format!("{}.map_with(state)", r(a)),
        WithState(a, s) => format!("{}.with_state({})", r(a), s),
        WithCtx(a, s) => format!("{}.with_ctx({:?})", r(a), s),
        ThenWithCtx(a, c) => format!("{}.then_with_ctx({})", r(a), r(c)),
        IgnoreWithCtx(a, c) => format!("{}.ignore_with_ctx({})", r(a), r(c)),
        MapCtx(a, k) => format!("map_ctx(f{}, {})", k, r(a)),
        CxObs(a) => format!("{}.map_with(ctx)", r(a)),
        JustCfg(s) => format!("just({:?}).configure(seq=ctx)", s),
        Track(a, t) => format!("{}.map(track {})", r(a), t),
    }
}

// ---------------------------------------------------------------------------------------------
// well-formedness (what the library documents as legal) and structural shrinking

/// Grammars the generators may produce and replay files may contain: repetition items consume
/// input, arities are supported by the builder, recursion is guarded (a token is consumed on every
/// path from a definition's start to a reference to it).
pub fn wf(g: &G) -> bool {
    fn go(g: &G, recs: &mut Vec<(u8, bool)>, guarded: bool) -> bool {
        use G::*;
        let seq = |gs: &[&G], recs: &mut Vec<(u8, bool)>, mut gd: bool| -> bool {
            for x in gs {
                if !go(x, recs, gd) {
                    return false;
                }
                gd = gd || x.must_consume();
            }
            true
        };
        match g {
            Just(_) | Any | OneOf(_) | NoneOf(_) | Select(_) | End | Empty | Custom { .. }
            | Ext { .. } | JustCfg(_) => true,
            RecRef(id) => recs.iter().any(|(i, gd)| i == id && (*gd || guarded)),
            Rec(id, body) => {
                // entering a definition: outer definitions keep their status only through `guarded`
                let saved: Vec<(u8, bool)> = recs.clone();
                if guarded {
                    for r in recs.iter_mut() {
                        r.1 = true;
                    }
                }
                recs.push((*id, false));
                let ok = go(body, recs, false);
                *recs = saved;
                ok
            }
            Then(a, c) | IgnoreThen(a, c) | ThenIgnore(a, c) | ThenWithCtx(a, c) | IgnoreWithCtx(a, c) => {
                seq(&[a, c], recs, guarded)
            }
            Group(v) => (2..=4).contains(&v.len()) && seq(&v.iter().collect::<Vec<_>>(), recs, guarded),
            GroupArr(v) => (1..=4).contains(&v.len()) && seq(&v.iter().collect::<Vec<_>>(), recs, guarded),
            Or(a, c) | AndIs(a, c) => go(a, recs, guarded) && go(c, recs, guarded),
            Choice(v) => (1..=5).contains(&v.len()) && v.iter().all(|x| go(x, recs, guarded)),
            ChoiceVec(v) => !v.is_empty() && v.iter().all(|x| go(x, recs, guarded)),
            ChoiceArr(v) => (1..=4).contains(&v.len()) && v.iter().all(|x| go(x, recs, guarded)),
            Delim { inner, open, close } => seq(&[open, inner, close], recs, guarded),
            PaddedBy(a, p) => seq(&[p, a, p], recs, guarded),
            OrNot(a) | Not(a) | Rewind(a) | Map(a, _) | To(a, _) | Ignored(a) | Filter(a, _)
            | TryMap(a, _, _) | TryMapWith(a, _, _) | ToSlice(a) | ToSpan(a) | MapSpan(a)
            | MapSlice(a) | Unwrapped(a) | Validate(a, _, _) | Labelled(a, _, _)
            | MapErr(a, _, _) | Memo(a) | Wrapped(a, _) | Lazy(a) | StPush(a, _) | StObs(a)
            | WithState(a, _) | WithCtx(a, _) | MapCtx(a, _) | CxObs(a) | Track(a, _) => {
                go(a, recs, guarded)
            }
            IntoIter(a, k) => *k <= 6 && go(a, recs, guarded),
            IterThen(v, k) => {
                *k <= 1
                    && (1..=2).contains(&v.len())
                    && v.iter().all(|x| match x {
                        Rep(r) => matches!(r.sink, Sink::Vec) && !r.cfg && r.ctxb == 0,
                        OrNot(_) => true,
                        IntoIter(_, 0) => true,
                        _ => false,
                    })
                    && seq(&v.iter().collect::<Vec<_>>(), recs, guarded)
            }
            // the group token is consumed before the inner parser starts (on the group's children)
            NestedIn(a) => go(a, recs, true),
            Rep(r) => {
                if !r.item.must_consume() {
                    return false;
                }
                if let Sink::Exactly(n) = r.sink {
                    if n > 4 {
                        return false;
                    }
                }
                if r.cfg && (r.sep.is_some() || matches!(r.sink, Sink::Str)) {
                    return false;
                }
                if r.ctxb > 3 || r.ctxb != 0 && (r.cfg || r.sep.is_some() || matches!(r.sink, Sink::Str | Sink::Exactly(_))) {
                    return false;
                }
                let mut gd = guarded;
                if let Sink::Foldl(i) | Sink::FoldlWith(i) = &r.sink {
                    if !go(i, recs, gd) {
                        return false;
                    }
                    gd = gd || i.must_consume();
                }
                if !go(&r.item, recs, gd) {
                    return false;
                }
                if let Some(s) = &r.sep {
                    // a separator is tried before the first item only with allow_leading
                    if !go(s, recs, if r.leading { gd } else { true }) {
                        return false;
                    }
                }
                if let Sink::Foldr(t) | Sink::FoldrWith(t) = &r.sink {
                    if !go(t, recs, gd || r.lo >= 1 && !r.cfg) {
                        return false;
                    }
                }
                true
            }
            Recover(a, s) => {
                go(a, recs, guarded)
                    && match s {
                        Strat::Via(x) => go(x, recs, guarded),
                        Strat::SkipUntil { skip, until, .. } | Strat::SkipRetry { skip, until } => {
                            skip.must_consume() && go(skip, recs, guarded) && go(until, recs, guarded)
                        }
                        Strat::Nested { open, close, others, .. } => {
                            let mut cs = vec![*open, *close];
                            for (a, c) in others {
                                cs.push(*a);
                                cs.push(*c);
                            }
                            let n = cs.len();
                            cs.sort();
                            cs.dedup();
                            cs.len() == n && others.len() <= 2
                        }
                    }
            }
        }
    }
    go(g, &mut vec![], false)
}

fn count(g: &G) -> usize {
    g.size()
}

/// the `idx`-th node in pre-order
pub fn node_at(g: &G, idx: usize) -> Option<&G> {
    fn go<'a>(g: &'a G, idx: &mut usize) -> Option<&'a G> {
        if *idx == 0 {
            return Some(g);
        }
        *idx -= 1;
        for c in g.children() {
            if let Some(x) = go(c, idx) {
                return Some(x);
            }
        }
        None
    }
    let mut i = idx;
    go(g, &mut i)
}

pub fn replace_at(g: &G, idx: usize, new: &G) -> G {
    fn go(g: &mut G, idx: &mut usize, new: &G) -> bool {
        if *idx == 0 {
            *g = new.clone();
            return true;
        }
        *idx -= 1;
        for c in g.children_mut() {
            if go(c, idx, new) {
                return true;
            }
        }
        false
    }
    let mut out = g.clone();
    let mut i = idx;
    go(&mut out, &mut i, new);
    out
}

/// Local simplifications of a single node (not recursive).
fn simpler_node(g: &G) -> Vec<G> {
    use G::*;
    let mut out: Vec<G> = vec![];
    // replace by a child
    for c in g.children() {
        out.push(c.clone());
    }
    match g {
        Just(s) if s.chars().count() > 1 => {
            let cs: Vec<char> = s.chars().collect();
            out.push(Just(cs[..cs.len() - 1].iter().collect()));
            out.push(Just(cs[1..].iter().collect()));
        }
        OneOf(s) | NoneOf(s) | Select(s) if s.chars().count() > 1 => {
            let cs: Vec<char> = s.chars().collect();
            let mk = |x: String| match g {
                OneOf(_) => OneOf(x),
                NoneOf(_) => NoneOf(x),
                _ => Select(x),
            };
            out.push(mk(cs[..cs.len() - 1].iter().collect()));
            out.push(mk(cs[1..].iter().collect()));
        }
        Group(v) | GroupArr(v) | Choice(v) | ChoiceVec(v) | ChoiceArr(v) if v.len() > 1 => {
            for i in 0..v.len() {
                let mut w = v.clone();
                w.remove(i);
                out.push(match g {
                    Group(_) => Group(w),
                    GroupArr(_) => GroupArr(w),
                    Choice(_) => Choice(w),
                    ChoiceVec(_) => ChoiceVec(w),
                    _ => ChoiceArr(w),
                });
            }
        }
        Rep(r) => {
            let mut push = |f: &dyn Fn(&mut crate::grammar::Rep)| {
                let mut r2 = r.clone();
                f(&mut r2);
                if r2 != *r {
                    out.push(Rep(r2));
                }
            };
            push(&|r| r.sep = None);
            push(&|r| {
                r.sep = None;
                r.leading = false;
                r.trailing = false
            });
            push(&|r| r.leading = false);
            push(&|r| r.trailing = false);
            push(&|r| r.lo = 0);
            push(&|r| r.hi = None);
            push(&|r| r.lo = r.lo.saturating_sub(1));
            push(&|r| r.hi = r.hi.map(|h| h.saturating_sub(1)));
            push(&|r| r.cfg = false);
            push(&|r| r.ctxb = 0);
            push(&|r| r.sink = Sink::Vec);
        }
        Validate(a, t, n) if *n > 1 => out.push(Validate(a.clone(), *t, 1)),
        Labelled(a, l, true) => out.push(Labelled(a.clone(), l.clone(), false)),
        MapErr(a, t, true) => out.push(MapErr(a.clone(), *t, false)),
        Filter(a, p) | TryMap(a, p, _) | TryMapWith(a, p, _) => {
            for q in [Pred::Never, Pred::Always] {
                if *p != q {
                    out.push(match g {
                        Filter(_, _) => Filter(a.clone(), q),
                        TryMap(_, _, t) => TryMap(a.clone(), q, *t),
                        TryMapWith(_, _, t) => TryMapWith(a.clone(), q, *t),
                        _ => unreachable!(),
                    });
                }
            }
        }
        Custom { take, ok, tag } if *take > 0 => out.push(Custom { take: take - 1, ok: *ok, tag: *tag }),
        _ => {}
    }
    out
}

/// Candidate grammars that are strictly smaller / simpler than `g` (one edit each).
pub fn shrink_candidates(g: &G) -> Vec<G> {
    let n = count(g);
    let mut out = vec![];
    for idx in 0..n {
        let node = node_at(g, idx).unwrap();
        for s in simpler_node(node) {
            let cand = replace_at(g, idx, &s);
            if cand != *g {
                out.push(cand);
            }
        }
        if idx > 0 && node.size() > 1 {
            for leaf in [G::Just("a".into()), G::Empty] {
                out.push(replace_at(g, idx, &leaf));
            }
        }
    }
    out
}

// ---------------------------------------------------------------------------------------------
// token trees (C16): a flat char sequence with group brackets <-> a laid-out tree with gapped spans

pub const GOPEN: char = '⟦';
pub const GCLOSE: char = '⟧';

#[derive(Clone, Debug, PartialEq)]
pub enum TreeTok {
    Leaf(char),
    /// children and the eoi span handed to the inner input
    Group(Vec<TNode>, (usize, usize)),
}
#[derive(Clone, Debug, PartialEq)]
pub struct TNode {
    pub tok: TreeTok,
    pub span: (usize, usize),
}
impl TNode {
    /// the character the reference sees for this token
    pub fn ch(&self) -> char {
        match &self.tok {
            TreeTok::Leaf(c) => *c,
            TreeTok::Group(..) => GOPEN,
        }
    }
}

/// Parse a bracketed flat sequence into a tree (lenient: a stray closing bracket is dropped, an
/// unclosed group is closed at the end) and lay it out with deterministic gapped spans.
pub fn parse_tree(flat: &[char], seed: u64) -> (Vec<TNode>, (usize, usize)) {
    let mut x = seed.wrapping_mul(0x9e3779b97f4a7c15) | 1;
    let mut next = move |m: u64| {
        x ^= x << 13;
        x ^= x >> 7;
        x ^= x << 17;
        (x % m) as usize
    };
    fn go(flat: &[char], i: &mut usize, pos: &mut usize, top: bool, next: &mut dyn FnMut(u64) -> usize) -> Vec<TNode> {
        let mut out = vec![];
        while *i < flat.len() {
            let c = flat[*i];
            *i += 1;
            if c == GCLOSE {
                if top {
                    continue;
                }
                return out;
            }
            *pos += [0, 0, 1, 2][next(4)];
            if c == GOPEN {
                let start = *pos;
                *pos += 1;
                let kids = go(flat, i, pos, false, next);
                *pos += [0, 1][next(2)];
                let close = *pos;
                *pos += 1;
                let eoi = match next(3) {
                    0 => (start, close + 1),
                    1 => (close, close + 1),
                    _ => (close, close),
                };
                out.push(TNode { tok: TreeTok::Group(kids, eoi), span: (start, close + 1) });
            } else {
                let w = 1 + next(2);
                out.push(TNode { tok: TreeTok::Leaf(c), span: (*pos, *pos + w) });
                *pos += w;
            }
        }
        out
    }
    let mut i = 0;
    let mut pos = next(3);
    let nodes = go(flat, &mut i, &mut pos, true, &mut next);
    let end = pos + [0, 2][next(2)];
    let eoi = if next(2) == 0 { (end, end) } else { (end, end + 1) };
    (nodes, eoi)
}

/// maximal nesting depth of a tree
pub fn tree_depth(nodes: &[TNode]) -> usize {
    nodes.iter().map(|n| match &n.tok {
        TreeTok::Leaf(_) => 0,
        TreeTok::Group(k, _) => 1 + tree_depth(k),
    }).max().unwrap_or(0)
}


/// the text a generated map_err writes into the error it rewrites: `M<tag>[<expected set>|<user message>]`. Markers nest
/// (a map_err around a recursive reference wraps the marker of the level below), so the inner message is kept short: beyond
/// 48 bytes it is replaced by its first 32 bytes and a hash of the whole (without this a 16-level recursion through two
/// map_err nodes produced a 4 GiB message)
pub fn map_err_marker(tag: u32, expected: &Option<Vec<crate::build::Pat>>, custom: &Option<String>) -> String {
    let inner = match custom {
        None => "-".to_string(),
        Some(m) if m.len() <= 48 => m.clone(),
        Some(m) => {
            let mut h = 0xcbf29ce484222325u64;
            for b in m.bytes() {
                h = (h ^ b as u64).wrapping_mul(0x100000001b3);
            }
            let mut cut = 32;
            while !m.is_char_boundary(cut) {
                cut -= 1;
            }
            format!("{}..#{:016x}", &m[..cut], h)
        }
    };
    format!("M{}[{:?}|{}]", tag, expected, inner)
}
