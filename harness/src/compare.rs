//! Comparison of reference values (token-index spans) with implementation values (the input
//! kind's own offsets), and of reference error summaries with reported errors.
use crate::build::{ErrDesc, Pat};
use crate::reference::{AltR, Emis, EmisKind};
use crate::val::Val;

/// Maps token indices to the offsets a given input kind reports.
#[derive(Clone, Debug)]
pub struct SpanMap {
    pub starts: Vec<usize>,
    pub ends: Vec<usize>,
    pub eoi: (usize, usize),
    /// slice pointer arithmetic: bytes per slice unit
    pub unit: usize,
    /// offset shift applied by map_span inputs
    pub shift: usize,
}

impl SpanMap {
    pub fn for_str(toks: &[char]) -> SpanMap {
        let mut starts = vec![];
        let mut ends = vec![];
        let mut o = 0;
        for c in toks {
            starts.push(o);
            o += c.len_utf8();
            ends.push(o);
        }
        SpanMap { starts, ends, eoi: (o, o), unit: 1, shift: 0 }
    }
    pub fn for_index(n: usize, unit: usize) -> SpanMap {
        SpanMap { starts: (0..n).collect(), ends: (1..=n).collect(), eoi: (n, n), unit, shift: 0 }
    }
    pub fn gapped(spans: &[(usize, usize)], eoi: (usize, usize), unit: usize) -> SpanMap {
        SpanMap {
            starts: spans.iter().map(|s| s.0).collect(),
            ends: spans.iter().map(|s| s.1).collect(),
            eoi,
            unit,
            shift: 0,
        }
    }
    pub fn n(&self) -> usize {
        self.starts.len()
    }
    pub fn start_of(&self, i: usize) -> usize {
        if i < self.n() {
            self.starts[i]
        } else {
            self.eoi.0
        }
    }
    /// admissible spans for the token range [s, e): Ok(exact) or, for an empty match, the
    /// inclusive interval in which the (empty) span must lie
    pub fn expect(&self, s: usize, e: usize) -> ExpSpan {
        if s < e {
            ExpSpan::Exact(self.starts[s] + self.shift, self.ends[e - 1] + self.shift)
        } else {
            let lo = if s == 0 { 0 } else { self.ends[s - 1] };
            let hi = if s < self.n() { self.starts[s] } else { self.eoi.1.max(lo) };
            ExpSpan::EmptyIn(lo.min(hi) + self.shift, hi.max(lo) + self.shift)
        }
    }
    pub fn check_span(&self, s: usize, e: usize, got: (usize, usize)) -> Result<(), String> {
        match self.expect(s, e) {
            ExpSpan::Exact(a, b) => {
                if got == (a, b) {
                    Ok(())
                } else {
                    Err(format!("span {}..{} but tokens [{},{}) span {}..{}", got.0, got.1, s, e, a, b))
                }
            }
            ExpSpan::EmptyIn(lo, hi) => {
                if got.0 == got.1 && lo <= got.0 && got.0 <= hi {
                    Ok(())
                } else {
                    Err(format!(
                        "span {}..{} for an empty match at token {} (must be empty and within {}..={})",
                        got.0, got.1, s, lo, hi
                    ))
                }
            }
        }
    }
}

#[derive(Clone, Debug, PartialEq)]
pub enum ExpSpan {
    Exact(usize, usize),
    EmptyIn(usize, usize),
}

/// Compare a reference value with an implementation value. `base` is the address of the caller's
/// buffer (for zero-copy slice checks).
pub fn cmp_val(r: &Val, i: &Val, sm: &SpanMap, base: usize) -> Result<(), String> {
    match (r, i) {
        (Val::Span(s, e), Val::Span(a, b)) => sm.check_span(*s, *e, (*a, *b)),
        (Val::Abs(x, y, true), Val::Span(a, b)) => {
            if (x, y) == (a, b) {
                Ok(())
            } else {
                Err(format!("span {}..{} inside a nested input, expected {}..{}", a, b, x, y))
            }
        }
        (Val::Abs(x, y, false), Val::Span(a, b)) => {
            if a == b && x <= a && a <= y {
                Ok(())
            } else {
                Err(format!("span {}..{} for an empty match inside a nested input (must be empty and within {}..={})", a, b, x, y))
            }
        }
        (Val::Obs(id, s, e, rv), Val::Obs(id2, a, b, iv)) => {
            if id != id2 {
                return Err(format!("node id {} vs {}", id, id2));
            }
            sm.check_span(*s, *e, (*a, *b)).map_err(|m| format!("node #{}: {}", id, m))?;
            cmp_val(rv, iv, sm, base)
        }
        (Val::Slice(s, l, c), Val::Slice(addr, len, c2)) => {
            if c != c2 {
                return Err(format!("slice content {:?} vs {:?}", c, c2));
            }
            // same memory, no copy: the slice must start at input[start of token s]
            let exp_off = if *l > 0 || *s < sm.n() { sm.start_of(*s) } else { sm.eoi.0 };
            let exp_len = if *l == 0 { 0 } else { sm.ends[s + l - 1] - sm.starts[*s] };
            if *len != exp_len {
                return Err(format!("slice length {} vs {}", len, exp_len));
            }
            if *len == 0 {
                // an empty slice must still point into (or one past) the buffer
                let off = addr.wrapping_sub(base) / sm.unit;
                if addr.wrapping_sub(base) % sm.unit != 0 || off > sm.eoi.1 {
                    return Err(format!("empty slice points outside the input (offset {})", off));
                }
                return Ok(());
            }
            let off = addr.wrapping_sub(base);
            if off != exp_off * sm.unit {
                return Err(format!(
                    "slice is not the caller's memory: pointer offset {} bytes, expected {}",
                    off,
                    exp_off * sm.unit
                ));
            }
            Ok(())
        }
        (Val::List(a), Val::List(b)) => {
            if a.len() != b.len() {
                return Err(format!("list length {} vs {}: {:?} vs {:?}", a.len(), b.len(), r, i));
            }
            for (x, y) in a.iter().zip(b) {
                cmp_val(x, y, sm, base)?;
            }
            Ok(())
        }
        (Val::Pair(a, b), Val::Pair(c, d)) => {
            cmp_val(a, c, sm, base)?;
            cmp_val(b, d, sm, base)
        }
        (Val::Opt(Some(a)), Val::Opt(Some(b))) => cmp_val(a, b, sm, base),
        (Val::St(n, h, a), Val::St(n2, h2, b)) => {
            if (n, h) != (n2, h2) {
                return Err(format!("observed state ({},{:x}) vs expected ({},{:x})", n2, h2, n, h));
            }
            cmp_val(a, b, sm, base)
        }
        (Val::Cx(c, a), Val::Cx(c2, b)) => {
            cmp_val(c, c2, sm, base).map_err(|m| format!("context: {}", m))?;
            cmp_val(a, b, sm, base)
        }
        (Val::Mark(t, a), Val::Mark(t2, b)) => {
            if t != t2 {
                return Err(format!("mark {} vs {}", t, t2));
            }
            cmp_val(a, b, sm, base)
        }
        (a, b) => {
            if a == b {
                Ok(())
            } else {
                Err(format!("value {:?} vs {:?}", b, a))
            }
        }
    }
}

/// Structural sanity of every span embedded in an implementation value (oracle-free):
/// start <= end, inside the input, children nested within their parent and ordered.
pub fn span_sanity(v: &Val, sm: &SpanMap, is_char_boundary: &dyn Fn(usize) -> bool) -> Result<(), String> {
    span_sanity_opts(v, sm, is_char_boundary, true)
}

/// `nesting = false`: only the per-span checks. Needed where a lookahead (rewind / and_is / not) sits inside an item
/// source that is observed as a whole: what the lookahead captured lies beyond what its parent consumed, by design.
pub fn span_sanity_opts(v: &Val, sm: &SpanMap, is_char_boundary: &dyn Fn(usize) -> bool, nesting: bool) -> Result<(), String> {
    fn go(
        v: &Val,
        parent: Option<(usize, usize)>,
        sm: &SpanMap,
        cb: &dyn Fn(usize) -> bool,
    ) -> Result<(), String> {
        let chk = |s: usize, e: usize| -> Result<(), String> {
            if s > e {
                return Err(format!("inverted span {}..{}", s, e));
            }
            if e > sm.eoi.1 + sm.shift || s < sm.shift {
                return Err(format!("span {}..{} outside the input (len {})", s, e, sm.eoi.1));
            }
            if !cb(s - sm.shift) || !cb(e - sm.shift) {
                return Err(format!("span {}..{} not on a character boundary", s, e));
            }
            if let Some((ps, pe)) = parent {
                if s < e && ps < pe && (s < ps || e > pe) {
                    return Err(format!("span {}..{} not nested in its parent's {}..{}", s, e, ps, pe));
                }
            }
            Ok(())
        };
        match v {
            Val::Span(s, e) => chk(*s, *e),
            Val::Obs(_, s, e, inner) => {
                chk(*s, *e)?;
                go(inner, Some((*s, *e)), sm, cb)
            }
            Val::List(l) => {
                for x in l {
                    go(x, parent, sm, cb)?
                }
                Ok(())
            }
            Val::Pair(a, b) => {
                go(a, parent, sm, cb)?;
                go(b, parent, sm, cb)
            }
            Val::Opt(Some(a)) | Val::St(_, _, a) | Val::Mark(_, a) => go(a, parent, sm, cb),
            Val::Cx(_, a) => go(a, parent, sm, cb),
            _ => Ok(()),
        }
    }
    if nesting {
        go(v, None, sm, is_char_boundary)
    } else {
        // flatten: every span on its own
        fn flat(v: &Val, out: &mut Vec<Val>) {
            match v {
                Val::Span(s, e) => out.push(Val::Span(*s, *e)),
                Val::Obs(_, s, e, inner) => {
                    out.push(Val::Span(*s, *e));
                    flat(inner, out)
                }
                Val::List(l) => l.iter().for_each(|x| flat(x, out)),
                Val::Pair(a, b) => {
                    flat(a, out);
                    flat(b, out)
                }
                Val::Opt(Some(a)) | Val::St(_, _, a) | Val::Mark(_, a) | Val::Cx(_, a) => flat(a, out),
                _ => {}
            }
        }
        let mut all = vec![];
        flat(v, &mut all);
        for x in &all {
            go(x, None, sm, is_char_boundary)?;
        }
        Ok(())
    }
}

pub fn pats(a: &AltR) -> Vec<Pat> {
    a.exp.iter().cloned().collect()
}

/// Compare a reported error with the reference's furthest-failure summary. `strict` also
/// compares the expected set / user message.
pub fn cmp_err(a: &AltR, d: &ErrDesc, sm: &SpanMap, strict: bool) -> Result<(), String> {
    let n = sm.n();
    // an error at the end of an input whose eoi span is not empty may sit at either end of that span
    let (exp_start, alt_start) = match a.abs {
        Some(abs) => (abs.0, a.abs_end_alt.unwrap_or(abs.0)),
        None => {
            if a.span.0 < n {
                (sm.starts[a.span.0] + sm.shift, sm.starts[a.span.0] + sm.shift)
            } else {
                (sm.eoi.0 + sm.shift, sm.eoi.1 + sm.shift)
            }
        }
    };
    if d.span.0 != exp_start && d.span.0 != alt_start {
        return Err(format!(
            "error span starts at {} but the furthest failure is at token {} (offset {})",
            d.span.0, a.pos, exp_start
        ));
    }
    if let Some(msg) = &a.custom {
        if strict {
            match &d.custom {
                Some(m) if m == msg => {}
                other => {
                    if d.expected.is_some() || d.custom.is_some() {
                        return Err(format!(
                            "user-supplied error {:?} at the furthest position not preserved (got {:?} / expected set {:?})",
                            msg, other, d.expected
                        ));
                    }
                }
            }
        }
    } else {
        if a.found_fuzzy {
            // nothing is specified about `found` here
        } else if let (Some(Some(f)), Some(df)) = (a.found.as_ref().map(|f| f.as_ref()), d.found.as_ref()) {
            if df.as_ref() != Some(f) {
                return Err(format!("found {:?} but the token at the failure is {:?}", df, f));
            }
        }
        if let (Some(None), Some(df), false) = (a.found.as_ref(), d.found.as_ref(), a.found_fuzzy) {
            if df.is_some() {
                return Err(format!("found {:?} but the failure is at the end of input", df));
            }
        }
        if strict {
            if let Some(e) = &d.expected {
                let want = pats(a);
                if *e != want {
                    return Err(format!("expected set {:?} but the failures at token {} expect {:?}", e, a.pos, want));
                }
            } else if d.custom.is_some() {
                return Err(format!("reported a user error {:?} where {:?} was expected", d.custom, pats(a)));
            }
        }
    }
    Ok(())
}

/// Compare the emitted (non-fatal) error of the reference with a reported one.
pub fn cmp_emis(e: &Emis, d: &ErrDesc, sm: &SpanMap, strict_recovered: bool) -> Result<(), String> {
    match &e.kind {
        EmisKind::Validate(t, k) => {
            let want = format!("V{}.{}", t, k);
            if let Some(m) = &d.custom {
                if *m != want {
                    return Err(format!("emitted {:?}, expected {:?}", m, want));
                }
            } else if d.expected.is_some() {
                return Err(format!("emitted an expected/found error where {:?} was expected", want));
            }
            match &e.abs {
                None => sm.check_span(e.span.0, e.span.1, d.span).map_err(|m| format!("{}: {}", want, m)),
                Some(ExpSpan::Exact(a, b)) if d.span == (*a, *b) => Ok(()),
                Some(ExpSpan::EmptyIn(a, b)) if d.span.0 == d.span.1 && *a <= d.span.0 && d.span.0 <= *b => Ok(()),
                Some(x) => Err(format!("{}: span {:?} of an error emitted inside a nested input, expected {:?}", want, d.span, x)),
            }
        }
        EmisKind::Recovered(a) => {
            if d.custom.as_deref().map(|m| m.starts_with('V')).unwrap_or(false) {
                return Err(format!("a validate emission {:?} where a recovered error was expected", d.custom));
            }
            if strict_recovered && !a.fuzzy {
                cmp_err(a, d, sm, true)
            } else {
                Ok(())
            }
        }
    }
}
