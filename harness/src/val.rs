//! Uniform output value type produced by every generated parser and by the reference semantics.
use serde::{Deserialize, Serialize};
use std::cell::RefCell;
use std::collections::BTreeSet;
use std::fmt;

#[derive(Clone, PartialEq, Eq, Hash, Serialize, Deserialize)]
pub enum Val {
    Unit,
    Tok(char),
    Str(String),
    List(Vec<Val>),
    Pair(Box<Val>, Box<Val>),
    Opt(Option<Box<Val>>),
    Num(u64),
    /// span in the *input kind's* offsets
    Span(usize, usize),
    /// (reference only, C16) a span from inside a nested input in absolute offsets: exact, or
    /// (false) an empty span lying within [a, b]
    Abs(usize, usize, bool),
    /// slice: (offset of slice start from the input buffer's base in tokens/bytes, length, content)
    Slice(usize, usize, String),
    /// observation of a node: node id, span, (optional) state snapshot, inner value
    Obs(u32, usize, usize, Box<Val>),
    /// user-state observation (count, hash)
    St(u64, u64, Box<Val>),
    /// context observation
    Cx(Box<Val>, Box<Val>),
    Mark(u32, Box<Val>),
    Fallback(u32),
    Tr(Tracked),
}

impl fmt::Debug for Val {
    fn fmt(&self, f: &mut fmt::Formatter<'_>) -> fmt::Result {
        match self {
            Val::Unit => write!(f, "()"),
            Val::Tok(c) => write!(f, "{:?}", c),
            Val::Str(s) => write!(f, "{:?}", s),
            Val::List(v) => f.debug_list().entries(v.iter()).finish(),
            Val::Pair(a, b) => write!(f, "({:?}, {:?})", a, b),
            Val::Opt(None) => write!(f, "None"),
            Val::Opt(Some(v)) => write!(f, "Some({:?})", v),
            Val::Num(n) => write!(f, "{}", n),
            Val::Span(s, e) => write!(f, "{}..{}", s, e),
            Val::Abs(a, b, true) => write!(f, "abs {}..{}", a, b),
            Val::Abs(a, b, false) => write!(f, "abs-empty-in {}..={}", a, b),
            Val::Slice(o, l, s) => write!(f, "slice@{}+{}{:?}", o, l, s),
            Val::Obs(id, s, e, v) => write!(f, "#{}[{}..{}]{:?}", id, s, e, v),
            Val::St(n, h, v) => write!(f, "st({},{:x}){:?}", n, h, v),
            Val::Cx(c, v) => write!(f, "cx<{:?}>{:?}", c, v),
            Val::Mark(t, v) => write!(f, "m{}:{:?}", t, v),
            Val::Fallback(t) => write!(f, "FALLBACK{}", t),
            Val::Tr(t) => write!(f, "tr{}", t.tag),
        }
    }
}

impl Default for Val {
    fn default() -> Self {
        Val::Unit
    }
}

impl Val {
    pub fn pair(a: Val, b: Val) -> Val {
        Val::Pair(Box::new(a), Box::new(b))
    }
    pub fn opt(a: Option<Val>) -> Val {
        Val::Opt(a.map(Box::new))
    }
    pub fn mark(t: u32, v: Val) -> Val {
        Val::Mark(t, Box::new(v))
    }
    pub fn obs(id: u32, s: usize, e: usize, v: Val) -> Val {
        Val::Obs(id, s, e, Box::new(v))
    }
    /// Stable digest used by generated predicates (filter / try_map). Ignores spans, so the
    /// predicate does not depend on the input kind's offsets.
    pub fn digest(&self) -> u64 {
        fn mix(h: &mut u64, x: u64) {
            *h ^= x;
            *h = h.wrapping_mul(0x100000001b3);
        }
        fn go(v: &Val, h: &mut u64) {
            match v {
                Val::Unit => mix(h, 1),
                Val::Tok(c) => {
                    mix(h, 2);
                    mix(h, *c as u64)
                }
                Val::Str(s) => {
                    mix(h, 3);
                    for c in s.chars() {
                        mix(h, c as u64)
                    }
                }
                Val::List(l) => {
                    mix(h, 4);
                    for x in l {
                        go(x, h)
                    }
                }
                Val::Pair(a, b) => {
                    mix(h, 5);
                    go(a, h);
                    go(b, h)
                }
                Val::Opt(None) => mix(h, 6),
                Val::Opt(Some(x)) => {
                    mix(h, 7);
                    go(x, h)
                }
                Val::Num(n) => {
                    mix(h, 8);
                    mix(h, *n)
                }
                Val::Span(..) | Val::Abs(..) => mix(h, 9),
                Val::Slice(_, _, s) => {
                    mix(h, 10);
                    for c in s.chars() {
                        mix(h, c as u64)
                    }
                }
                Val::Obs(_, _, _, v) => go(v, h),
                Val::St(_, _, v) => go(v, h),
                Val::Cx(_, v) => go(v, h),
                Val::Mark(t, v) => {
                    mix(h, 11);
                    mix(h, *t as u64);
                    go(v, h)
                }
                Val::Fallback(t) => {
                    mix(h, 12);
                    mix(h, *t as u64)
                }
                Val::Tr(t) => {
                    mix(h, 13);
                    mix(h, t.tag as u64)
                }
            }
        }
        let mut h = 0xcbf29ce484222325u64;
        go(self, &mut h);
        h
    }
    /// Flatten all tokens contained in the value, in order (used by to-token conversions).
    pub fn tokens(&self, out: &mut Vec<char>) {
        match self {
            Val::Tok(c) => out.push(*c),
            Val::Str(s) => out.extend(s.chars()),
            Val::Slice(_, _, s) => out.extend(s.chars()),
            Val::List(l) => l.iter().for_each(|v| v.tokens(out)),
            Val::Pair(a, b) => {
                a.tokens(out);
                b.tokens(out)
            }
            Val::Opt(Some(v)) => v.tokens(out),
            Val::Obs(_, _, _, v) | Val::St(_, _, v) | Val::Cx(_, v) | Val::Mark(_, v) => {
                v.tokens(out)
            }
            _ => {}
        }
    }
    /// the items an `into_iter()` over this value yields (generated IntoIter nodes)
    pub fn into_items(self) -> Vec<Val> {
        match self {
            Val::List(l) => l,
            Val::Opt(None) => vec![],
            Val::Opt(Some(x)) => vec![*x],
            Val::Unit => vec![],
            // observation wrappers of the harness are looked through
            Val::Obs(_, _, _, v) | Val::St(_, _, v) => (*v).into_items(),
            other => vec![other],
        }
    }
    pub fn first_tok(&self) -> Option<char> {
        let mut v = Vec::new();
        self.tokens(&mut v);
        v.first().copied()
    }
    pub fn count_fallbacks(&self) -> usize {
        match self {
            Val::Fallback(_) => 1,
            Val::List(l) => l.iter().map(|v| v.count_fallbacks()).sum(),
            Val::Pair(a, b) => a.count_fallbacks() + b.count_fallbacks(),
            Val::Opt(Some(v)) => v.count_fallbacks(),
            Val::Obs(_, _, _, v) | Val::St(_, _, v) | Val::Cx(_, v) | Val::Mark(_, v) => {
                v.count_fallbacks()
            }
            _ => 0,
        }
    }
    pub fn tracked_ids(&self, out: &mut Vec<u64>) {
        match self {
            Val::Tr(t) => out.push(t.id),
            Val::List(l) => l.iter().for_each(|v| v.tracked_ids(out)),
            Val::Pair(a, b) => {
                a.tracked_ids(out);
                b.tracked_ids(out)
            }
            Val::Opt(Some(v)) => v.tracked_ids(out),
            Val::Obs(_, _, _, v) | Val::St(_, _, v) | Val::Cx(_, v) | Val::Mark(_, v) => {
                v.tracked_ids(out)
            }
            _ => {}
        }
    }
}

// ---------------------------------------------------------------------------------------------
// Drop tracking (C19)

#[derive(Default)]
pub struct Ledger {
    pub next: u64,
    pub live: BTreeSet<u64>,
    pub created: u64,
    pub dropped: u64,
    pub double_drops: Vec<u64>,
    pub enabled: bool,
}

thread_local! {
    pub static LEDGER: RefCell<Ledger> = RefCell::new(Ledger::default());
}

pub fn ledger_reset() {
    LEDGER.with(|l| {
        let mut l = l.borrow_mut();
        *l = Ledger::default();
        l.enabled = true;
    })
}
pub fn ledger_snapshot() -> (BTreeSet<u64>, u64, u64, Vec<u64>) {
    LEDGER.with(|l| {
        let l = l.borrow();
        (l.live.clone(), l.created, l.dropped, l.double_drops.clone())
    })
}

#[derive(Serialize, Deserialize, Debug)]
pub struct Tracked {
    pub tag: u32,
    #[serde(skip)]
    pub id: u64,
}

impl PartialEq for Tracked {
    fn eq(&self, o: &Self) -> bool {
        self.tag == o.tag
    }
}
impl Eq for Tracked {}
impl std::hash::Hash for Tracked {
    fn hash<H: std::hash::Hasher>(&self, h: &mut H) {
        self.tag.hash(h)
    }
}
impl Tracked {
    /// a value that is not registered in the ledger (used by the reference semantics)
    pub fn phantom(tag: u32) -> Tracked {
        Tracked { tag, id: 0 }
    }
    pub fn new(tag: u32) -> Tracked {
        let id = LEDGER.with(|l| {
            let mut l = l.borrow_mut();
            l.next += 1;
            let id = l.next;
            l.live.insert(id);
            l.created += 1;
            id
        });
        Tracked { tag, id }
    }
}
impl Clone for Tracked {
    fn clone(&self) -> Self {
        if self.id == 0 {
            return Tracked::phantom(self.tag);
        }
        Tracked::new(self.tag)
    }
}
impl Drop for Tracked {
    fn drop(&mut self) {
        let _ = LEDGER.try_with(|l| {
            if let Ok(mut l) = l.try_borrow_mut() {
                if !l.enabled || self.id == 0 {
                    return;
                }
                l.dropped += 1;
                if !l.live.remove(&self.id) {
                    let id = self.id;
                    l.double_drops.push(id);
                }
            }
        });
    }
}
