//! Worker isolation: checks that may crash, overflow the stack, exhaust memory or hang run their
//! batches in a child process (this same binary, `cv worker ...`) under an address-space limit and
//! a watchdog. A child killed by a signal is a violation; a watchdog expiry is inconclusive.
use std::io::Read;
use std::process::{Command, Stdio};
use std::time::{Duration, Instant};

pub enum ChildResult {
    Ok(String),
    Violation(String),
    Inconclusive(String),
}

pub fn run_child(args: &[&str], timeout_s: u64, mem_kib: u64) -> ChildResult {
    let exe = std::env::current_exe().expect("current_exe");
    let cmd = format!("ulimit -v {}; exec \"{}\" worker {}", mem_kib, exe.display(), args.join(" "));
    let mut child = match Command::new("sh").arg("-c").arg(&cmd).stdout(Stdio::piped()).stderr(Stdio::piped()).spawn() {
        Ok(c) => c,
        Err(e) => return ChildResult::Inconclusive(format!("cannot spawn worker: {}", e)),
    };
    let mut stdout = child.stdout.take().unwrap();
    let mut stderr = child.stderr.take().unwrap();
    let h_out = std::thread::spawn(move || {
        let mut s = String::new();
        let _ = stdout.read_to_string(&mut s);
        s
    });
    let h_err = std::thread::spawn(move || {
        let mut s = String::new();
        let _ = stderr.read_to_string(&mut s);
        s
    });
    let t0 = Instant::now();
    let status = loop {
        match child.try_wait() {
            Ok(Some(st)) => break st,
            Ok(None) => {
                if t0.elapsed() > Duration::from_secs(timeout_s) {
                    let _ = child.kill();
                    let _ = child.wait();
                    return ChildResult::Inconclusive(format!("watchdog: worker {:?} still running after {} s", args, timeout_s));
                }
                std::thread::sleep(Duration::from_millis(20));
            }
            Err(e) => return ChildResult::Inconclusive(format!("wait failed: {}", e)),
        }
    };
    let out = h_out.join().unwrap_or_default();
    let err = h_err.join().unwrap_or_default();
    use std::os::unix::process::ExitStatusExt;
    if let Some(sig) = status.signal() {
        let tail: String = err.lines().rev().take(3).collect::<Vec<_>>().join(" | ");
        return ChildResult::Violation(format!("worker {:?} was killed by signal {} ({}); last output: {}", args, sig, tail, out.lines().last().unwrap_or("")));
    }
    match status.code() {
        Some(0) => ChildResult::Ok(out),
        Some(1) => ChildResult::Violation(out.lines().filter(|l| l.contains("VIOLATION")).collect::<Vec<_>>().join("; ")),
        Some(c) => {
            // sh reports a child killed by a signal as 128 + signal
            if c > 128 {
                return ChildResult::Violation(format!("worker {:?} was killed by signal {}; stderr: {}", args, c - 128, err.lines().rev().take(3).collect::<Vec<_>>().join(" | ")));
            }
            if err.contains("memory allocation") || err.contains("out of memory") {
                return ChildResult::Violation(format!("worker {:?} ran out of memory under the {} KiB limit: {}", args, mem_kib, err.lines().last().unwrap_or("")));
            }
            ChildResult::Inconclusive(format!("worker {:?} exited with code {}: {}", args, c, err.lines().last().unwrap_or("")))
        }
        None => ChildResult::Inconclusive("worker ended without a status".into()),
    }
}
