//! Part of the dynamic builder (see build.rs): the node kinds are spread over several modules so that the
//! monomorphised code of the ~35 (input kind, error type) instantiations lands in several codegen units
//! instead of one giant one (rustc places the instances of a generic function in the unit of its module).
#![allow(clippy::type_complexity)]
use crate::build::*;
use crate::grammar::*;
use crate::val::{Tracked, Val};
use chumsky::error::{Cheap, EmptyErr, LabelError, Rich, RichPattern, RichReason, Simple};
use chumsky::extra::Full;
use chumsky::input::{Checkpoint, Cursor, Input, InputRef, ValueInput};
use chumsky::inspector::Inspector;
use chumsky::prelude::*;
use chumsky::recursive::{Indirect, Recursive};
use chumsky::{ConfigIterParser, ConfigParser, IterParser};
use std::collections::HashMap;
use std::fmt::Debug;
use std::rc::Rc;
use std::sync::Arc;

pub fn node_a<'s, I: Kind<'s>, R: Er<'s, I>>(this: &mut Bld<'s, I, R>, g: &G) -> BP<'s, I, R> {
    use G::*;
    match g {
        Just(s) => I::p_just::<R>(s),
        Any if this.borrow_prims => I::p_any_ref::<R>(),
        Any => I::p_any::<R>(),
        OneOf(s) => I::p_one_of::<R>(s),
        NoneOf(s) => I::p_none_of::<R>(s),
        Select(s) if this.borrow_prims => I::p_select_ref::<R>(s, if this.obs_state { SelFlavour::State } else if this.cap_spans { SelFlavour::Span } else { SelFlavour::Plain }),
        Select(s) => I::p_select::<R>(s, if this.obs_state { SelFlavour::State } else if this.cap_spans { SelFlavour::Span } else { SelFlavour::Plain }),
        End => end::<I, Ex<R>>().mb(|()| Val::Unit),
        Empty => empty::<I, Ex<R>>().mb(|()| Val::Unit),
        Custom { take, ok, tag } => I::p_custom::<R>(*take, *ok, *tag),
        G::Ext { take, ok, tag } if this.explicit => {
            let g2 = G::Custom { take: *take, ok: *ok, tag: *tag };
            this.node(&g2)
        }
        G::Ext { take, ok, tag } => I::p_ext::<R>(*take, *ok, *tag),
        Then(a, c) => {
            let (a, c) = (this.build(a), this.build(c));
            a.then(c).mb(|(a, c)| Val::pair(a, c))
        }
        IgnoreThen(a, c) if this.explicit => {
            let (a, c) = (this.build(a), this.build(c));
            a.then(c).mb(|(_, c)| c)
        }
        ThenIgnore(a, c) if this.explicit => {
            let (a, c) = (this.build(a), this.build(c));
            a.then(c).mb(|(a, _)| a)
        }
        IgnoreThen(a, c) => {
            let (a, c) = (this.build(a), this.build(c));
            a.ignore_then(c).cb()
        }
        ThenIgnore(a, c) => {
            let (a, c) = (this.build(a), this.build(c));
            a.then_ignore(c).cb()
        }
        Group(v) => {
            let mut ps: Vec<BP<'s, I, R>> = v.iter().map(|g| this.build(g)).collect();
            match ps.len() {
                2 => {
                    let (b, a) = (ps.pop().unwrap(), ps.pop().unwrap());
                    group((a, b)).mb(|(a, b)| Val::List(vec![a, b]))
                }
                3 => {
                    let (c, b, a) = (ps.pop().unwrap(), ps.pop().unwrap(), ps.pop().unwrap());
                    group((a, b, c)).mb(|(a, b, c)| Val::List(vec![a, b, c]))
                }
                4 => {
                    let (d, c, b, a) =
                        (ps.pop().unwrap(), ps.pop().unwrap(), ps.pop().unwrap(), ps.pop().unwrap());
                    group((a, b, c, d)).mb(|(a, b, c, d)| Val::List(vec![a, b, c, d]))
                }
                n => panic!("Group arity {}", n),
            }
        }
        GroupArr(v) => {
            let ps: Vec<BP<'s, I, R>> = v.iter().map(|g| this.build(g)).collect();
            fn arr<'s, I: Kind<'s>, R: Er<'s, I>, const N: usize>(ps: Vec<BP<'s, I, R>>) -> BP<'s, I, R> {
                let a: [BP<'s, I, R>; N] = ps.try_into().ok().unwrap();
                group(a).mb(|a: [Val; N]| Val::List(a.into()))
            }
            match ps.len() {
                1 => arr::<I, R, 1>(ps),
                2 => arr::<I, R, 2>(ps),
                3 => arr::<I, R, 3>(ps),
                4 => arr::<I, R, 4>(ps),
                n => panic!("GroupArr arity {}", n),
            }
        }
        Or(a, c) => {
            let (a, c) = (this.build(a), this.build(c));
            a.or(c).cb()
        }
        Choice(v) => {
            let mut ps: Vec<BP<'s, I, R>> = v.iter().map(|g| this.build(g)).collect();
            ps.reverse();
            let mut nx = || ps.pop().unwrap();
            match v.len() {
                1 => choice((nx(),)).cb(),
                2 => choice((nx(), nx())).cb(),
                3 => choice((nx(), nx(), nx())).cb(),
                4 => choice((nx(), nx(), nx(), nx())).cb(),
                5 => choice((nx(), nx(), nx(), nx(), nx())).cb(),
                n => panic!("Choice arity {}", n),
            }
        }
        ChoiceVec(v) => {
            let ps: Vec<BP<'s, I, R>> = v.iter().map(|g| this.build(g)).collect();
            choice(ps).cb()
        }
        ChoiceArr(v) => {
            let ps: Vec<BP<'s, I, R>> = v.iter().map(|g| this.build(g)).collect();
            fn arr<'s, I: Kind<'s>, R: Er<'s, I>, const N: usize>(ps: Vec<BP<'s, I, R>>) -> BP<'s, I, R> {
                let a: [BP<'s, I, R>; N] = ps.try_into().ok().unwrap();
                choice(a).cb()
            }
            match ps.len() {
                1 => arr::<I, R, 1>(ps),
                2 => arr::<I, R, 2>(ps),
                3 => arr::<I, R, 3>(ps),
                4 => arr::<I, R, 4>(ps),
                n => panic!("ChoiceArr arity {}", n),
            }
        }
        OrNot(a) => this.build(a).or_not().mb(Val::opt),
        Not(a) => {
            let a = this.build(a);
            I::p_not::<R>(a)
        }
        AndIs(a, c) => {
            let (a, c) = (this.build(a), this.build(c));
            a.and_is(c).cb()
        }
        Rewind(a) => this.build(a).rewind().cb(),
        Delim { inner, open, close } if this.explicit => {
            let (o, i, c) = (this.build(open), this.build(inner), this.build(close));
            o.then(i).then(c).mb(|((_, i), _)| i)
        }
        PaddedBy(a, p) if this.explicit => {
            let (a, p) = (this.build(a), this.build(p));
            p.clone().then(a).then(p).mb(|((_, a), _)| a)
        }
        Delim { inner, open, close } => {
            let (o, i, c) = (this.build(open), this.build(inner), this.build(close));
            i.delimited_by(o, c).cb()
        }
        PaddedBy(a, p) => {
            let (a, p) = (this.build(a), this.build(p));
            a.padded_by(p).cb()
        }
        _ => unreachable!("node kind handled by another part of the builder"),
    }
}
