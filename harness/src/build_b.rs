//! Part of the dynamic builder (see build.rs): the node kinds are spread over several modules so that the
//! monomorphised code of the ~35 (input kind, error type) instantiations lands in several codegen units
//! instead of one giant one (rustc places the instances of a generic function in the unit of its module).
#![allow(clippy::type_complexity)]
use crate::build::*;
use crate::grammar::*;
use crate::val::{Tracked, Val};
use chumsky::error::{Cheap, EmptyErr, LabelError, Rich, RichPattern, RichReason, Simple};
use chumsky::extra::Full;
use chumsky::input::{Checkpoint, Cursor, Input, InputRef, ValueInput};
use chumsky::inspector::Inspector;
use chumsky::prelude::*;
use chumsky::recursive::{Indirect, Recursive};
use chumsky::{ConfigIterParser, ConfigParser, IterParser};
use std::collections::HashMap;
use std::fmt::Debug;
use std::rc::Rc;
use std::sync::Arc;

pub fn node_b<'s, I: Kind<'s>, R: Er<'s, I>>(this: &mut Bld<'s, I, R>, g: &G) -> BP<'s, I, R> {
    use G::*;
    match g {
        Map(a, t) => {
            let t = *t;
            this.build(a).map(move |v| Val::mark(t, v)).cb()
        }
        To(a, t) if this.explicit => {
            let v = Val::mark(*t, Val::Unit);
            this.build(a).map(move |_| v.clone()).cb()
        }
        Ignored(a) if this.explicit => this.build(a).map(|_| Val::Unit).cb(),
        To(a, t) => this.build(a).to(Val::mark(*t, Val::Unit)).cb(),
        Ignored(a) => this.build(a).ignored().mb(|()| Val::Unit),
        Filter(a, p) => {
            let p = p.clone();
            this.build(a).filter(move |v| p.test(v)).cb()
        }
        TryMap(a, p, t) => {
            let (p, t) = (p.clone(), *t);
            let cap = this.cap_spans;
            this.build(a)
                .try_map(move |v, span: I::Spn| {
                    if p.test(&v) {
                        let m = Val::mark(t, v);
                        Ok(if cap {
                            let (s, e) = span.se();
                            Val::pair(Val::Span(s, e), m)
                        } else {
                            m
                        })
                    } else {
                        Err(R::custom(span, format!("T{}", t)))
                    }
                })
                .cb()
        }
        TryMapWith(a, p, t) => {
            let (p, t) = (p.clone(), *t);
            let cap = this.cap_spans;
            this.build(a)
                .try_map_with(move |v, e| {
                    if p.test(&v) {
                        let m = Val::mark(t, v);
                        Ok(if cap {
                            let (s, e2) = e.span().se();
                            Val::pair(Val::Span(s, e2), m)
                        } else {
                            m
                        })
                    } else {
                        Err(R::custom(e.span(), format!("T{}", t)))
                    }
                })
                .cb()
        }
        ToSlice(a) if this.explicit => {
            let a = this.build(a);
            I::slice_node_explicit::<R>(a)
        }
        ToSlice(a) => {
            let a = this.build(a);
            I::slice_node::<R>(a)
        }
        MapSlice(a) => {
            let a = this.build(a);
            I::map_slice_node::<R>(a)
        }
        ToSpan(a) if this.explicit => this
            .build(a)
            .map_with(|_v, e| {
                let (s, e2) = e.span().se();
                Val::Span(s, e2)
            })
            .cb(),
        ToSpan(a) => this
            .build(a)
            .to_span()
            .map(|s: I::Spn| {
                let (s, e) = s.se();
                Val::Span(s, e)
            })
            .cb(),
        MapSpan(a) => this
            .build(a)
            .map_with(|v, e| {
                let (s, e2) = e.span().se();
                Val::pair(Val::Span(s, e2), v)
            })
            .cb(),
        Unwrapped(a) => this.build(a).map(Some).unwrapped().cb(),
        IntoIter(a, k) => {
            let it = this.build(a).map(|v: Val| v.into_items()).into_iter();
            match *k {
                0 => it.collect::<Vec<Val>>().mb(Val::List),
                1 => it.count().mb(|n| Val::Num(n as u64)),
                2 => it.collect_exactly::<[Val; 0]>().mb(|a| Val::List(a.into())),
                3 => it.collect_exactly::<[Val; 1]>().mb(|a| Val::List(a.into())),
                4 => it.collect_exactly::<[Val; 2]>().mb(|a| Val::List(a.into())),
                5 => it.collect_exactly::<[Val; 3]>().mb(|a| Val::List(a.into())),
                _ => it.collect_exactly::<[Val; 4]>().mb(|a| Val::List(a.into())),
            }
        }
        _ => unreachable!("node kind handled by another part of the builder"),
    }
}
