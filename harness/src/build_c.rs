//! Part of the dynamic builder (see build.rs): the node kinds are spread over several modules so that the
//! monomorphised code of the ~35 (input kind, error type) instantiations lands in several codegen units
//! instead of one giant one (rustc places the instances of a generic function in the unit of its module).
#![allow(clippy::type_complexity)]
use crate::build::*;
use crate::grammar::*;
use crate::val::{Tracked, Val};
use chumsky::error::{Cheap, EmptyErr, LabelError, Rich, RichPattern, RichReason, Simple};
use chumsky::extra::Full;
use chumsky::input::{Checkpoint, Cursor, Input, InputRef, ValueInput};
use chumsky::inspector::Inspector;
use chumsky::prelude::*;
use chumsky::recursive::{Indirect, Recursive};
use chumsky::{ConfigIterParser, ConfigParser, IterParser};
use std::collections::HashMap;
use std::fmt::Debug;
use std::rc::Rc;
use std::sync::Arc;

pub fn sink_node<'s, I: Kind<'s>, R: Er<'s, I>, P>(this: &mut Bld<'s, I, R>, rep: P, sink: &Sink) -> BP<'s, I, R>
where
    P: IterParser<'s, I, Val, Ex<R>> + Parser<'s, I, (), Ex<R>> + Clone + 's,
{
    match sink {
        Sink::Vec => rep.collect::<Vec<Val>>().map(Val::List).cb(),
        Sink::Str => unreachable!(),
        Sink::Count if this.explicit => rep.collect::<Vec<Val>>().map(|v| Val::Num(v.len() as u64)).cb(),
        Sink::Unit | Sink::Bare if this.explicit => rep.collect::<Vec<Val>>().map(|_v| Val::Unit).cb(),
        Sink::Count => rep.count().map(|n| Val::Num(n as u64)).cb(),
        Sink::Unit => rep.collect::<()>().map(|()| Val::Unit).cb(),
        Sink::Bare => rep.map(|()| Val::Unit).cb(),
        Sink::Exactly(n) => match n {
            0 => rep.collect_exactly::<[Val; 0]>().map(|a| Val::List(a.into())).cb(),
            1 => rep.collect_exactly::<[Val; 1]>().map(|a| Val::List(a.into())).cb(),
            2 => rep.collect_exactly::<[Val; 2]>().map(|a| Val::List(a.into())).cb(),
            3 => rep.collect_exactly::<[Val; 3]>().map(|a| Val::List(a.into())).cb(),
            _ => rep.collect_exactly::<[Val; 4]>().map(|a| Val::List(a.into())).cb(),
        },
        Sink::Enumerate => rep
            .enumerate()
            .collect::<Vec<(usize, Val)>>()
            .map(|v| {
                Val::List(v.into_iter().map(|(i, x)| Val::pair(Val::Num(i as u64), x)).collect())
            })
            .cb(),
        Sink::Foldl(init) => {
            let init = this.build(init);
            init.foldl(rep, Val::pair).cb()
        }
        Sink::Foldr(tail) => {
            let tail = this.build(tail);
            rep.foldr(tail, Val::pair).cb()
        }
        Sink::FoldlWith(init) => {
            let init = this.build(init);
            let os = this.obs_state;
            init.foldl_with(rep, move |a, b, e| {
                let (s, e2) = e.span().se();
                let v = Val::pair(Val::Span(s, e2), Val::pair(a, b));
                if os {
                    let st = e.state();
                    Val::St(st.n, st.h, Box::new(v))
                } else {
                    v
                }
            })
            .cb()
        }
        Sink::FoldrWith(tail) => {
            let tail = this.build(tail);
            let os = this.obs_state;
            rep.foldr_with(tail, move |a, b, e| {
                let (s, e2) = e.span().se();
                let v = Val::pair(Val::Span(s, e2), Val::pair(a, b));
                if os {
                    let st = e.state();
                    Val::St(st.n, st.h, Box::new(v))
                } else {
                    v
                }
            })
            .cb()
        }
    }
}

pub fn rep_node<'s, I: Kind<'s>, R: Er<'s, I>>(this: &mut Bld<'s, I, R>, r: &Rep) -> BP<'s, I, R> {
    let item = this.build(&r.item);
    let lo = r.lo as usize;
    let hi = r.hi.map(|h| h as usize);
    if let Sink::Str = r.sink {
        // String collection needs `char` items
        let item = item.map(|v: Val| v.first_tok().unwrap_or('\u{0}'));
        return match &r.sep {
            None => {
                let mut rep = item.repeated().at_least(lo);
                if let Some(h) = hi {
                    rep = rep.at_most(h)
                }
                rep.collect::<String>().map(Val::Str).cb()
            }
            Some(sep) => {
                let sep = this.build(sep);
                let mut rep = item.separated_by(sep).at_least(lo);
                if let Some(h) = hi {
                    rep = rep.at_most(h)
                }
                if r.leading {
                    rep = rep.allow_leading()
                }
                if r.trailing {
                    rep = rep.allow_trailing()
                }
                rep.collect::<String>().map(Val::Str).cb()
            }
        };
    }
    if r.ctxb != 0 {
        let mode = r.ctxb;
        return match mode {
            1 => {
                let rep = item.repeated().configure(move |c, ctx: &Val| c.exactly(ctx_num(ctx)));
                crate::build_c::sink_node(this, rep, &r.sink)
            }
            2 => {
                // static lower bound, upper bound from the context
                let rep = item.repeated().at_least(lo).configure(move |c, ctx: &Val| c.at_most(ctx_num(ctx)));
                crate::build_c::sink_node(this, rep, &r.sink)
            }
            _ => {
                let rep = item.repeated().try_configure(move |c, ctx: &Val, span| {
                    let n = ctx_num(ctx);
                    if n % 2 == 1 {
                        Err(R::custom(span, format!("K{}", n)))
                    } else {
                        Ok(c.exactly(n))
                    }
                });
                crate::build_c::sink_node(this, rep, &r.sink)
            }
        };
    }
    match &r.sep {
        None => {
            if r.cfg {
                // the same bounds, split between the static builder and the configuration closure in
                // four ways (all equivalent by the documentation of configure)
                let mode = (lo + hi.unwrap_or(7)) % 4;
                let mut stat = item.repeated();
                if mode == 1 || mode == 3 {
                    stat = stat.at_least(lo);
                }
                if let (Some(h), true) = (hi, mode == 2 || mode == 3) {
                    stat = stat.at_most(h);
                }
                let rep = stat.configure(move |c, _ctx: &Val| {
                    let c = if mode == 0 || mode == 2 { c.at_least(lo) } else { c };
                    match hi {
                        Some(h) if mode == 0 || mode == 1 => c.at_most(h),
                        _ => c,
                    }
                });
                crate::build_c::sink_node(this, rep, &r.sink)
            } else {
                let mut rep = item.repeated().at_least(lo);
                if let Some(h) = hi {
                    rep = rep.at_most(h)
                }
                crate::build_c::sink_node(this, rep, &r.sink)
            }
        }
        Some(sep) => {
            let sep = this.build(sep);
            let mut rep = item.separated_by(sep).at_least(lo);
            if let Some(h) = hi {
                rep = rep.at_most(h)
            }
            if r.leading {
                rep = rep.allow_leading()
            }
            if r.trailing {
                rep = rep.allow_trailing()
            }
            crate::build_c::sink_node(this, rep, &r.sink)
        }
    }
}

