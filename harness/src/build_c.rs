//! Part of the dynamic builder (see build.rs): the node kinds are spread over several modules so that the
//! monomorphised code of the ~35 (input kind, error type) instantiations lands in several codegen units
//! instead of one giant one (rustc places the instances of a generic function in the unit of its module).
#![allow(clippy::type_complexity)]
use crate::build::*;
use crate::grammar::*;
use crate::val::{Tracked, Val};
use chumsky::error::{Cheap, EmptyErr, LabelError, Rich, RichPattern, RichReason, Simple};
use chumsky::extra::Full;
use chumsky::input::{Checkpoint, Cursor, Input, InputRef, ValueInput};
use chumsky::inspector::Inspector;
use chumsky::prelude::*;
use chumsky::recursive::{Indirect, Recursive};
use chumsky::{ConfigIterParser, ConfigParser, IterParser};
use std::collections::HashMap;
use std::fmt::Debug;
use std::rc::Rc;
use std::sync::Arc;

pub fn sink_node<'s, I: Kind<'s>, R: Er<'s, I>, P>(this: &mut Bld<'s, I, R>, rep: P, sink: &Sink) -> BP<'s, I, R>
where
    P: IterParser<'s, I, Val, Ex<R>> + Parser<'s, I, (), Ex<R>> + Clone + 's,
{
    match sink {
        Sink::Vec => rep.collect::<Vec<Val>>().mb(Val::List),
        Sink::Str => unreachable!(),
        Sink::Count if this.explicit => rep.collect::<Vec<Val>>().mb(|v| Val::Num(v.len() as u64)),
        Sink::Unit | Sink::Bare if this.explicit => rep.collect::<Vec<Val>>().mb(|_v| Val::Unit),
        Sink::Count => rep.count().mb(|n| Val::Num(n as u64)),
        Sink::Unit => rep.collect::<()>().mb(|()| Val::Unit),
        Sink::Bare => rep.mb(|()| Val::Unit),
        // the fixed-size container is an array or, depending on the bounds of the repetition, the same array behind
        // Box / Box<Box<..>> (ContainerExactly forwards through Box: its own uninit / write / drop_before / take; the Rc and Arc
        // implementations are commented out in the library)
        Sink::Exactly(n) => match (n, this.hint % 3) {
            (0, _) => rep.collect_exactly::<[Val; 0]>().mb(|a| Val::List(a.into())),
            (1, 1) => rep.collect_exactly::<Box<[Val; 1]>>().mb(|a| Val::List((*a).into())),
            (1, _) => rep.collect_exactly::<[Val; 1]>().mb(|a| Val::List(a.into())),
            (2, 1) => rep.collect_exactly::<Box<[Val; 2]>>().mb(|a| Val::List((*a).into())),
            (2, 2) => rep.collect_exactly::<Box<Box<[Val; 2]>>>().mb(|a| Val::List((**a).into())),
            (2, _) => rep.collect_exactly::<[Val; 2]>().mb(|a| Val::List(a.into())),
            (3, 1) => rep.collect_exactly::<Box<[Val; 3]>>().mb(|a| Val::List((*a).into())),
            (3, _) => rep.collect_exactly::<[Val; 3]>().mb(|a| Val::List(a.into())),
            _ => rep.collect_exactly::<[Val; 4]>().mb(|a| Val::List(a.into())),
        },
        Sink::Enumerate => rep
            .enumerate()
            .collect::<Vec<(usize, Val)>>()
            .map(|v| {
                Val::List(v.into_iter().map(|(i, x)| Val::pair(Val::Num(i as u64), x)).collect())
            })
            .cb(),
        Sink::Foldl(init) => {
            let init = this.build(init);
            init.foldl(rep, Val::pair).cb()
        }
        Sink::Foldr(tail) => {
            let tail = this.build(tail);
            rep.foldr(tail, Val::pair).cb()
        }
        Sink::FoldlWith(init) => {
            let init = this.build(init);
            let os = this.obs_state;
            init.foldl_with(rep, move |a, b, e| {
                let (s, e2) = e.span().se();
                let v = Val::pair(Val::Span(s, e2), Val::pair(a, b));
                if os {
                    let st = e.state();
                    Val::St(st.n, st.h, Box::new(v))
                } else {
                    v
                }
            })
            .cb()
        }
        Sink::FoldrWith(tail) => {
            let tail = this.build(tail);
            let os = this.obs_state;
            rep.foldr_with(tail, move |a, b, e| {
                let (s, e2) = e.span().se();
                let v = Val::pair(Val::Span(s, e2), Val::pair(a, b));
                if os {
                    let st = e.state();
                    Val::St(st.n, st.h, Box::new(v))
                } else {
                    v
                }
            })
            .cb()
        }
    }
}

pub fn rep_node<'s, I: Kind<'s>, R: Er<'s, I>>(this: &mut Bld<'s, I, R>, r: &Rep) -> BP<'s, I, R> {
    let item = this.build(&r.item);
    this.hint = r.lo as usize + r.sep.is_some() as usize;
    let lo = r.lo as usize;
    let hi = r.hi.map(|h| h as usize);
    if let Sink::Str = r.sink {
        // String collection needs `char` items
        let item = item.map(|v: Val| v.first_tok().unwrap_or('\u{0}'));
        return match &r.sep {
            None => {
                // `exactly(n)` when both bounds coincide (the statement: "exactly(n) meaning both"), else at_least / at_most
                let mut rep = if (hi.map(|h| h as usize) == Some(lo) && lo != 2) { item.repeated().exactly(lo) } else { item.repeated().at_least(lo) };
                if let (Some(h), false) = (hi, (hi.map(|h| h as usize) == Some(lo) && lo != 2)) {
                    rep = rep.at_most(h);
                }
                rep.collect::<String>().mb(Val::Str)
            }
            Some(sep) => {
                let sep = this.build(sep);
                // `exactly(n)` when both bounds coincide (the statement: "exactly(n) meaning both"), else at_least / at_most
                let mut rep = if (hi.map(|h| h as usize) == Some(lo) && lo != 2) { item.separated_by(sep).exactly(lo) } else { item.separated_by(sep).at_least(lo) };
                if let (Some(h), false) = (hi, (hi.map(|h| h as usize) == Some(lo) && lo != 2)) {
                    rep = rep.at_most(h);
                }
                if r.leading {
                    rep = rep.allow_leading()
                }
                if r.trailing {
                    rep = rep.allow_trailing()
                }
                rep.collect::<String>().mb(Val::Str)
            }
        };
    }
    if r.ctxb != 0 {
        let mode = r.ctxb;
        return match mode {
            1 => {
                let rep = item.repeated().configure(move |c, ctx: &Val| c.exactly(ctx_num(ctx)));
                crate::build_c::sink_node(this, rep, &r.sink)
            }
            2 => {
                // static lower bound, upper bound from the context
                let rep = item.repeated().at_least(lo).configure(move |c, ctx: &Val| c.at_most(ctx_num(ctx)));
                crate::build_c::sink_node(this, rep, &r.sink)
            }
            _ => {
                let rep = item.repeated().try_configure(move |c, ctx: &Val, span| {
                    let n = ctx_num(ctx);
                    if n % 2 == 1 {
                        Err(R::custom(span, format!("K{}", n)))
                    } else {
                        Ok(c.exactly(n))
                    }
                });
                crate::build_c::sink_node(this, rep, &r.sink)
            }
        };
    }
    match &r.sep {
        None => {
            if r.cfg {
                // the same bounds, split between the static builder and the configuration closure in
                // four ways (all equivalent by the documentation of configure)
                let mode = (lo + hi.unwrap_or(7)) % 4;
                let mut stat = item.repeated();
                if mode == 1 || mode == 3 {
                    stat = stat.at_least(lo);
                }
                if let (Some(h), true) = (hi, mode == 2 || mode == 3) {
                    stat = stat.at_most(h);
                }
                let rep = stat.configure(move |c, _ctx: &Val| {
                    let c = if mode == 0 || mode == 2 { c.at_least(lo) } else { c };
                    match hi {
                        Some(h) if mode == 0 || mode == 1 => c.at_most(h),
                        _ => c,
                    }
                });
                crate::build_c::sink_node(this, rep, &r.sink)
            } else {
                // `exactly(n)` when both bounds coincide (the statement: "exactly(n) meaning both"), else at_least / at_most
                let mut rep = if (hi.map(|h| h as usize) == Some(lo) && lo != 2) { item.repeated().exactly(lo) } else { item.repeated().at_least(lo) };
                if let (Some(h), false) = (hi, (hi.map(|h| h as usize) == Some(lo) && lo != 2)) {
                    rep = rep.at_most(h);
                }
                crate::build_c::sink_node(this, rep, &r.sink)
            }
        }
        Some(sep) => {
            let sep = this.build(sep);
            // `exactly(n)` when both bounds coincide (the statement: "exactly(n) meaning both"), else at_least / at_most
            let mut rep = if (hi.map(|h| h as usize) == Some(lo) && lo != 2) { item.separated_by(sep).exactly(lo) } else { item.separated_by(sep).at_least(lo) };
            if let (Some(h), false) = (hi, (hi.map(|h| h as usize) == Some(lo) && lo != 2)) {
                rep = rep.at_most(h);
            }
            if r.leading {
                rep = rep.allow_leading()
            }
            if r.trailing {
                rep = rep.allow_trailing()
            }
            crate::build_c::sink_node(this, rep, &r.sink)
        }
    }
}


// ---------------------------------------------------------------------------------------------
// item sources joined by `then`, consumed as ONE IterParser (G::IterThen)

fn flat(vs: Vec<Val>, sink: u8) -> Val {
    let items: Vec<Val> = vs.into_iter().flat_map(|v| v.into_items()).collect();
    if sink == 0 {
        Val::List(items)
    } else {
        Val::Num(items.len() as u64)
    }
}

/// every part collected on its own, the lists concatenated
pub fn iter_then_fallback<'s, I: Kind<'s>, R: Er<'s, I>>(this: &mut Bld<'s, I, R>, parts: &[G], sink: u8) -> BP<'s, I, R> {
    let mut ps: Vec<BP<'s, I, R>> = parts.iter().map(|g| this.build(g)).collect();
    if ps.len() == 1 {
        let a = ps.pop().unwrap();
        a.map(move |x| flat(vec![x], sink)).cb()
    } else {
        let (b2, a) = (ps.pop().unwrap(), ps.pop().unwrap());
        a.then(b2).mb(move |(x, y)| flat(vec![x, y], sink))
    }
}

type StrP<'s, R> = BP<'s, &'s str, R>;
type ItemsFn = fn(Val) -> Vec<Val>;
enum Part<'s, R: Er<'s, &'s str>> {
    Rep(chumsky::combinator::Repeated<StrP<'s, R>, Val, &'s str, Ex<R>>),
    Sep(chumsky::combinator::SeparatedBy<StrP<'s, R>, StrP<'s, R>, Val, Val, &'s str, Ex<R>>),
    Opt(chumsky::combinator::OrNot<StrP<'s, R>>),
    It(chumsky::combinator::IntoIter<chumsky::combinator::Map<StrP<'s, R>, Val, ItemsFn>, Vec<Val>>),
}

fn items_of(v: Val) -> Vec<Val> {
    v.into_items()
}

fn part_of<'s, R: Er<'s, &'s str>>(this: &mut Bld<'s, &'s str, R>, g: &G) -> Part<'s, R> {
    match g {
        G::Rep(r) => {
            let item = this.build(&r.item);
            match &r.sep {
                None => {
                    // `exactly(n)` when both bounds coincide (the statement: "exactly(n) meaning both"), else at_least / at_most
                    let mut p = if (r.hi.map(|h| h as usize) == Some(r.lo as usize) && r.lo != 2) { item.repeated().exactly(r.lo as usize) } else { item.repeated().at_least(r.lo as usize) };
                    if let (Some(h), false) = (r.hi, (r.hi.map(|h| h as usize) == Some(r.lo as usize) && r.lo != 2)) {
                        p = p.at_most(h as usize);
                    }
                    Part::Rep(p)
                }
                Some(sep) => {
                    let sep = this.build(sep);
                    // `exactly(n)` when both bounds coincide (the statement: "exactly(n) meaning both"), else at_least / at_most
                    let mut p = if (r.hi.map(|h| h as usize) == Some(r.lo as usize) && r.lo != 2) { item.separated_by(sep).exactly(r.lo as usize) } else { item.separated_by(sep).at_least(r.lo as usize) };
                    if let (Some(h), false) = (r.hi, (r.hi.map(|h| h as usize) == Some(r.lo as usize) && r.lo != 2)) {
                        p = p.at_most(h as usize);
                    }
                    if r.leading {
                        p = p.allow_leading();
                    }
                    if r.trailing {
                        p = p.allow_trailing();
                    }
                    Part::Sep(p)
                }
            }
        }
        G::OrNot(a) => Part::Opt(this.build(a).or_not()),
        G::IntoIter(a, _) => Part::It(this.build(a).map(items_of as ItemsFn).into_iter()),
        other => unreachable!("not an item source: {:?}", other),
    }
}

fn fin<'s, R: Er<'s, &'s str>, P>(p: P, sink: u8) -> StrP<'s, R>
where
    P: IterParser<'s, &'s str, Val, Ex<R>> + Clone + 's,
{
    if sink == 0 {
        p.collect::<Vec<Val>>().mb(Val::List)
    } else {
        p.count().mb(|n| Val::Num(n as u64))
    }
}

macro_rules! with_part {
    ($p:expr, |$x:ident| $body:expr) => {
        match $p {
            Part::Rep($x) => $body,
            Part::Sep($x) => $body,
            Part::Opt($x) => $body,
            Part::It($x) => $body,
        }
    };
}

/// the real thing: `a.then(b)` of two item sources, consumed by one collect / count
pub fn iter_then_str<'s, R: Er<'s, &'s str>>(this: &mut Bld<'s, &'s str, R>, parts: &[G], sink: u8) -> StrP<'s, R> {
    let mut ps: Vec<Part<'s, R>> = parts.iter().map(|g| part_of(this, g)).collect();
    if ps.len() == 1 {
        let a = ps.pop().unwrap();
        with_part!(a, |x| fin::<R, _>(x, sink))
    } else {
        let (b2, a) = (ps.pop().unwrap(), ps.pop().unwrap());
        with_part!(a, |x| with_part!(b2, |y| fin::<R, _>(x.clone().then(y.clone()), sink)))
    }
}
