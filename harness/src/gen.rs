//! Generators. All randomness comes from a proptest-generated "choice tape" (a Vec<u32>); the
//! decoders below turn a tape into grammars and inputs *by construction* (well-formed grammars
//! only, no rejection). Index 0 of every choice is the simplest option and an exhausted tape
//! yields zeros, so shorter / smaller tapes mean simpler cases. The same decoders serve the
//! libFuzzer target (bytes -> tape).
use crate::grammar::*;

pub struct Tape<'a> {
    data: &'a [u32],
    i: usize,
}
impl<'a> Tape<'a> {
    pub fn new(data: &'a [u32]) -> Self {
        Tape { data, i: 0 }
    }
    pub fn raw(&mut self) -> u32 {
        let v = self.data.get(self.i).copied().unwrap_or(0);
        self.i += 1;
        v
    }
    /// monotone map of the next tape cell onto 0..n
    pub fn pick(&mut self, n: usize) -> usize {
        if n <= 1 {
            self.i += 1;
            return 0;
        }
        ((self.raw() as u64 * n as u64) >> 32) as usize
    }
    pub fn chance(&mut self, num: u32, den: u32) -> bool {
        // true with probability num/den; false (the "simple" outcome) on an exhausted tape
        let v = self.raw();
        v != 0 && (v as u64 * den as u64 >> 32) as u32 >= den - num
    }
    pub fn exhausted(&self) -> bool {
        self.i >= self.data.len()
    }
    pub fn weighted(&mut self, w: &[u32]) -> usize {
        let total: u32 = w.iter().sum();
        if total == 0 {
            return 0;
        }
        let mut x = self.pick(total as usize) as u32;
        for (i, wi) in w.iter().enumerate() {
            if x < *wi {
                return i;
            }
            x -= wi;
        }
        w.len() - 1
    }
}

pub const POOL: &[char] = &['a', 'b', 'c', ',', '(', ')', 'é', 'ü', '→', '⇒', '𝄞'];
pub const FOREIGN: char = 'z';

#[derive(Clone, Debug)]
pub struct GenCfg {
    pub max_depth: u32,
    pub max_nodes: u32,
    pub ascii_only: bool,
    // node families
    pub value_input: bool, // any / one_of / none_of / select / not / lazy need ValueInput
    pub semantic: bool,    // filter / try_map / try_map_with
    pub semantic_strict: bool, // ... only around choice-free, repetition-free sub-parsers
    pub lookahead: bool,   // not / and_is / rewind
    pub not: bool,
    pub custom: bool,
    pub ext: bool,
    pub slices: bool,
    pub spans: bool,
    pub rep: bool,
    pub rep_lo_gt_hi: bool,
    pub folds: bool,
    pub fold_with: bool,
    pub exactly: bool,
    pub cfg_rep: bool,
    pub validate: bool,
    pub recover: bool,
    pub nested_delims: bool,
    pub label: bool,
    pub map_err: bool,
    pub memo: bool,
    pub wraps: bool,
    pub rec: bool,
    pub lazy: bool,
    pub state_push: bool,
    pub state_obs: bool,
    pub with_state: bool,
    pub ctx: bool,
    pub track: bool,
    pub group_arr: bool,
    pub end_inside: bool,
    pub emit_in_andis_rhs: bool,
    /// item sources joined by then and consumed as one IterParser (or_not / into_iter / repeated)
    pub iter_then: bool,
    /// nested_in over group tokens (token-tree inputs, C16)
    pub nested: bool,
}

impl GenCfg {
    pub fn c01() -> GenCfg {
        GenCfg {
            max_depth: 5,
            max_nodes: 25,
            ascii_only: false,
            value_input: true,
            semantic: true,
            semantic_strict: false,
            lookahead: true,
            not: true,
            custom: true,
            ext: false,
            slices: false,
            spans: false,
            rep: false,
            rep_lo_gt_hi: false,
            folds: false,
            fold_with: false,
            exactly: false,
            cfg_rep: false,
            validate: false,
            recover: false,
            nested_delims: false,
            label: false,
            map_err: false,
            memo: false,
            wraps: false,
            rec: false,
            lazy: false,
            state_push: false,
            state_obs: false,
            with_state: false,
            ctx: false,
            track: false,
            group_arr: true,
            end_inside: true,
            emit_in_andis_rhs: false,
            iter_then: false,
            nested: false,
        }
    }
    /// every node family the builder supports (C04 / C20 registry class)
    pub fn all() -> GenCfg {
        let mut c = GenCfg::c02();
        c.ext = true;
        c.slices = true;
        c.spans = true;
        c.fold_with = true;
        c.validate = true;
        c.recover = true;
        c.nested_delims = true;
        c.label = true;
        c.map_err = true;
        c.memo = true;
        c.wraps = true;
        c.rec = true;
        c.lazy = true;
        c.state_push = true;
        c.state_obs = true;
        c.with_state = true;
        c.ctx = true;
        c.emit_in_andis_rhs = true;
        c
    }
    pub fn c02() -> GenCfg {
        let mut c = GenCfg::c01();
        c.rep = true;
        c.iter_then = true;
        c.folds = true;
        // the statement's "foldl and foldr" have *_with variants with their own implementations
        c.fold_with = true;
        c.exactly = true;
        c.cfg_rep = true;
        c
    }
}

pub struct GGen<'t, 'd> {
    pub t: &'t mut Tape<'d>,
    pub cfg: GenCfg,
    pub alpha: Vec<char>,
    nodes: u32,
    tag: u32,
    /// innermost recursive definitions: (id, guarded: a token was consumed since its entry)
    recs: Vec<(u8, bool)>,
    next_rec: u8,
}

impl<'t, 'd> GGen<'t, 'd> {
    pub fn new(t: &'t mut Tape<'d>, cfg: GenCfg) -> Self {
        // alphabet: 2..4 symbols of the pool
        let pool: Vec<char> =
            POOL.iter().copied().filter(|c| !cfg.ascii_only || c.is_ascii()).collect();
        let k = 2 + t.pick(3);
        let mut alpha = vec![];
        let start = t.pick(pool.len());
        let step = 1 + t.pick(3);
        let mut i = start;
        while alpha.len() < k {
            let c = pool[i % pool.len()];
            if !alpha.contains(&c) {
                alpha.push(c);
            }
            i += step;
            if i > start + 40 {
                i += 1;
            }
        }
        GGen { t, cfg, alpha, nodes: 0, tag: 0, recs: vec![], next_rec: 0 }
    }
    fn tag(&mut self) -> u32 {
        self.tag += 1;
        self.tag
    }
    fn ch(&mut self) -> char {
        let i = self.t.pick(self.alpha.len());
        self.alpha[i]
    }
    fn set(&mut self) -> String {
        let k = 1 + self.t.pick(self.alpha.len().min(3));
        let mut s = String::new();
        for _ in 0..k {
            let c = self.ch();
            if !s.contains(c) {
                s.push(c)
            }
        }
        s
    }
    fn seq(&mut self) -> String {
        let k = 1 + self.t.weighted(&[6, 3, 1]);
        (0..k).map(|_| self.ch()).collect()
    }
    fn pred(&mut self) -> Pred {
        match self.t.weighted(&[3, 3, 1, 1]) {
            0 => Pred::FirstIn(self.set()),
            1 => {
                let m = 2 + self.t.pick(2) as u8;
                Pred::DigestMod(m, self.t.pick(m as usize) as u8)
            }
            2 => Pred::Never,
            _ => Pred::Always,
        }
    }

    /// a primitive that consumes at least one token
    pub fn prim_consuming(&mut self) -> G {
        if !self.cfg.value_input {
            return G::Just(self.seq());
        }
        match self.t.weighted(&[6, 2, 3, 2, 2]) {
            0 => G::Just(self.seq()),
            1 => G::Any,
            2 => G::OneOf(self.set()),
            3 => G::NoneOf(self.set()),
            _ => G::Select(self.set()),
        }
    }

    fn prim(&mut self) -> G {
        let w_custom = if self.cfg.custom { 1 } else { 0 };
        let w_ext = if self.cfg.ext { 1 } else { 0 };
        let w_end = if self.cfg.end_inside { 1 } else { 0 };
        match self.t.weighted(&[12, 1, w_end, w_custom, w_ext]) {
            0 => self.prim_consuming(),
            1 => G::Empty,
            2 => G::End,
            3 => G::Custom { take: self.t.pick(3) as u8, ok: !self.t.chance(1, 3), tag: self.tag() },
            _ => G::Ext { take: self.t.pick(3) as u8, ok: !self.t.chance(1, 3), tag: self.tag() },
        }
    }

    /// a grammar that consumes at least one token on every success
    pub fn consuming(&mut self, depth: u32, guarded: bool) -> G {
        let g = self.gen(depth, guarded);
        if g.must_consume() {
            g
        } else {
            self.nodes += 2;
            let p = self.prim_consuming();
            if self.t.chance(1, 2) {
                G::ThenIgnore(b(g), b(p))
            } else {
                G::IgnoreThen(b(p), b(g))
            }
        }
    }

    fn simple_consuming(&mut self) -> G {
        // small consuming grammars for skip / until / separators
        if !self.cfg.value_input {
            return G::Just(self.seq());
        }
        match self.t.weighted(&[4, 2, 1]) {
            0 => G::OneOf(self.set()),
            1 => G::Just(self.seq()),
            _ => {
                if self.cfg.value_input {
                    G::Any
                } else {
                    G::Just(self.seq())
                }
            }
        }
    }

    fn choice_free(&mut self, depth: u32) -> G {
        // choice-free, repetition-free consuming sub-parser (C06 strict class)
        match self.t.weighted(&[5, 2, 1]) {
            0 => self.prim_consuming(),
            1 => {
                let a = self.prim_consuming();
                let c = if depth > 0 { self.choice_free(depth - 1) } else { self.prim_consuming() };
                G::Then(b(a), b(c))
            }
            _ => G::Map(b(self.prim_consuming()), self.tag()),
        }
    }

    pub fn gen(&mut self, depth: u32, guarded: bool) -> G {
        self.nodes += 1;
        if depth == 0 || self.nodes >= self.cfg.max_nodes {
            return self.leaf(guarded);
        }
        let c = self.cfg.clone();
        let w = |on: bool, w: u32| if on { w } else { 0 };
        let rec_ref_ok = self.recs.iter().any(|(_, g)| *g) || (guarded && !self.recs.is_empty());
        let weights = [
            8,                                   // 0 leaf
            10,                                  // 1 then family
            8,                                   // 2 or / choice
            4,                                   // 3 or_not
            w(c.lookahead && c.not && c.value_input, 2), // 4 not
            w(c.lookahead, 2),                   // 5 and_is
            w(c.lookahead, 2),                   // 6 rewind
            3,                                   // 7 delimited / padded_by
            4,                                   // 8 map / to / ignored
            w(c.semantic, 5),                    // 9 filter / try_map / try_map_with
            if c.rep { 10 } else { w(c.iter_then, 3) }, // 10 repetition (without `rep`: only or_not / into_iter item sources)
            w(c.validate, 6),                    // 11 validate
            w(c.recover, 6),                     // 12 recover_with
            w(c.label, 6),                       // 13 labelled
            w(c.map_err, 5),                     // 14 map_err
            w(c.memo, 6),                        // 15 memoized
            w(c.wraps, 3),                       // 16 wrappers
            w(c.rec && self.recs.len() < 2, 4),  // 17 recursive definition
            w(c.rec && rec_ref_ok, 6),           // 18 recursive reference
            w(c.slices, 3),                      // 19 to_slice / map_with(slice)
            w(c.spans, 3),                       // 20 to_span / map_with(span)
            w(c.state_push, 5),                  // 21 state push
            w(c.state_obs, 5),                   // 22 state observation
            w(c.with_state, 2),                  // 23 with_state
            w(c.ctx, 8),                         // 24 context nodes
            w(c.track, 6),                       // 25 tracked value
            2,                                   // 26 group
            w(c.lazy && c.value_input, 1),       // 27 lazy
            w(c.nested, 9),                      // 28 nested_in
        ];
        let d = depth - 1;
        match self.t.weighted(&weights) {
            0 => self.leaf(guarded),
            1 => {
                let a = self.gen(d, guarded);
                let g2 = guarded || a.must_consume();
                let c2 = self.gen(d, g2);
                match self.t.weighted(&[3, 2, 2]) {
                    0 => G::Then(b(a), b(c2)),
                    1 => G::IgnoreThen(b(a), b(c2)),
                    _ => G::ThenIgnore(b(a), b(c2)),
                }
            }
            2 => {
                let k = 2 + self.t.weighted(&[6, 3, 1]);
                let mut v = vec![];
                for _ in 0..k {
                    v.push(self.gen(d, guarded));
                }
                match self.t.weighted(&[4, 3, 2, 2]) {
                    0 if k == 2 => {
                        let c2 = v.pop().unwrap();
                        let a = v.pop().unwrap();
                        G::Or(b(a), b(c2))
                    }
                    0 | 1 => G::Choice(v),
                    2 => G::ChoiceVec(v),
                    _ => G::ChoiceArr(v),
                }
            }
            3 => G::OrNot(b(self.gen(d, guarded))),
            4 => G::Not(b(self.gen(d, guarded))),
            5 => {
                // user-state pushes are not placed under and_is / rewind: the input is moved backwards and
                // forwards again there, which only snapshot-style inspector states (C18) can follow
                let sp = std::mem::replace(&mut self.cfg.state_push, false);
                let a = self.gen(d, guarded);
                self.cfg.state_push = sp;
                let save = (self.cfg.validate, self.cfg.recover, self.cfg.state_push);
                if !self.cfg.emit_in_andis_rhs {
                    self.cfg.validate = false;
                    self.cfg.recover = false;
                    self.cfg.state_push = false;
                }
                let c2 = self.gen(d, guarded);
                (self.cfg.validate, self.cfg.recover, self.cfg.state_push) = save;
                G::AndIs(b(a), b(c2))
            }
            6 => {
                let sp = std::mem::replace(&mut self.cfg.state_push, false);
                let a = self.gen(d, guarded);
                self.cfg.state_push = sp;
                G::Rewind(b(a))
            }
            7 => {
                if self.t.chance(1, 2) {
                    let open = self.simple_consuming();
                    let inner = self.gen(d, true);
                    let close = self.simple_consuming();
                    G::Delim { inner: b(inner), open: b(open), close: b(close) }
                } else {
                    let pad = self.gen(d.min(1), guarded);
                    let inner = self.gen(d, guarded || pad.must_consume());
                    G::PaddedBy(b(inner), b(pad))
                }
            }
            8 => {
                let a = self.gen(d, guarded);
                match self.t.weighted(&[3, 2, 2, 1]) {
                    0 => G::Map(b(a), self.tag()),
                    1 => G::To(b(a), self.tag()),
                    2 => G::Ignored(b(a)),
                    _ => G::Unwrapped(b(a)),
                }
            }
            9 => {
                let a = if c.semantic_strict { self.choice_free(d.min(2)) } else { self.gen(d, guarded) };
                let p = self.pred();
                match self.t.weighted(&[3, 3, 2]) {
                    0 => G::Filter(b(a), p),
                    1 => G::TryMap(b(a), p, self.tag()),
                    _ => G::TryMapWith(b(a), p, self.tag()),
                }
            }
            10 => {
                if self.cfg.iter_then && (!self.cfg.rep || self.t.chance(1, 7)) {
                    // one or two item sources joined by then, consumed as one IterParser
                    let n = 1 + self.t.pick(2);
                    let mut parts = vec![];
                    let mut g2 = guarded;
                    for _ in 0..n {
                        let part = match self.t.weighted(&[if self.cfg.rep { 4 } else { 0 }, 3, 2]) {
                            0 => {
                                let mut r = self.gen_rep(d, g2);
                                r.sink = Sink::Vec;
                                r.cfg = false;
                                r.ctxb = 0;
                                if r.lo > r.hi.unwrap_or(255) {
                                    r.hi = Some(r.lo);
                                }
                                G::Rep(r)
                            }
                            1 => G::OrNot(b(self.gen(d, g2))),
                            _ => G::IntoIter(b(self.gen(d, g2)), 0),
                        };
                        g2 = g2 || part.must_consume();
                        parts.push(part);
                    }
                    G::IterThen(parts, self.t.pick(2) as u8)
                } else if self.cfg.exactly && self.t.chance(1, 8) {
                    // an IterParser that is not a repetition: into_iter() over the items of a value
                    let a = self.gen(d, guarded);
                    let k = self.t.weighted(&[2, 1, 1, 2, 2, 2, 1]) as u8;
                    G::IntoIter(b(a), k)
                } else {
                    G::Rep(self.gen_rep(d, guarded))
                }
            }
            11 => {
                let a = self.gen(d, guarded);
                G::Validate(b(a), self.tag(), 1 + self.t.weighted(&[4, 1]) as u8)
            }
            12 => {
                let a = self.gen(d, guarded);
                let s = self.gen_strat(d, guarded);
                G::Recover(b(a), s)
            }
            13 => {
                let a = self.gen(d, guarded);
                // a small pool of label texts: the same text then occurs at several levels of one grammar
                let l = format!("L{}", self.t.pick(3));
                G::Labelled(b(a), l, self.t.chance(1, 2))
            }
            14 => {
                let a = self.gen(d, guarded);
                G::MapErr(b(a), self.tag(), self.t.chance(1, 3))
            }
            15 => G::Memo(b(self.gen(d, guarded))),
            16 => {
                let a = self.gen(d, guarded);
                let w = match self.t.pick(if self.cfg.ext { 10 } else { 8 }) {
                    8 | 9 => Wrap::ExtOf,
                    0 => Wrap::Boxed,
                    1 => Wrap::BoxedTwice,
                    2 => Wrap::RcW,
                    3 => Wrap::BoxW,
                    4 => Wrap::ArcW,
                    5 => Wrap::EitherL,
                    6 => Wrap::EitherR,
                    _ => Wrap::Cloned,
                };
                G::Wrapped(b(a), w)
            }
            17 => {
                let id = self.next_rec;
                self.next_rec += 1;
                self.recs.push((id, false));
                let body = self.gen_rec_body(d);
                self.recs.pop();
                G::Rec(id, b(body))
            }
            18 => self.rec_ref(guarded),
            19 => {
                let a = self.gen(d, guarded);
                if self.t.chance(1, 2) {
                    G::ToSlice(b(a))
                } else {
                    G::MapSlice(b(a))
                }
            }
            20 => {
                let a = self.gen(d, guarded);
                if self.t.chance(1, 2) {
                    G::ToSpan(b(a))
                } else {
                    G::MapSpan(b(a))
                }
            }
            21 => G::StPush(b(self.gen(d, guarded)), self.tag()),
            22 => G::StObs(b(self.gen(d, guarded))),
            23 => {
                let save = self.cfg.state_push;
                let a = self.gen(d, guarded);
                self.cfg.state_push = save;
                G::WithState(b(a), 1 + self.t.pick(5) as u64)
            }
            24 => self.gen_ctx(d, guarded),
            25 => G::Track(b(self.gen(d, guarded)), self.tag()),
            26 => {
                let k = 2 + self.t.pick(3);
                let mut v = vec![];
                let mut g2 = guarded;
                for _ in 0..k {
                    let x = self.gen(d, g2);
                    g2 = g2 || x.must_consume();
                    v.push(x);
                }
                if self.cfg.group_arr && self.t.chance(1, 2) {
                    G::GroupArr(v)
                } else {
                    G::Group(v)
                }
            }
            27 => G::Lazy(b(self.gen(d, guarded))),
            _ => {
                // the group token is consumed before the inner parser runs on its children
                G::NestedIn(b(self.gen(d, true)))
            }
        }
    }

    fn leaf(&mut self, guarded: bool) -> G {
        if self.cfg.rec && !self.recs.is_empty() && (guarded || self.recs.iter().any(|(_, g)| *g)) && self.t.chance(1, 3) {
            return self.rec_ref(guarded);
        }
        if self.cfg.ctx && self.t.chance(1, 4) {
            return G::JustCfg(self.seq());
        }
        self.prim()
    }

    fn rec_ref(&mut self, guarded: bool) -> G {
        // only definitions for which a token has been consumed since their entry
        let ok: Vec<u8> = self
            .recs
            .iter()
            .filter(|(_, g)| *g || guarded)
            .map(|(id, _)| *id)
            .collect();
        if ok.is_empty() {
            return self.prim();
        }
        G::RecRef(ok[self.t.pick(ok.len())])
    }

    /// a recursive definition at the root (C12)
    pub fn force_rec(&mut self, d: u32) -> G {
        let id = self.next_rec;
        self.next_rec += 1;
        self.recs.push((id, false));
        let body = self.gen_rec_body(d);
        self.recs.pop();
        G::Rec(id, b(body))
    }

    fn gen_rec_body(&mut self, d: u32) -> G {
        // shapes that actually recurse: delimited self-reference, prefix chain, list
        let shape = self.t.weighted(&[4, 3, 3, 2]);
        let atom = self.prim_consuming();
        let mark_guarded = |s: &mut Self, on: bool| {
            if let Some(last) = s.recs.last_mut() {
                last.1 = on
            }
        };
        match shape {
            0 => {
                let open = G::Just(self.ch().to_string());
                let close = G::Just(self.ch().to_string());
                mark_guarded(self, true);
                let inner = self.gen(d, true);
                mark_guarded(self, false);
                G::Or(b(G::Delim { inner: b(inner), open: b(open), close: b(close) }), b(atom))
            }
            1 => {
                let pre = self.prim_consuming();
                mark_guarded(self, true);
                let rest = self.gen(d, true);
                mark_guarded(self, false);
                G::Or(b(G::Then(b(pre), b(rest))), b(atom))
            }
            2 => {
                let pre = self.prim_consuming();
                mark_guarded(self, true);
                let item = self.consuming(d, true);
                mark_guarded(self, false);
                let rep = Rep {
                    item: b(item),
                    sep: None,
                    leading: false,
                    trailing: false,
                    lo: 0,
                    hi: Some(3),
                    sink: Sink::Vec,
                    cfg: false,
                    ctxb: 0,
                };
                G::Or(b(G::IgnoreThen(b(pre), b(G::Rep(rep)))), b(atom))
            }
            _ => self.gen(d, false),
        }
    }

    pub fn gen_strat_pub(&mut self, d: u32, guarded: bool) -> Strat {
        self.gen_strat(d, guarded)
    }
    fn gen_strat(&mut self, d: u32, guarded: bool) -> Strat {
        let w_nested = if self.cfg.nested_delims && self.cfg.value_input { 2 } else { 0 };
        match self.t.weighted(&[4, 3, 3, w_nested]) {
            0 => {
                let g = self.gen(d.min(2), guarded);
                Strat::Via(b(G::To(b(g), 900 + self.tag())))
            }
            1 => Strat::SkipUntil {
                skip: b(self.simple_consuming()),
                until: b(self.gen_until()),
                tag: self.tag(),
            },
            2 => Strat::SkipRetry { skip: b(self.simple_consuming()), until: b(self.gen_until()) },
            _ => {
                let mut cs: Vec<char> = vec![];
                for c in ['(', ')', '[', ']', '{', '}'] {
                    cs.push(c);
                }
                let others = match self.t.pick(3) {
                    0 => vec![],
                    1 => vec![('[', ']')],
                    _ => vec![('[', ']'), ('{', '}')],
                };
                Strat::Nested { open: '(', close: ')', others, tag: self.tag() }
            }
        }
    }
    fn gen_until(&mut self) -> G {
        if !self.cfg.value_input {
            return if self.t.chance(1, 3) { G::End } else { G::Just(self.seq()) };
        }
        match self.t.weighted(&[4, 2, 2]) {
            0 => G::OneOf(self.set()),
            1 => G::Just(self.seq()),
            _ => G::End,
        }
    }

    fn gen_ctx(&mut self, d: u32, guarded: bool) -> G {
        match self.t.weighted(&[3, 3, 3, 2, 3]) {
            0 => {
                let a = self.gen(d, guarded);
                G::WithCtx(b(a), self.seq())
            }
            1 => {
                let a = self.ctx_provider(d, guarded);
                let c2 = self.gen(d, guarded || a.must_consume());
                G::ThenWithCtx(b(a), b(c2))
            }
            2 => {
                let a = self.ctx_provider(d, guarded);
                let c2 = self.gen(d, guarded || a.must_consume());
                G::IgnoreWithCtx(b(a), b(c2))
            }
            3 => {
                let a = self.gen(d, guarded);
                G::MapCtx(b(a), self.t.pick(3) as u8)
            }
            _ => G::CxObs(b(self.gen(d, guarded))),
        }
    }
    fn ctx_provider(&mut self, d: u32, guarded: bool) -> G {
        // providers whose output carries tokens (so that just(..).configure(seq) has something to use)
        match self.t.weighted(&[3, 2, 2]) {
            0 => G::OneOf(self.set()),
            1 => G::Any,
            _ => self.gen(d.min(1), guarded),
        }
    }

    pub fn gen_rep(&mut self, d: u32, guarded: bool) -> Rep {
        let item = self.consuming(d, guarded);
        let has_sep = self.t.chance(2, 5);
        let (leading, trailing) = if has_sep { (self.t.chance(1, 3), self.t.chance(1, 3)) } else { (false, false) };
        let sep = if has_sep {
            // a leading separator is tried before any item: it is then at the start of the repetition
            let sep_guarded = if leading { guarded } else { true };
            Some(b(if self.t.chance(3, 4) { self.simple_consuming() } else { self.gen(d.min(1), sep_guarded) }))
        } else {
            None
        };
        let mut lo = self.t.weighted(&[5, 3, 2, 1, 1]) as u8;
        let mut hi = match self.t.weighted(&[5, 1, 2, 2, 1, 1]) {
            0 => None,
            k => Some((k - 1) as u8),
        };
        if let Some(h) = hi {
            if h < lo && !self.cfg.rep_lo_gt_hi {
                // keep the interval non-empty (the empty-interval sub-domain is generated separately)
                if self.t.chance(1, 2) {
                    hi = Some(lo)
                } else {
                    lo = h
                }
            }
        }
        let fold_ok = self.cfg.folds;
        let sink_w = [
            8,
            3,
            3,
            2,
            3,
            if self.cfg.exactly { 3 } else { 0 },
            2,
            if fold_ok { 3 } else { 0 },
            if fold_ok { 3 } else { 0 },
            if self.cfg.fold_with && sep.is_none() { 2 } else { 0 },
            if self.cfg.fold_with && sep.is_none() { 2 } else { 0 },
        ];
        let sink = match self.t.weighted(&sink_w) {
            0 => Sink::Vec,
            1 => Sink::Str,
            2 => Sink::Count,
            3 => Sink::Unit,
            4 => Sink::Bare,
            5 => {
                // collect_exactly::<[T; N]>: the generator keeps at_least <= N and at_most <= N
                let n = match hi {
                    Some(h) => h.max(lo).min(4),
                    None => lo.max(self.t.pick(4) as u8).min(4),
                };
                if hi.is_none() || hi.unwrap() > n {
                    hi = Some(n);
                }
                if lo > n {
                    lo = n;
                }
                Sink::Exactly(n)
            }
            6 => Sink::Enumerate,
            7 => Sink::Foldl(b(self.gen(d.min(2), guarded))),
            8 => Sink::Foldr(b(self.gen(d.min(2), guarded))),
            9 => Sink::FoldlWith(b(self.gen(d.min(2), guarded))),
            _ => Sink::FoldrWith(b(self.gen(d.min(2), guarded))),
        };
        let cfg = self.cfg.cfg_rep && sep.is_none() && !matches!(sink, Sink::Str) && self.t.chance(1, 4);
        let ctxb = if self.cfg.ctx && !cfg && sep.is_none() && !matches!(sink, Sink::Str | Sink::Exactly(_)) && self.t.chance(1, 3) { 1 + self.t.pick(3) as u8 } else { 0 };
        if ctxb == 2 {
            // at_most(n) from context with a static lower bound; inputs that make the interval empty
            // (n < at_least) are C02's known finding KF-b and are skipped by the checks (counted)
            lo = lo.min(2);
        }
        Rep { item: b(item), sep, leading, trailing, lo, hi, sink, cfg, ctxb }
    }
}

// ---------------------------------------------------------------------------------------------
// inputs

/// Sample a sentence that the grammar is likely to accept (a heuristic: lookahead, predicates and
/// context are ignored).
pub fn sample(g: &G, t: &mut Tape, alpha: &[char], out: &mut Vec<char>, recs: &mut Vec<(u8, *const G)>, depth: u32) {
    use G::*;
    if out.len() > 40 {
        // long enough: recursive grammars would otherwise sample exponentially long sentences
        return;
    }
    let anyc = |t: &mut Tape| alpha[t.pick(alpha.len())];
    match g {
        Just(s) | JustCfg(s) => out.extend(s.chars()),
        Any => out.push(anyc(t)),
        OneOf(s) | Select(s) => {
            let cs: Vec<char> = s.chars().collect();
            if !cs.is_empty() {
                out.push(cs[t.pick(cs.len())])
            }
        }
        NoneOf(s) => {
            let cs: Vec<char> = alpha.iter().copied().filter(|c| !s.contains(*c)).collect();
            out.push(if cs.is_empty() { FOREIGN } else { cs[t.pick(cs.len())] })
        }
        End | Empty | Not(_) | Rewind(_) => {}
        Custom { take, .. } | Ext { take, .. } => {
            for _ in 0..*take {
                out.push(anyc(t))
            }
        }
        Then(a, c) | IgnoreThen(a, c) | ThenIgnore(a, c) | ThenWithCtx(a, c) | IgnoreWithCtx(a, c) => {
            sample(a, t, alpha, out, recs, depth);
            sample(c, t, alpha, out, recs, depth);
        }
        Group(v) | GroupArr(v) | IterThen(v, _) => v.iter().for_each(|x| sample(x, t, alpha, out, recs, depth)),
        Or(a, c) => {
            if t.chance(1, 2) {
                sample(c, t, alpha, out, recs, depth)
            } else {
                sample(a, t, alpha, out, recs, depth)
            }
        }
        Choice(v) | ChoiceVec(v) | ChoiceArr(v) => {
            if !v.is_empty() {
                let i = t.pick(v.len());
                sample(&v[i], t, alpha, out, recs, depth)
            }
        }
        OrNot(a) => {
            if t.chance(2, 3) {
                sample(a, t, alpha, out, recs, depth)
            }
        }
        AndIs(a, _) => sample(a, t, alpha, out, recs, depth),
        Delim { inner, open, close } => {
            sample(open, t, alpha, out, recs, depth);
            sample(inner, t, alpha, out, recs, depth);
            sample(close, t, alpha, out, recs, depth);
        }
        PaddedBy(a, p) => {
            sample(p, t, alpha, out, recs, depth);
            sample(a, t, alpha, out, recs, depth);
            sample(p, t, alpha, out, recs, depth);
        }
        Map(a, _) | To(a, _) | Ignored(a) | Filter(a, _) | TryMap(a, _, _) | TryMapWith(a, _, _)
        | ToSlice(a) | ToSpan(a) | MapSpan(a) | MapSlice(a) | Unwrapped(a) | IntoIter(a, _) | Validate(a, _, _)
        | Labelled(a, _, _) | MapErr(a, _, _) | Memo(a) | Wrapped(a, _) | StPush(a, _) | StObs(a)
        | WithState(a, _) | WithCtx(a, _) | MapCtx(a, _) | CxObs(a) | Track(a, _) | Lazy(a) => {
            sample(a, t, alpha, out, recs, depth)
        }
        Recover(a, _) => sample(a, t, alpha, out, recs, depth),
        NestedIn(a) => {
            out.push(GOPEN);
            sample(a, t, alpha, out, recs, depth);
            out.push(GCLOSE);
        }
        Rec(id, body) => {
            recs.push((*id, &**body as *const G));
            sample(body, t, alpha, out, recs, depth);
            recs.pop();
        }
        RecRef(id) => {
            if depth < 6 {
                if let Some((_, p)) = recs.iter().rev().find(|(i, _)| i == id).copied() {
                    // SAFETY: the pointer refers into the grammar being sampled, which outlives this call
                    let body: &G = unsafe { &*p };
                    sample(body, t, alpha, out, recs, depth + 1)
                }
            }
        }
        G::Rep(r) => {
            if let Sink::Foldl(i) | Sink::FoldlWith(i) = &r.sink {
                sample(i, t, alpha, out, recs, depth)
            }
            // item counts around the bounds
            let lo = r.lo as i32;
            let hi = r.hi.map(|h| h as i32).unwrap_or(lo + 2);
            let cands = [lo, hi, lo - 1, hi + 1, (lo + hi) / 2, lo + 1];
            let k = cands[t.pick(cands.len())].clamp(0, 6);
            if let (Some(sep), true) = (&r.sep, t.chance(1, 4)) {
                sample(sep, t, alpha, out, recs, depth)
            }
            for i in 0..k {
                if i > 0 {
                    if let Some(sep) = &r.sep {
                        sample(sep, t, alpha, out, recs, depth);
                        if t.chance(1, 10) {
                            sample(sep, t, alpha, out, recs, depth)
                        }
                    }
                }
                sample(&r.item, t, alpha, out, recs, depth);
            }
            if let (Some(sep), true) = (&r.sep, t.chance(1, 3)) {
                sample(sep, t, alpha, out, recs, depth)
            }
            if let Sink::Foldr(i) | Sink::FoldrWith(i) = &r.sink {
                sample(i, t, alpha, out, recs, depth)
            }
        }
    }
}

pub fn gen_input(g: &G, t: &mut Tape, alpha: &[char], max_len: usize) -> Vec<char> {
    let mut sym: Vec<char> = alpha.to_vec();
    sym.push(FOREIGN);
    let mut out = vec![];
    if t.chance(3, 5) {
        // derived sentence + 0..2 edits
        sample(g, t, alpha, &mut out, &mut vec![], 0);
        let edits = t.weighted(&[5, 3, 2]);
        for _ in 0..edits {
            let n = out.len();
            match t.pick(5) {
                0 if n > 0 => {
                    out.remove(t.pick(n));
                }
                1 => {
                    let c = sym[t.pick(sym.len())];
                    out.insert(t.pick(n + 1), c);
                }
                2 if n > 0 => {
                    let i = t.pick(n);
                    out[i] = sym[t.pick(sym.len())];
                }
                3 if n > 0 => {
                    out.truncate(t.pick(n));
                }
                4 if n > 0 => {
                    let i = t.pick(n);
                    let c = out[i];
                    out.insert(i, c);
                }
                _ => {}
            }
        }
    } else {
        let len = t.pick(max_len + 1);
        for _ in 0..len {
            out.push(sym[t.pick(sym.len())]);
        }
    }
    out.truncate(max_len.max(24));
    out
}

/// all strings over `sym` of length <= l, in length-lexicographic order
pub fn all_strings(sym: &[char], l: usize) -> Vec<Vec<char>> {
    let mut out = vec![vec![]];
    let mut prev = vec![vec![]];
    for _ in 0..l {
        let mut next = vec![];
        for p in &prev {
            for c in sym {
                let mut q: Vec<char> = p.clone();
                q.push(*c);
                next.push(q);
            }
        }
        out.extend(next.iter().cloned());
        prev = next;
    }
    out
}
