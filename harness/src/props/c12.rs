//! C12 -- recursive parsers equal their unrolling and nest to any depth.
use super::common::*;
use crate::build::*;
use crate::driver::*;
use crate::gen::*;
use crate::grammar::*;
use crate::run::*;
use crate::worker::{run_child, ChildResult};
use chumsky::pratt::*;
use chumsky::prelude::*;
use chumsky::recursive::{Indirect, Recursive};
use std::collections::HashMap;

pub const ID: &str = "C12";

pub const RULE: &str = "cases = (recursive grammar, input). (1) Generated grammars with 1..2 (mutually) recursive definitions, every reference guarded (a token is consumed between the start of a definition and any reference to it), of four body shapes (delimited self-reference, prefix chain, list, free) plus templates (paren nest, list nest, two mutually recursive definitions, recursion under choice / repetition / lookahead) on all strings over a 4-symbol alphabet up to length L and derived sentences nested to every depth 0..12 with edits: compared with the reference PEG evaluator (native recursion) on acceptance, output, consumed extents. (2) Unrolling, reference-free: the same grammar with every reference expanded to depth len(input)+1 and NO Recursive in it (guardedness bounds the needed depth) must give the identical output and error list. (3) Value independence: the parser built with recursive(), with Recursive::declare()/define(), and with a handle cloned BEFORE define whose declaring handle is then dropped; cloned, boxed, moved into Rc with the original dropped -- all must give the same results. (4) Depth: x | ( expr ), x | [ expr , .. ] and a Pratt prefix chain, recursive() and declare/define, in parse, check and to_slice (value-eliding) mode, balanced and truncated inputs, depths 10, 10^2, .. 10^5 (quick) and 3*10^5, 10^6 (thorough), each in a child process (address-space limit) on a thread with a deliberately SMALL 256 KiB native stack -- the library's stack guard makes nesting depth independent of the native stack, a recursion site that bypasses it overflows after a few thousand levels: the child must exit normally and report the right depth (resp. a reported error for truncated input). (5) define twice: histories over declare / define(g1) / define(g2) / clone / parse: the second define must panic naming the caller's location, and the parser keeps behaving as g1. Two depth-ladder shapes run a user callback with a 40 KiB stack frame at every level (depths 50, 2 000, 20 000). Every grammar is first built in all three styles inside the panic guard; a depth shape whose deepening recursive call is never the first one of its parent ([x,[x,[x,..]]], depths 1 000 and 100 000). NON-TRIVIAL = the reference recursed at least twice for that input, or entered the recursion and abandoned it by backtracking; distinct = distinct (sub-check, grammar, input).";

pub const ASSUMPTIONS: &[&str] = &[
    "reference PEG evaluator for part (1); part (2) needs no reference",
    "'limited by memory, not by the native stack' is sampled on a depth ladder up to 10^6, not shown for all depths",
    "a worker that is killed by a signal or runs out of its address-space limit is a violation; a watchdog expiry is inconclusive",
];

/// expand every RecRef `depth` times; the innermost references become a parser that is never reached
fn unroll(g: &G, env: &HashMap<u8, (G, usize)>, budget: &mut i64) -> Option<G> {
    *budget -= 1;
    if *budget < 0 {
        return None;
    }
    match g {
        G::Rec(id, body) => {
            let depth = env.get(&255).map(|x| x.1).unwrap_or(1);
            let mut env2 = env.clone();
            env2.insert(*id, ((**body).clone(), depth));
            unroll(body, &env2, budget)
        }
        G::RecRef(id) => {
            let (body, d) = env.get(id)?.clone();
            if d == 0 {
                return Some(G::Custom { take: 0, ok: false, tag: 999 });
            }
            let mut env2 = env.clone();
            env2.insert(*id, (body.clone(), d - 1));
            unroll(&body, &env2, budget)
        }
        _ => {
            let mut out = g.clone();
            let kids: Option<Vec<G>> = g.children().iter().map(|c| unroll(c, env, budget)).collect();
            let kids = kids?;
            for (slot, k) in out.children_mut().into_iter().zip(kids) {
                *slot = k;
            }
            Some(out)
        }
    }
}

fn check_inner(sub: &str, g: &G, toks: &[char], l: &mut Local) -> CaseRes {
    let case = || Case::new(ID, sub, g, toks);
    // exponentially backtracking cases are left out (the library has no fuel; counted)
    let pre = crate::reference::eval(g, toks, crate::reference::RefOpts::default());
    if pre.stats.evals > 8_000 || pre.stats.fuel_out {
        l.bump("skipped_expensive_backtracking");
        return Ok(());
    }
    // (0) the grammar can be BUILT in every style ("may be cloned, boxed and dropped freely": also while it is being defined)
    for (name, style) in [("recursive()", RecStyle::Func), ("declare/define", RecStyle::DeclareDefine), ("early clone, declaring handle dropped", RecStyle::EarlyClone)] {
        if quietly(|| drop(build_with::<&str, RichS>(g, false, style))).is_err() {
            let m = crate::run::LAST_PANIC.with(|p| p.borrow_mut().take()).unwrap_or_default();
            return fail(case, "C12/build-panic", format!("building the parser with {} panicked: {}", name, m));
        }
    }
    // (1) reference
    let r = peg_diff(ID, sub, "str", g, toks, l)?;
    if r.stats.fuel_out {
        return Ok(());
    }
    let si = StrIn::new(toks);
    let s: &str = &si.s;
    let base = {
        let p = build::<&str, RichS>(g, false);
        run_parse(&p, s)
    };
    // (3) styles and handles
    for (name, style) in [("declare/define", RecStyle::DeclareDefine), ("early clone, declaring handle dropped", RecStyle::EarlyClone)] {
        let p = build_with::<&str, RichS>(g, false, style);
        let o = run_parse(&p, s);
        let c = run_check(&p, s);
        l.evals += 2;
        if o.panic.is_some() || c.panic.is_some() {
            return fail(case, "C12/style-panic", format!("built with {}: panicked {:?} / {:?}", name, o.panic, c.panic));
        }
        if o.has_output != base.has_output || o.out != base.out || o.errs != base.errs {
            return fail(case, "C12/style", format!("built with {}: output {:?} errors {:?}, with recursive(): output {:?} errors {:?}", name, o.out, o.errs, base.out, base.errs));
        }
        if c.has_output != base.has_output || c.errs != base.errs {
            return fail(case, "C12/style-check", format!("built with {}: check() has_output={} errors {:?}, parse() of recursive(): has_output={} errors {:?}", name, c.has_output, c.errs, base.has_output, base.errs));
        }
        // clone, drop the original, box, Rc
        let p2 = p.clone();
        drop(p);
        let p3 = std::rc::Rc::new(p2.clone().boxed());
        drop(p2);
        let o3 = quietly(|| {
            let mut st = Insp::default();
            p3.parse_with_state(s, &mut st).into_output_errors()
        });
        l.evals += 1;
        match o3 {
            Err(_) => return fail(case, "C12/handle-panic", format!("{}: a clone used after the original was dropped panicked", name)),
            Ok((out, errs)) => {
                let errs: Vec<ErrDesc> = errs.iter().map(|e| <RichS as Er<&str>>::desc(e)).collect();
                if out != base.out || errs != base.errs {
                    return fail(case, "C12/handle", format!("{}: a boxed clone in an Rc (original dropped) gives output {:?} errors {:?} instead of {:?} {:?}", name, out, errs, base.out, base.errs));
                }
            }
        }
    }
    // (2) unrolling
    let mut env = HashMap::new();
    env.insert(255u8, (G::Empty, toks.len() + 1));
    let mut budget: i64 = std::env::var("C12_BUDGET").ok().and_then(|x| x.parse().ok()).unwrap_or(1500);
    if let Some(gu) = unroll(g, &env, &mut budget) {
        let pu = build::<&str, RichS>(&gu, false);
        let ou = run_parse(&pu, s);
        l.evals += 1;
        l.bump("compared_with_unrolling");
        if ou.panic.is_some() {
            return fail(case, "C12/panic", format!("the unrolled grammar panicked: {:?}", ou.panic));
        }
        if ou.has_output != base.has_output || ou.out != base.out || ou.errs != base.errs {
            return fail(case, "C12/unrolling", format!("recursive: output {:?} errors {:?}; unrolled to depth {}: output {:?} errors {:?}", base.out, base.errs, toks.len() + 1, ou.out, ou.errs));
        }
    } else {
        l.bump("unrolling_too_large_skipped");
    }
    let st = &r.stats;
    let nontrivial = st.max_rec_depth >= 2 || (st.rec_calls > 0 && st.backtracks > 0);
    l.bump(if r.accepted { "accepted" } else { "rejected" });
    if st.max_rec_depth >= 2 {
        l.bump("recursed_at_least_twice");
    }
    if st.max_rec_depth >= 5 {
        l.bump("recursed_at_least_five_deep");
    }
    if st.rec_calls > 0 && st.backtracks > 0 {
        l.bump("recursion_entered_and_backtracked");
    }
    if g.count_nodes(&|n| matches!(n, G::Rec(..))) >= 2 {
        l.bump("two_definitions");
    }
    l.note(g, toks, sub, nontrivial, || format!("accepted={} max recursion depth {} calls {}", r.accepted, st.max_rec_depth, st.rec_calls));
    Ok(())
}

pub fn check_case(case: &Case, l: &mut Local) -> Result<(), Fail> {
    if case.sub.starts_with("depth") {
        let e = &case.extra;
        let gs = |k: &str| e.get(k).and_then(|x| x.as_str()).unwrap_or("").to_string();
        let d = e.get("depth").and_then(|x| x.as_u64()).unwrap_or(10).to_string();
        let tr = if e.get("truncated").and_then(|x| x.as_bool()).unwrap_or(false) { "1" } else { "0" };
        let (shape, style, mode) = (gs("shape"), gs("style"), gs("mode"));
        l.evals += 1;
        return match run_child(&["depth", &shape, &style, &mode, &d, tr], 300, 12_000_000) {
            ChildResult::Ok(_) => Ok(()),
            ChildResult::Violation(m) => Err(Fail::new("C12/depth", m)),
            ChildResult::Inconclusive(m) => Err(Fail::new("C12/inconclusive", m)),
        };
    }
    if case.sub.starts_with("define") {
        return define_twice(l).map_err(|m| Fail::new("C12/define-twice", m));
    }
    check_inner(&case.sub, &case.g, &case.toks(), l).map_err(|(_, f)| f)
}

pub fn templates() -> Vec<G> {
    let j = |s: &str| G::Just(s.into());
    let then = |x: G, y: G| G::Then(b(x), b(y));
    let or = |x: G, y: G| G::Or(b(x), b(y));
    let rep = |item: G, sep: Option<G>| G::Rep(Rep { item: b(item), sep: sep.map(b), leading: false, trailing: true, lo: 0, hi: None, sink: Sink::Vec, cfg: false, ctxb: 0 });
    let e = |i: u8| G::RecRef(i);
    let mut out = vec![
        G::Rec(0, b(or(G::Delim { inner: b(e(0)), open: b(j("(")), close: b(j(")")) }, j("x")))),
        G::Rec(0, b(or(G::Delim { inner: b(rep(e(0), Some(j(",")))), open: b(j("(")), close: b(j(")")) }, j("x")))),
        G::Rec(0, b(or(then(j("("), then(G::OrNot(b(e(0))), j(")"))), j("x")))),
        G::Rec(0, b(then(j("x"), G::OrNot(b(then(j(","), e(0))))))),
        // mutual recursion: a = ( b ) | x ; b = a , b | a
        G::Rec(0, b(or(then(j("("), then(G::Rec(1, b(or(then(e(0), then(j(","), e(1))), e(0)))), j(")"))), j("x")))),
        // recursion under lookahead and with a partially matching first alternative
        G::Rec(0, b(or(then(j("("), then(e(0), j(")"))), or(then(j("("), then(e(0), j(","))), j("x"))))),
        G::Rec(0, b(then(G::AndIs(b(G::Any), b(G::NoneOf(")".into()))), G::OrNot(b(e(0)))))),
        then(G::Rec(0, b(or(then(j("("), then(e(0), j(")"))), j("x")))), rep(j(","), None)),
    ];
    out.retain(wf);
    out
}

pub fn decode(tape: &[u32]) -> (G, Vec<char>) {
    let mut t = Tape::new(tape);
    let (g, alpha) = {
        let mut c = GenCfg::c02();
        c.rec = true;
        c.max_nodes = 18;
        let mut gg = GGen::new(&mut t, c);
        let d = 2 + gg.t.pick(3) as u32;
        let mut g = gg.gen(d, false);
        if !g.any_node(&|n| matches!(n, G::Rec(..))) {
            // force a recursive definition at the root
            g = gg.force_rec(d);
        }
        (g, gg.alpha.clone())
    };
    let input = gen_input(&g, &mut t, &alpha, 14);
    (g, input)
}

// ---- (4) depth ladder, in child processes ----

type EC<'a> = extra::Err<Cheap>;

fn paren_func<'a>() -> impl Parser<'a, &'a str, usize, EC<'a>> + Clone {
    recursive(|e| e.delimited_by(just('('), just(')')).map(|d: usize| d + 1).or(just('x').to(0usize)))
}
fn paren_decl<'a>() -> impl Parser<'a, &'a str, usize, EC<'a>> + Clone {
    let mut e: Recursive<Indirect<'a, 'a, &'a str, usize, EC<'a>>> = Recursive::declare();
    let body = e.clone().delimited_by(just('('), just(')')).map(|d: usize| d + 1).or(just('x').to(0usize));
    e.define(body);
    e
}
fn list_func<'a>() -> impl Parser<'a, &'a str, usize, EC<'a>> + Clone {
    recursive(|e| {
        e.separated_by(just(','))
            .collect::<Vec<usize>>()
            .delimited_by(just('['), just(']'))
            .map(|v: Vec<usize>| 1 + v.into_iter().max().unwrap_or(0))
            .or(just('x').to(0usize))
    })
}
fn list_decl<'a>() -> impl Parser<'a, &'a str, usize, EC<'a>> + Clone {
    let mut e: Recursive<Indirect<'a, 'a, &'a str, usize, EC<'a>>> = Recursive::declare();
    let body = e
        .clone()
        .separated_by(just(','))
        .collect::<Vec<usize>>()
        .delimited_by(just('['), just(']'))
        .map(|v: Vec<usize>| 1 + v.into_iter().max().unwrap_or(0))
        .or(just('x').to(0usize));
    e.define(body);
    e
}
/// a user callback with a large stack frame (a 40 KiB scratch buffer): safe at every depth as long as the guard keeps its
/// documented reserve below every recursion level, fatal once the reserve is smaller than what one level may use
#[inline(never)]
fn fat(d: usize) -> usize {
    let mut buf = [0u8; 40 * 1024];
    buf[d % buf.len()] = d as u8;
    let b = std::hint::black_box(&mut buf);
    d + 1 + (b[(d * 7 + 1) % b.len()] as usize) * 0
}
fn fat_func<'a>() -> impl Parser<'a, &'a str, usize, EC<'a>> + Clone {
    recursive(|e| e.delimited_by(just('('), just(')')).map(fat).or(just('x').to(0usize)))
}
fn fat_decl<'a>() -> impl Parser<'a, &'a str, usize, EC<'a>> + Clone {
    let mut e: Recursive<Indirect<'a, 'a, &'a str, usize, EC<'a>>> = Recursive::declare();
    let body = e.clone().delimited_by(just('('), just(')')).map(fat).or(just('x').to(0usize));
    e.define(body);
    e
}
fn pratt_prefix<'a>() -> impl Parser<'a, &'a str, usize, EC<'a>> + Clone {
    just('x').to(0usize).pratt((prefix(1, just('-'), |_, d: usize, _| d + 1),))
}

pub fn depth_worker(shape: &str, style: &str, mode: &str, depth: usize, truncated: bool) -> i32 {
    // The parse runs on a thread with a SMALL native stack (256 KiB): with the library's stack guard
    // (stacker: a new 1 MiB segment whenever less than 64 KiB is left) every recursion level is
    // independent of the native stack, so this must work exactly like on a big stack; a recursion
    // site that bypasses the guard overflows after a few thousand levels instead of a few hundred
    // thousand. An overflow kills the process with a signal, which the parent reports.
    let (shape, style, mode) = (shape.to_string(), style.to_string(), mode.to_string());
    std::thread::Builder::new()
        .stack_size(256 * 1024)
        .spawn(move || depth_worker_inner(&shape, &style, &mode, depth, truncated))
        .expect("cannot spawn the depth thread")
        .join()
        .unwrap_or(1)
}

fn depth_worker_inner(shape: &str, style: &str, mode: &str, depth: usize, truncated: bool) -> i32 {
    let input: String = match shape {
        "paren" | "fat" => format!("{}x{}", "(".repeat(depth), ")".repeat(if truncated { depth.saturating_sub(1) } else { depth })),
        "list" => format!("{}x{}", "[".repeat(depth), "]".repeat(if truncated { depth.saturating_sub(1) } else { depth })),
        // every level has a sibling BEFORE the element that nests further: [x,[x,[x, ... ]]]
        "sib" => format!("{}x{}", "[x,".repeat(depth), "]".repeat(if truncated { depth.saturating_sub(1) } else { depth })),
        _ => format!("{}{}", "-".repeat(depth), if truncated { "" } else { "x" }),
    };
    fn run<'a, P: Parser<'a, &'a str, usize, EC<'a>>>(p: P, mode: &str, input: &'a str) -> (Option<usize>, usize, bool) {
        match mode {
            "parse" => {
                let (o, e) = p.parse(input).into_output_errors();
                (o, e.len(), false)
            }
            "check" => {
                let r = p.check(input);
                let ok = r.has_output();
                let n = r.errors().len();
                (None, n, ok)
            }
            _ => {
                let q = p.to_slice().map(|s: &str| s.len());
                let (o, e) = q.parse(input).into_output_errors();
                (o, e.len(), false)
            }
        }
    }
    let (out, nerr, check_ok) = match (shape, style) {
        ("paren", "func") => run(paren_func(), mode, &input),
        ("paren", _) => run(paren_decl(), mode, &input),
        ("fat", "func") => run(fat_func(), mode, &input),
        ("fat", _) => run(fat_decl(), mode, &input),
        ("list", "func") | ("sib", "func") => run(list_func(), mode, &input),
        ("sib", _) => run(list_decl(), mode, &input),
        ("list", _) => run(list_decl(), mode, &input),
        _ => run(pratt_prefix(), mode, &input),
    };
    let expect_ok = !(truncated && depth > 0);
    let good = if expect_ok {
        nerr == 0
            && match mode {
                "parse" => out == Some(depth),
                "check" => check_ok,
                _ => out == Some(input.len()),
            }
    } else {
        nerr >= 1 && out.is_none() && !check_ok
    };
    if good {
        println!("DEPTH-OK {} {} {} depth={} truncated={}", shape, style, mode, depth, truncated);
        0
    } else {
        println!("DEPTH-VIOLATION {} {} {} depth={} truncated={}: output {:?}, {} errors, check_ok={}", shape, style, mode, depth, truncated, out, nerr, check_ok);
        1
    }
}

// ---- (5) define twice ----

fn define_twice(l: &mut Local) -> Result<(), String> {
    type E2<'a> = extra::Err<Rich<'a, char>>;
    // histories: where the clones are taken and where the parse happens relative to the second define
    for history in 0..6u32 {
        let mut r: Recursive<Indirect<&str, String, E2>> = Recursive::declare();
        let early = r.clone();
        let g1 = just::<_, &str, E2>('a').then(r.clone().or_not()).to_slice().map(|s: &str| s.to_string());
        r.define(g1);
        if history & 1 == 1 {
            let o = r.parse("aa").into_result();
            if o != Ok("aa".to_string()) {
                return Err(format!("history {}: after define(g1) the parser gives {:?} on \"aa\"", history, o));
            }
        }
        let line = line!() + 3;
        let mut target = if history & 2 == 2 { early.clone() } else { r.clone() };
        let res = quietly(std::panic::AssertUnwindSafe(|| {
            target.define(just::<_, &str, E2>('b').to_slice().map(|s: &str| s.to_string()));
        }));
        l.evals += 1;
        match res {
            Ok(()) => return Err(format!("history {}: a second define() was accepted silently", history)),
            Err(_) => {
                let msg = crate::run::LAST_PANIC.with(|p| p.borrow_mut().take()).unwrap_or_default();
                if !msg.contains("defined once") {
                    return Err(format!("history {}: the second define() panicked with an unrelated message: {}", history, msg));
                }
                if !msg.contains("c12.rs") || !msg.contains(&format!(":{}", line)) {
                    return Err(format!("history {}: the panic does not name the definition site (src/props/c12.rs:{}): {}", history, line, msg));
                }
            }
        }
        // the parser still behaves as g1, through every handle
        for (which, h) in [("declaring handle", r.clone()), ("early clone", early.clone()), ("clone taken for the second define", target.clone())] {
            let o = h.parse("aaa").into_result();
            let e = h.parse("b").has_errors();
            if o != Ok("aaa".to_string()) || !e {
                return Err(format!("history {}: after the refused redefinition the {} no longer behaves as g1 (\"aaa\" -> {:?}, \"b\" rejected = {})", history, which, o, e));
            }
        }
        l.bump("define_twice_histories");
    }
    Ok(())
}

pub fn run(tier: Tier, seed: u64) -> i32 {
    let ctx = Ctx::new(ID, tier, seed);
    ctx.replay_corpus(&check_case);
    let ts = templates();
    let strings = all_strings(&['(', ')', 'x', ','], ctx.pick(5, 7));
    ctx.with_local(|l| {
        l.add("templates", ts.len() as u64);
        l.add("strings_per_template", strings.len() as u64);
    });
    // deep derived sentences for the templates: nesting depth 0..D with one edit
    let maxd = ctx.pick(9usize, 12usize);
    let deep: Vec<Vec<char>> = (0..=maxd)
        .flat_map(|d| {
            let base: Vec<char> = format!("{}x{}", "(".repeat(d), ")".repeat(d)).chars().collect();
            let mut v = vec![base.clone()];
            for k in 0..base.len() {
                let mut w = base.clone();
                w.remove(k);
                v.push(w);
                let mut w2 = base.clone();
                w2.insert(k, ',');
                v.push(w2);
            }
            v
        })
        .collect();
    let mut jobs: Vec<(usize, &'static str, Vec<Vec<char>>)> = vec![];
    for (i, _) in ts.iter().enumerate() {
        for ch in strings.chunks(64) {
            jobs.push((i, "template", ch.to_vec()));
        }
        for ch in deep.chunks(16) {
            jobs.push((i, "template-deep", ch.to_vec()));
        }
    }
    ctx.par_jobs(&jobs, |(i, sub, ss), l| {
        for s in ss {
            check_inner(sub, &ts[*i], s, l)?;
        }
        Ok(())
    });
    let n = ctx.pick(1_000_000, 6_000_000);
    ctx.par_random(n, 200, 12, |tape, l| {
        let (g, input) = decode(tape);
        debug_assert!(wf(&g), "ill-formed: {}", render(&g));
        check_inner("rand", &g, &input, l)
    });
    // (5)
    ctx.with_local(|l| {
        if let Err(m) = define_twice(l) {
            let c = Case::new(ID, "define-twice", &G::Empty, &[]);
            let mut l2 = Local::default();
            ctx.judge(&mut l2, Err((c, Fail::new("C12/define-twice", m))));
        }
    });
    // (4) depth ladder
    let depths: Vec<usize> = if ctx.quick() { vec![10, 100, 1_000, 10_000, 100_000] } else { vec![10, 100, 1_000, 10_000, 100_000, 300_000, 1_000_000] };
    let mut jobs: Vec<(String, String, String, usize, bool)> = vec![];
    for (shape, styles) in [("paren", vec!["func", "decl"]), ("list", vec!["func", "decl"]), ("pratt", vec!["func"])] {
        for style in styles {
            for mode in ["parse", "check", "slice"] {
                for d in &depths {
                    for tr in [false, true] {
                        if tr && *d != *depths.last().unwrap() && *d != 10 {
                            continue;
                        }
                        jobs.push((shape.into(), style.into(), mode.into(), *d, tr));
                    }
                }
            }
        }
    }
    // a sibling recursive call returns before the deepening one is made, at every level
    for style in ["func", "decl"] {
        for mode in ["parse", "check"] {
            for d in [1_000usize, 100_000] {
                jobs.push(("sib".into(), style.into(), mode.into(), d, false));
            }
        }
    }
    // callbacks with a 40 KiB frame at every level (parse mode: the callback must run)
    for style in ["func", "decl"] {
        for d in [50usize, 2_000, 20_000] {
            jobs.push(("fat".into(), style.into(), "parse".into(), d, false));
        }
    }
    ctx.with_local(|l| l.add("depth_ladder_runs", jobs.len() as u64));
    ctx.par_jobs(&jobs, |(shape, style, mode, d, tr), l| {
        let ds = d.to_string();
        let trs = if *tr { "1" } else { "0" };
        let args = ["depth", shape.as_str(), style.as_str(), mode.as_str(), ds.as_str(), trs];
        l.evals += 1;
        match run_child(&args, 300, 12_000_000) {
            ChildResult::Ok(_) => {
                l.bump("deep_inputs_survived");
                if *d >= 100_000 {
                    l.bump("depth_1e5_or_more_survived");
                }
                Ok(())
            }
            ChildResult::Violation(m) => {
                let mut c = Case::new(ID, "depth", &G::Empty, &[]);
                c.extra = serde_json::json!({"shape": shape, "style": style, "mode": mode, "depth": d, "truncated": tr});
                Err((c, Fail::new("C12/depth", format!("{} {} {} at depth {} (truncated={}): {}", shape, style, mode, d, tr, m))))
            }
            ChildResult::Inconclusive(m) => {
                *ctx.inconclusive.lock().unwrap() = Some(m);
                Ok(())
            }
        }
    });
    ctx.finish(&check_case, RULE, ASSUMPTIONS, &|l| {
        for k in ["recursed_at_least_twice", "recursed_at_least_five_deep", "recursion_entered_and_backtracked", "two_definitions", "compared_with_unrolling", "define_twice_histories", "depth_1e5_or_more_survived"] {
            if l.counters.get(k).copied().unwrap_or(0) == 0 {
                return Err(format!("class '{}' is empty", k));
            }
        }
        Ok(())
    })
}

/// one generated case from a raw choice tape (the coverage-guided tier feeds tapes decoded from bytes)
pub fn fuzz_one(tape: &[u32], l: &mut Local) -> CaseRes {
    let (g, input) = decode(tape);
    if !wf(&g) {
        return Ok(());
    }
    check_inner("rand", &g, &input, l)
}
