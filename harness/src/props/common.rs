//! Helpers shared by the property checks.
use crate::build::*;
use crate::compare::*;
use crate::driver::*;
use crate::grammar::*;
use crate::reference::{self, RefOpts, RefOut};
use crate::run::*;
use chumsky::error::{EmptyErr, Rich};

pub type RichS<'s> = Rich<'s, char, chumsky::span::SimpleSpan>;

pub fn any_rest() -> G {
    G::ToSlice(b(G::Rep(Rep {
        item: b(G::Any),
        sep: None,
        leading: false,
        trailing: false,
        lo: 0,
        hi: None,
        sink: Sink::Bare,
        cfg: false,
    })))
}

pub fn with_rest(g: &G) -> G {
    G::Then(b(g.clone()), b(any_rest()))
}

pub fn ref_plain(g: &G, toks: &[char]) -> RefOut {
    reference::eval(g, toks, RefOpts::default())
}
pub fn ref_obs(g: &G, toks: &[char]) -> RefOut {
    reference::eval(g, toks, RefOpts { observed: true, ..RefOpts::default() })
}

/// run `f` with the &str input kind
pub struct StrIn {
    pub s: String,
    pub toks: Vec<char>,
    pub sm: SpanMap,
}
impl StrIn {
    pub fn new(toks: &[char]) -> StrIn {
        StrIn { s: toks.iter().collect(), toks: toks.to_vec(), sm: SpanMap::for_str(toks) }
    }
    pub fn base(&self) -> usize {
        self.s.as_ptr() as usize
    }
}

pub fn fail(case: impl FnOnce() -> Case, sig: &str, msg: String) -> CaseRes {
    Err((case(), Fail::new(sig, msg)))
}

/// Small grammars for the bounded-exhaustive tier: all trees of at most three combinator nodes over
/// a handful of primitives.
pub fn small_grammars(with_rep: bool) -> Vec<G> {
    let prims = vec![
        G::Just("a".into()),
        G::Just("ab".into()),
        G::Any,
        G::End,
        G::OneOf("bc".into()),
    ];
    let un = |k: usize, g: &G| -> G {
        match k {
            0 => G::OrNot(b(g.clone())),
            1 => G::Not(b(g.clone())),
            2 => G::Rewind(b(g.clone())),
            3 => G::Filter(b(g.clone()), Pred::FirstIn("a".into())),
            4 => G::TryMap(b(g.clone()), Pred::FirstIn("a".into()), 1),
            _ => G::TryMapWith(b(g.clone()), Pred::FirstIn("b".into()), 2),
        }
    };
    let bin = |k: usize, x: &G, y: &G| -> G {
        match k {
            0 => G::Then(b(x.clone()), b(y.clone())),
            1 => G::IgnoreThen(b(x.clone()), b(y.clone())),
            2 => G::ThenIgnore(b(x.clone()), b(y.clone())),
            3 => G::Or(b(x.clone()), b(y.clone())),
            4 => G::AndIs(b(x.clone()), b(y.clone())),
            5 => G::ChoiceVec(vec![x.clone(), y.clone()]),
            _ => G::Delim { inner: b(y.clone()), open: b(x.clone()), close: b(x.clone()) },
        }
    };
    let mut t1: Vec<G> = prims.clone();
    for p in &prims {
        for k in 0..6 {
            t1.push(un(k, p));
        }
    }
    let mut out: Vec<G> = t1.clone();
    for x in &t1 {
        for y in &t1 {
            for k in 0..7 {
                out.push(bin(k, x, y));
            }
        }
    }
    for x in &prims {
        for y in &prims {
            for k in 0..5 {
                let inner = bin(k, x, y);
                for u in 0..6 {
                    out.push(un(u, &inner));
                }
            }
        }
    }
    if with_rep {
        for x in &t1 {
            if !x.must_consume() {
                continue;
            }
            for (lo, hi) in [(0u8, None), (1, None), (0, Some(2u8)), (2, Some(2))] {
                let rep = Rep { item: b(x.clone()), sep: None, leading: false, trailing: false, lo, hi, sink: Sink::Vec, cfg: false };
                out.push(G::Rep(rep.clone()));
                out.push(G::Then(b(G::Rep(rep)), b(G::Just("a".into()))));
            }
        }
    }
    out.retain(wf);
    out
}

pub fn is_clean_accept(o: &ImplOut) -> bool {
    o.panic.is_none() && o.has_output && o.errs.is_empty()
}

#[allow(dead_code)]
pub fn unused(_: EmptyErr) {}
