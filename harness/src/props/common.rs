//! Helpers shared by the property checks.
use crate::build::*;
use crate::compare::*;
use crate::driver::*;
use crate::grammar::*;
use crate::reference::{self, RefOpts, RefOut};
use crate::run::*;
use crate::reference::RefOut as RO;
use chumsky::error::{EmptyErr, Rich};

pub type RichS<'s> = Rich<'s, char, chumsky::span::SimpleSpan>;

pub fn any_rest() -> G {
    G::ToSlice(b(G::Rep(Rep {
        item: b(G::Any),
        sep: None,
        leading: false,
        trailing: false,
        lo: 0,
        hi: None,
        sink: Sink::Bare,
        cfg: false,
        ctxb: 0,
    })))
}

pub fn with_rest(g: &G) -> G {
    G::Then(b(g.clone()), b(any_rest()))
}

pub fn ref_plain(g: &G, toks: &[char]) -> RefOut {
    reference::eval(g, toks, RefOpts::default())
}
pub fn ref_obs(g: &G, toks: &[char]) -> RefOut {
    reference::eval(g, toks, RefOpts { observed: true, ..RefOpts::default() })
}

/// run `f` with the &str input kind
pub struct StrIn {
    pub s: String,
    pub toks: Vec<char>,
    pub sm: SpanMap,
}
impl StrIn {
    pub fn new(toks: &[char]) -> StrIn {
        StrIn { s: toks.iter().collect(), toks: toks.to_vec(), sm: SpanMap::for_str(toks) }
    }
    pub fn base(&self) -> usize {
        self.s.as_ptr() as usize
    }
}

pub fn fail(case: impl FnOnce() -> Case, sig: &str, msg: String) -> CaseRes {
    Err((case(), Fail::new(sig, msg)))
}

/// Small grammars for the bounded-exhaustive tier: all trees of at most three combinator nodes over
/// a handful of primitives.
pub fn small_grammars(with_rep: bool) -> Vec<G> {
    let prims = vec![
        G::Just("a".into()),
        G::Just("ab".into()),
        G::Any,
        G::End,
        G::OneOf("bc".into()),
    ];
    let un = |k: usize, g: &G| -> G {
        match k {
            0 => G::OrNot(b(g.clone())),
            1 => G::Not(b(g.clone())),
            2 => G::Rewind(b(g.clone())),
            3 => G::Filter(b(g.clone()), Pred::FirstIn("a".into())),
            4 => G::TryMap(b(g.clone()), Pred::FirstIn("a".into()), 1),
            _ => G::TryMapWith(b(g.clone()), Pred::FirstIn("b".into()), 2),
        }
    };
    let bin = |k: usize, x: &G, y: &G| -> G {
        match k {
            0 => G::Then(b(x.clone()), b(y.clone())),
            1 => G::IgnoreThen(b(x.clone()), b(y.clone())),
            2 => G::ThenIgnore(b(x.clone()), b(y.clone())),
            3 => G::Or(b(x.clone()), b(y.clone())),
            4 => G::AndIs(b(x.clone()), b(y.clone())),
            5 => G::ChoiceVec(vec![x.clone(), y.clone()]),
            _ => G::Delim { inner: b(y.clone()), open: b(x.clone()), close: b(x.clone()) },
        }
    };
    let mut t1: Vec<G> = prims.clone();
    for p in &prims {
        for k in 0..6 {
            t1.push(un(k, p));
        }
    }
    let mut out: Vec<G> = t1.clone();
    for x in &t1 {
        for y in &t1 {
            for k in 0..7 {
                out.push(bin(k, x, y));
            }
        }
    }
    for x in &prims {
        for y in &prims {
            for k in 0..5 {
                let inner = bin(k, x, y);
                for u in 0..6 {
                    out.push(un(u, &inner));
                }
            }
        }
    }
    if with_rep {
        for x in &t1 {
            if !x.must_consume() {
                continue;
            }
            for (lo, hi) in [(0u8, None), (1, None), (0, Some(2u8)), (2, Some(2))] {
                let rep = Rep { item: b(x.clone()), sep: None, leading: false, trailing: false, lo, hi, sink: Sink::Vec, cfg: false, ctxb: 0 };
                out.push(G::Rep(rep.clone()));
                out.push(G::Then(b(G::Rep(rep)), b(G::Just("a".into()))));
            }
        }
    }
    out.retain(wf);
    out
}

pub fn is_clean_accept(o: &ImplOut) -> bool {
    o.panic.is_none() && o.has_output && o.errs.is_empty()
}

#[allow(dead_code)]
pub fn unused(_: EmptyErr) {}

pub fn differential<'s, I: Kind<'s> + Clone>(
    id: &str,
    sub: &str,
    g: &G,
    toks: &[char],
    mk: &dyn Fn() -> I,
    sm: &SpanMap,
    base: usize,
    r_plain: &RO,
    r_obs: &RO,
    l: &mut Local,
) -> CaseRes {
    let case = || Case::new(id, sub, g, toks);
    macro_rules! bail {
        ($sig:expr, $($a:tt)*) => {
            return fail(case, $sig, format!($($a)*))
        };
    }
    // plain build, Rich
    let p = build::<I, chumsky::error::Rich<'s, I::Tok, I::Spn>>(g, false);
    let o = run_parse(&p, mk());
    l.evals += 1;
    if let Some(m) = &o.panic {
        bail!(&format!("{}/panic", id), "parse panicked: {}", m);
    }
    let acc = is_clean_accept(&o);
    if acc != r_plain.accepted {
        bail!(
            &format!("{}/accept-parse", id),
            "parse {} the input but the PEG reading {} it (impl output {:?}, errors {:?}; reference prefix {:?})",
            if acc { "accepts" } else { "rejects" },
            if r_plain.accepted { "accepts" } else { "rejects" },
            o.out,
            o.errs,
            r_plain.prefix
        );
    }
    if !acc && (o.has_output || o.errs.is_empty()) {
        bail!(&format!("{}/result-shape", id), "rejected input: has_output={} errors={:?}", o.has_output, o.errs);
    }
    if acc {
        let rv = &r_plain.prefix.as_ref().unwrap().0;
        if let Err(m) = cmp_val(rv, o.out.as_ref().unwrap(), sm, base) {
            bail!(&format!("{}/value", id), "output differs from the PEG reading: {} (impl {:?}, reference {:?})", m, o.out, rv);
        }
    }
    let c = run_check(&p, mk());
    l.evals += 1;
    if let Some(m) = &c.panic {
        bail!(&format!("{}/panic", id), "check panicked: {}", m);
    }
    if is_clean_accept(&c) != r_plain.accepted {
        bail!(&format!("{}/accept-check", id), "check {} but the PEG reading {}", c.has_output, r_plain.accepted);
    }
    // the by-reference primitives (any_ref / select_ref!) in place of any / select!, where the kind has them
    if I::BORROW && g.any_node(&|n| matches!(n, G::Any | G::Select(_))) {
        let mut bb = Bld::<I, chumsky::error::Rich<'s, I::Tok, I::Spn>>::new(g, false);
        bb.borrow_prims = true;
        let pb = bb.build(g);
        let ob = run_parse(&pb, mk());
        let cb = run_check(&pb, mk());
        l.evals += 2;
        l.bump("by_reference_primitive_builds");
        if ob.panic.is_some() || cb.panic.is_some() {
            bail!(&format!("{}/panic", id), "any_ref / select_ref build panicked: {:?} {:?}", ob.panic, cb.panic);
        }
        if is_clean_accept(&ob) != r_plain.accepted || is_clean_accept(&cb) != r_plain.accepted {
            bail!(&format!("{}/accept-ref-prims", id), "with any_ref / select_ref: parse/check accept = {}/{} but the PEG reading = {} (errors {:?})", is_clean_accept(&ob), is_clean_accept(&cb), r_plain.accepted, ob.errs);
        }
        if is_clean_accept(&ob) {
            let rv = &r_plain.prefix.as_ref().unwrap().0;
            if let Err(m) = cmp_val(rv, ob.out.as_ref().unwrap(), sm, base) {
                bail!(&format!("{}/value-ref-prims", id), "output with any_ref / select_ref differs: {}", m);
            }
        }
        if ob.errs != o.errs {
            bail!(&format!("{}/errors-ref-prims", id), "errors with any_ref / select_ref {:?} differ from those with any / select {:?}", ob.errs, o.errs);
        }
    }
    // zero-sized error type: separate fast paths in the failure bookkeeping
    let pe = build::<I, EmptyErr>(g, false);
    let oe = run_parse(&pe, mk());
    let ce = run_check(&pe, mk());
    l.evals += 2;
    if oe.panic.is_none() && ce.panic.is_none() {
        if is_clean_accept(&oe) != r_plain.accepted || is_clean_accept(&ce) != r_plain.accepted {
            bail!(
                &format!("{}/accept-emptyerr", id),
                "with EmptyErr parse/check accept = {}/{} but the PEG reading = {}",
                is_clean_accept(&oe),
                is_clean_accept(&ce),
                r_plain.accepted
            );
        }
        if is_clean_accept(&oe) {
            let rv = &r_plain.prefix.as_ref().unwrap().0;
            if let Err(m) = cmp_val(rv, oe.out.as_ref().unwrap(), sm, base) {
                bail!(&format!("{}/value-emptyerr", id), "output with EmptyErr differs: {}", m);
            }
        }
    } else {
        // panics with zero-sized errors are C20's business (known finding F8); counted here
        l.bump("emptyerr_panics_left_to_C20");
    }
    // observed build: the consumed extent of every sub-parser on the successful path
    let po = build::<I, chumsky::error::Rich<'s, I::Tok, I::Spn>>(g, true);
    let oo = run_parse(&po, mk());
    l.evals += 1;
    if let Some(m) = &oo.panic {
        bail!(&format!("{}/panic", id), "observed parse panicked: {}", m);
    }
    if is_clean_accept(&oo) != r_obs.accepted {
        bail!(&format!("{}/accept-observed", id), "wrapping nodes in map_with changed acceptance: {} vs {}", is_clean_accept(&oo), r_obs.accepted);
    }
    if r_obs.accepted {
        let rv = &r_obs.prefix.as_ref().unwrap().0;
        let iv = oo.out.as_ref().unwrap();
        if let Err(m) = cmp_val(rv, iv, sm, base) {
            bail!(&format!("{}/extent", id), "consumed extent of a sub-parser differs from the PEG reading: {} (impl {:?}, reference {:?})", m, iv, rv);
        }
    }
    Ok(())
}


/// Admissible reference variants for a case (DESIGN.md 3.1): the default reading plus the
/// alternatives of every under-specified corner the evaluation actually touched.
pub fn variants(g: &G, toks: &[char]) -> Vec<RefOpts> {
    let base = reference::eval(g, toks, RefOpts::default());
    let mut v = vec![RefOpts::default()];
    if base.stats.used_vlead {
        let n = v.len();
        for i in 0..n {
            let mut o = v[i].clone();
            o.vlead_alt = true;
            v.push(o);
        }
    }
    if base.stats.used_vtrailcap {
        let n = v.len();
        for i in 0..n {
            let mut o = v[i].clone();
            o.vtrailcap_alt = true;
            v.push(o);
        }
    }
    v
}

/// The PEG differential on one (grammar, input) pair: acceptance, value, extents, remainder.
/// `kind` = "str" or "slice". Returns the reference result of the default variant.
pub fn peg_diff(id: &str, sub: &str, kind: &str, g: &G, toks: &[char], l: &mut Local) -> Result<RO, (Case, Fail)> {
    let vs = variants(g, toks);
    let mut first_err = None;
    let mut first_ref = None;
    for (vi, opts) in vs.iter().enumerate() {
        let r_plain = reference::eval(g, toks, opts.clone());
        if r_plain.stats.fuel_out {
            l.bump("skipped_fuel");
            return Ok(r_plain);
        }
        let r_obs = reference::eval(g, toks, RefOpts { observed: true, ..opts.clone() });
        let res: CaseRes = if kind == "slice" {
            let v: Vec<char> = toks.to_vec();
            let sm = SpanMap::for_index(v.len(), std::mem::size_of::<char>());
            let sl: &[char] = &v;
            differential::<&[char]>(id, sub, g, toks, &|| sl, &sm, sl.as_ptr() as usize, &r_plain, &r_obs, l)
        } else {
            let si = StrIn::new(toks);
            let s: &str = &si.s;
            let mut r = differential::<&str>(id, sub, g, toks, &|| s, &si.sm, si.base(), &r_plain, &r_obs, l);
            if r.is_ok() {
                // how much a successful prefix match consumed, observed through g.then(rest)
                let g2 = with_rest(g);
                let r2 = reference::eval(&g2, toks, opts.clone());
                let p2 = build::<&str, RichS>(&g2, false);
                let o2 = run_parse(&p2, s);
                l.evals += 1;
                if let Some(m) = &o2.panic {
                    r = fail(|| Case::new(id, sub, g, toks), &format!("{}/panic", id), format!("g.then(rest) panicked: {}", m));
                } else if is_clean_accept(&o2) != r2.accepted {
                    r = fail(
                        || Case::new(id, sub, g, toks),
                        &format!("{}/prefix-accept", id),
                        format!("g.then(rest) accept={} but the PEG reading={} (errors {:?}, reference prefix {:?})", is_clean_accept(&o2), r2.accepted, o2.errs, r2.prefix),
                    );
                } else if r2.accepted {
                    let rv = &r2.prefix.as_ref().unwrap().0;
                    if let Err(m) = cmp_val(rv, o2.out.as_ref().unwrap(), &si.sm, si.base()) {
                        r = fail(
                            || Case::new(id, sub, g, toks),
                            &format!("{}/prefix-consumed", id),
                            format!("a successful prefix match consumed a different amount: {} (impl {:?}, reference {:?})", m, o2.out, rv),
                        );
                    }
                }
            }
            r
        };
        match res {
            Ok(()) => {
                if vi > 0 {
                    l.bump("matched_admissible_variant");
                }
                return Ok(first_ref.unwrap_or(r_plain));
            }
            Err(e) => {
                if first_err.is_none() {
                    first_err = Some(e);
                    first_ref = Some(r_plain);
                }
            }
        }
    }
    Err(first_err.unwrap())
}

/// Recursive grammars can backtrack exponentially (PEG without memoization; the library has no fuel): cases whose
/// reference evaluation needs more than `limit` node evaluations are left out and counted.
pub fn too_expensive(g: &G, toks: &[char], limit: u64, l: &mut Local) -> bool {
    if !g.any_node(&|n| matches!(n, G::Rec(..))) {
        return false;
    }
    let pre = reference::eval(g, toks, RefOpts::default());
    if pre.stats.evals > limit || pre.stats.fuel_out {
        l.bump("skipped_expensive_backtracking");
        return true;
    }
    false
}


/// the same case on every other input representation (C10's comparison against the slice baseline: Stream plain / boxed,
/// arrays, mapped token-span inputs with gapped spans, IterInput, IoInput, with_context, map_span), reported under `id`
pub fn kinds_case(id: &str, g: &G, toks: &[char], seed: u64, l: &mut Local) -> CaseRes {
    // slices exist on two of the kinds only and are compared by address: those grammars stay with their own check
    if g.any_node(&|n| matches!(n, G::ToSlice(_) | G::MapSlice(_))) {
        l.bump("kinds_skipped_slice_nodes");
        return Ok(());
    }
    l.bump("cases_run_on_every_input_kind");
    super::c10::check_inner("rand", g, toks, seed, l).map_err(|(mut c, f)| {
        c.prop = id.into();
        c.sub = "kinds".into();
        c.extra = serde_json::json!({ "gap_seed": seed });
        (c, Fail::new(f.sig.replace("C10/", &format!("{}/input-kind/", id)), f.msg))
    })
}
