//! C02 -- repetition and separators honour bounds, greediness and leading/trailing rules.
use super::common::*;
use crate::driver::*;
use crate::gen::*;
use crate::grammar::*;

pub const ID: &str = "C02";

pub const RULE: &str = "cases = (grammar, input). (a) configuration grid, enumerated completely: at_least in 0..4 x at_most in {none,0..4} (non-empty intervals) x allow_leading x allow_trailing x consumer in {collect Vec, collect String, count, collect (), bare Parser<()>, collect_exactly [_;N], enumerate, foldl, foldr} for 3 fixed (item, separator) pairs (incl. an item that can start like the separator, and a two-token separator) plus 3 items under plain repeated() with and without configure(), each followed by a remainder-capturing parser, on every string over {a , b} up to length L (L=5 quick, 7 thorough); (b) the empty-interval sub-domain at_least > at_most, kept apart; (c) random tier: repetitions whose item / separator are generated C01-class grammars (items consuming), bounds 0..4, all consumers, configure() at random, with derived inputs having k-1, k, k+1 items around each bound and leading / trailing / doubled separators. Compared with the reference: accept, collected value (order via non-commutative folds, enumerate indices), unconsumed remainder. Admissible variants V-lead / V-trail-cap (DESIGN.md 3.1) are both accepted. foldl_with / foldr_with are consumers of the grid and of the random class; exactly(n) is used wherever both bounds coincide; a statically typed family collects into every Container the library implements (Vec, String, usize, (), LinkedList, VecDeque, HashSet, BTreeSet, HashMap, BTreeMap, Box / Cell / RefCell of a container, via repeated, separated_by and enumerate) on every string over {a b c , x} up to length 5 / 6 against the item sequence the statement gives. One random case in sixteen also runs on every other input representation (C10's comparison against the slice baseline). NON-TRIVIAL = the item count is within 1 of a bound when the repetition stops, or a separator was present immediately before a failing item (leading / trailing / dangling separator); distinct = distinct (sub-check, grammar, input).";

pub const ASSUMPTIONS: &[&str] = &[
    "the reference repetition loop in harness/src/reference.rs implements the statement literally (greedy, possessive, succeed iff lo <= count <= hi, separators only between accepted items or where the flags permit)",
    "collect_exactly::<[T;N]> is generated with at_least <= N and at_most <= N (what happens when more than N items are available is not specified)",
    "known finding KF-b (at_least > at_most succeeds with at_most items) is confined to its own sub-domain and listed in known_findings.json",
];

fn check_inner(sub: &str, g: &G, toks: &[char], l: &mut Local) -> CaseRes {
    let kind = if sub.ends_with("slice") { "slice" } else { "str" };
    let empty_interval = g.any_node(&|n| matches!(n, G::Rep(r) if r.hi.map(|h| h < r.lo).unwrap_or(false)));
    let res = peg_diff(ID, sub, kind, g, toks, l);
    let r = match res {
        Ok(r) => r,
        Err((case, f)) => {
            if empty_interval {
                // attribute: the only listed deviation in this sub-domain is "succeeds although the
                // interval [at_least, at_most] is empty"
                let sig = if f.sig.ends_with("accept-parse") || f.sig.ends_with("prefix-accept") || f.sig.ends_with("accept-check") || f.sig.ends_with("accept-emptyerr") || f.sig.ends_with("accept-observed") {
                    "C02/empty-interval-accepts".to_string()
                } else {
                    f.sig.clone()
                };
                return Err((case, Fail::new(sig, f.msg)));
            }
            return Err((case, f));
        }
    };
    let st = &r.stats;
    let nontrivial = st.rep_at_bound > 0 || st.sep_boundary > 0;
    l.bump(if r.accepted { "accepted" } else { "rejected" });
    if st.rep_at_bound > 0 {
        l.bump("count_at_a_bound");
    }
    if st.sep_boundary > 0 {
        l.bump("separator_before_failing_item");
    }
    if st.used_vlead {
        l.bump("corner_V_lead");
    }
    if st.used_vtrailcap {
        l.bump("corner_V_trail_cap");
    }
    if empty_interval {
        l.bump("empty_interval_subdomain");
    }
    l.note(g, toks, sub, nontrivial, || format!("reference: accepted={} prefix={:?}", r.accepted, r.prefix));
    Ok(())
}

pub fn check_case(case: &Case, l: &mut Local) -> Result<(), Fail> {
    if case.sub == "kinds" {
        let seed = case.extra.get("gap_seed").and_then(|p| p.as_u64()).unwrap_or(1);
        return kinds_case(ID, &case.g, &case.toks(), seed, l).map_err(|(_, f)| f);
    }
    if case.sub == "containers-static" {
        return containers_case(&case.input, l).map_err(|(_, f)| f);
    }
    check_inner(&case.sub, &case.g, &case.toks(), l).map_err(|(_, f)| f)
}

fn sinks() -> Vec<Sink> {
    vec![
        Sink::Vec,
        Sink::Str,
        Sink::Count,
        Sink::Unit,
        Sink::Bare,
        Sink::Enumerate,
        Sink::Foldl(b(G::Just("b".into()))),
        Sink::Foldr(b(G::Just("b".into()))),
    ]
}

/// the configuration grid (non-empty intervals); `empty` selects the at_least > at_most sub-domain
pub fn grid(empty: bool) -> Vec<G> {
    let pairs: Vec<(G, Option<G>)> = vec![
        (G::Just("a".into()), Some(G::Just(",".into()))),
        (G::OneOf("a,".into()), Some(G::Just(",".into()))),
        (G::Just("a".into()), Some(G::Just(",,".into()))),
        (G::Just("a".into()), None),
        (G::OneOf("ab".into()), None),
        (G::Then(b(G::Just("a".into())), b(G::OrNot(b(G::Just(",".into()))))), None),
    ];
    let mut out = vec![];
    for (item, sep) in &pairs {
        for lo in 0u8..=4 {
            for hi in [None, Some(0u8), Some(1), Some(2), Some(3), Some(4)] {
                let is_empty = hi.map(|h| h < lo).unwrap_or(false);
                if is_empty != empty {
                    continue;
                }
                let flagsets: Vec<(bool, bool)> =
                    if sep.is_some() { vec![(false, false), (true, false), (false, true), (true, true)] } else { vec![(false, false)] };
                for (leading, trailing) in flagsets {
                    let mut ss = sinks();
                    if sep.is_none() {
                        ss.push(Sink::FoldlWith(b(G::Just("b".into()))));
                        ss.push(Sink::FoldrWith(b(G::Just("b".into()))));
                    }
                    // collect_exactly with N = at_most (or at_least when unbounded)
                    if let Some(h) = hi {
                        if h <= 4 && lo <= h {
                            ss.push(Sink::Exactly(h));
                        }
                    }
                    for sink in ss {
                        for cfg in [false, true] {
                            if cfg && (sep.is_some() || matches!(sink, Sink::Str)) {
                                continue;
                            }
                            let rep = Rep {
                                item: b(item.clone()),
                                sep: sep.clone().map(b),
                                leading,
                                trailing,
                                lo,
                                hi,
                                sink: sink.clone(),
                                cfg,
                                ctxb: 0,
                            };
                            out.push(G::Then(b(G::Rep(rep)), b(any_rest())));
                        }
                    }
                }
            }
        }
    }
    // item sources joined by then and consumed as ONE IterParser: every pair of {repeated, separated_by,
    // or_not, into_iter} shapes (and each alone), collect and count (only in the non-empty grid)
    if !empty {
        let j = |s: &str| G::Just(s.into());
        let rep = |item: G, sep: Option<G>, lo: u8, hi: Option<u8>, leading: bool, trailing: bool| G::Rep(Rep { item: b(item), sep: sep.map(b), leading, trailing, lo, hi, sink: Sink::Vec, cfg: false, ctxb: 0 });
        let sources: Vec<G> = vec![
            rep(j("a"), None, 0, None, false, false),
            rep(j("a"), None, 1, Some(2), false, false),
            rep(j("ab"), None, 0, None, false, false),
            rep(j("a"), Some(j(",")), 0, None, false, true),
            rep(j("b"), Some(j(",")), 1, None, true, false),
            G::OrNot(b(j("a"))),
            G::OrNot(b(j("ab"))),
            G::OrNot(b(G::Then(b(j("a")), b(j(","))))),
            G::IntoIter(b(G::OrNot(b(j("b")))), 0),
            G::IntoIter(b(rep(j("b"), None, 0, Some(2), false, false)), 0),
            G::IntoIter(b(G::Then(b(j("a")), b(j("b")))), 0),
        ];
        for x in &sources {
            for k in 0..2u8 {
                out.push(G::Then(b(G::IterThen(vec![x.clone()], k)), b(any_rest())));
                for y in &sources {
                    out.push(G::Then(b(G::IterThen(vec![x.clone(), y.clone()], k)), b(any_rest())));
                }
            }
        }
    }
    out.retain(wf);
    out
}


// ---------------------------------------------------------------------------------------------
// "collect ... see exactly that item sequence": every Container the library implements, against the Vec collection
// (statically typed; the builder collects into Vec / String / usize / () / arrays only)

fn containers_case(s: &str, l: &mut Local) -> CaseRes {
    use chumsky::prelude::*;
    use std::collections::*;
    type E<'a> = extra::Err<Rich<'a, char>>;
    let toks: Vec<char> = s.chars().collect();
    let case = |name: &str| {
        let mut c = Case::new(ID, "containers-static", &G::Empty, &toks);
        c.extra = serde_json::json!({ "container": name });
        c
    };
    let item = || one_of::<_, &str, E>("abc");
    let rest = || any::<&str, E>().repeated();
    // the item sequence by the statement: the longest run of items, at most 3
    let run: Vec<char> = toks.iter().copied().take_while(|c| "abc".contains(*c)).take(3).collect();
    let seprun: Vec<char> = {
        // a (',' a)* -- a separator only between two accepted items
        let mut v = vec![];
        let mut i = 0;
        while i < toks.len() && "abc".contains(toks[i]) {
            v.push(toks[i]);
            if toks.get(i + 1) == Some(&',') && toks.get(i + 2).map(|c| "abc".contains(*c)) == Some(true) {
                i += 2;
            } else {
                break;
            }
        }
        v
    };
    macro_rules! cmp {
        ($name:expr, $p:expr, $want:expr) => {{
            let name: &str = $name;
            let p = $p.then_ignore(rest());
            let r = crate::run::quietly(|| (p.parse(s).into_output(), p.check(s).has_output()));
            l.evals += 2;
            let Ok((got, chk)) = r else {
                return Err((case(name), Fail::new("C02/panic", format!("collect into {} panicked on {:?}", name, s))));
            };
            let want = Some($want);
            if got != want || !chk {
                return Err((case(name), Fail::new("C02/container", format!("collect::<{}>() on {:?}: {:?} but the items are {:?} (check accepts = {})", name, s, got, want, chk))));
            }
            l.bump("container_collections_checked");
        }};
    }
    let rep = || item().repeated().at_most(3);
    cmp!("Vec<char>", rep().collect::<Vec<char>>(), run.clone());
    cmp!("String", rep().collect::<String>(), run.iter().collect::<String>());
    cmp!("usize", rep().collect::<usize>(), run.len());
    cmp!("()", rep().collect::<()>(), ());
    cmp!("LinkedList<char>", rep().collect::<LinkedList<char>>(), run.iter().copied().collect::<LinkedList<char>>());
    cmp!("VecDeque<char>", rep().collect::<VecDeque<char>>(), run.iter().copied().collect::<VecDeque<char>>());
    cmp!("HashSet<char>", rep().collect::<HashSet<char>>(), run.iter().copied().collect::<HashSet<char>>());
    cmp!("BTreeSet<char>", rep().collect::<BTreeSet<char>>(), run.iter().copied().collect::<BTreeSet<char>>());
    cmp!("Box<Vec<char>>", rep().collect::<Box<Vec<char>>>(), Box::new(run.clone()));
    cmp!("RefCell<Vec<char>>", rep().collect::<std::cell::RefCell<Vec<char>>>().map(|c| c.into_inner()), run.clone());
    cmp!("Cell<usize>", rep().collect::<std::cell::Cell<usize>>().map(|c| c.into_inner()), run.len());
    // maps keep the LAST value of a key: items in input order
    let pairs: Vec<(char, usize)> = run.iter().copied().enumerate().map(|(i, c)| (c, i)).collect();
    let prep = || item().map_with(|c, e| (c, e.span().start)).repeated().at_most(3);
    cmp!("HashMap<char, usize>", prep().collect::<HashMap<char, usize>>(), pairs.iter().copied().collect::<HashMap<char, usize>>());
    cmp!("BTreeMap<char, usize>", prep().collect::<BTreeMap<char, usize>>(), pairs.iter().copied().collect::<BTreeMap<char, usize>>());
    cmp!("Vec<(usize, char)> via enumerate", rep().enumerate().collect::<Vec<(usize, char)>>(), run.iter().copied().enumerate().collect::<Vec<_>>());
    // the same through separated_by
    let srep = || item().separated_by(just(','));
    cmp!("separated_by: Vec<char>", srep().collect::<Vec<char>>(), seprun.clone());
    cmp!("separated_by: VecDeque<char>", srep().collect::<VecDeque<char>>(), seprun.iter().copied().collect::<VecDeque<char>>());
    cmp!("separated_by: usize", srep().count(), seprun.len());
    // into_iter() used directly as a parser: the value is dropped, the extent is the inner parser's
    cmp!("into_iter() bare", rep().collect::<Vec<char>>().into_iter().to_slice(), &s[..run.len()]);
    Ok(())
}

pub fn decode(tape: &[u32]) -> (G, Vec<char>, &'static str) {
    let mut t = Tape::new(tape);
    let sub = if t.chance(1, 5) { "slice" } else { "str" };
    let (g, alpha) = {
        let mut gg = GGen::new(&mut t, GenCfg::c02());
        let d = 1 + gg.t.pick(3) as u32;
        let g = if gg.t.chance(4, 5) {
            let r = gg.gen_rep(d, false);
            let g = G::Rep(r);
            match gg.t.pick(4) {
                0 => g,
                1 => G::Then(b(g), b(gg.prim_consuming())),
                2 => G::Then(b(gg.prim_consuming()), b(g)),
                _ => G::Then(b(g), b(any_rest())),
            }
        } else {
            gg.gen(d + 1, false)
        };
        (g, gg.alpha.clone())
    };
    let input = gen_input(&g, &mut t, &alpha, 14);
    (g, input, sub)
}

pub fn run(tier: Tier, seed: u64) -> i32 {
    let ctx = Ctx::new(ID, tier, seed);
    ctx.replay_corpus(&check_case);
    let strings = all_strings(&['a', ',', 'b'], ctx.pick(5, 7));
    let gs = grid(false);
    ctx.with_local(|l| {
        l.add("grid_configurations", gs.len() as u64);
        l.add("grid_strings_per_configuration", strings.len() as u64);
    });
    ctx.par_jobs(&gs, |g, l| {
        for s in &strings {
            check_inner("grid", g, s, l)?;
        }
        Ok(())
    });
    // the empty-interval sub-domain, on a smaller string set
    let ge = grid(true);
    let strings_e = all_strings(&['a', ',', 'b'], ctx.pick(3, 5));
    ctx.with_local(|l| l.add("empty_interval_configurations", ge.len() as u64));
    ctx.par_jobs(&ge, |g, l| {
        for s in &strings_e {
            check_inner("empty-interval", g, s, l)?;
        }
        Ok(())
    });
    // every Container implementation against the Vec collection, every short string
    let cstrings: Vec<String> = all_strings(&['a', 'b', 'c', ',', 'x'], ctx.pick(5, 6)).into_iter().map(|v| v.into_iter().collect()).collect();
    let cchunks: Vec<&[String]> = cstrings.chunks(64).collect();
    ctx.par_jobs(&cchunks, |ch, l| {
        for s in ch.iter() {
            containers_case(s, l)?;
        }
        Ok(())
    });
    let n = ctx.pick(1_000_000, 6_000_000);
    ctx.par_random(n, 200, 2, |tape, l| {
        let (g, input, sub) = decode(tape);
        debug_assert!(wf(&g), "generator produced an ill-formed grammar: {}", render(&g));
        check_inner(sub, &g, &input, l)?;
        // one case in sixteen: every other input representation too (C10's comparison against the slice baseline)
        if tape.first().copied().unwrap_or(0) % 16 == 0 && !g.any_node(&|n| matches!(n, G::Rep(r) if r.hi.map(|h| h < r.lo).unwrap_or(false))) {
            l.bump("cases_on_every_input_kind");
            kinds_case(ID, &g, &input, 1 + (tape.len() as u64 % 5), l)?;
        }
        Ok(())
    });
    ctx.finish(&check_case, RULE, ASSUMPTIONS, &|l| {
        for k in ["container_collections_checked", "count_at_a_bound", "separator_before_failing_item", "accepted"] {
            if l.counters.get(k).copied().unwrap_or(0) == 0 {
                return Err(format!("class '{}' is empty", k));
            }
        }
        Ok(())
    })
}

/// one generated case from a raw choice tape (the coverage-guided tier feeds tapes decoded from bytes)
pub fn fuzz_one(tape: &[u32], l: &mut Local) -> CaseRes {
    let (g, input, sub) = decode(tape);
    if !wf(&g) {
        return Ok(());
    }
    check_inner(sub, &g, &input, l)
}
