//! C06 -- primary error = furthest failure, merged expectations, truthful span.
use super::common::*;
use crate::build::*;
use crate::compare::*;
use crate::driver::*;
use crate::gen::*;
use crate::grammar::*;
use crate::reference::{self, RefOut};
use crate::run::*;
use chumsky::error::{Cheap, EmptyErr, Simple};
use chumsky::span::SimpleSpan;

pub const ID: &str = "C06";

pub const RULE: &str = "cases = (grammar, input) where the parse FAILS. Strict class: C01/C02-class grammars without not / labels / map_err / recovery / memoization, in which filter / try_map / try_map_with / custom wrap only choice-free, repetition-free sub-parsers (so the position of every failure event is unambiguous). General class: arbitrary nesting of filter/try_map. Grammars containing `not` are excluded, as the property's quantifier says. Tiers: bounded-exhaustive (small grammars incl. repetitions x all strings over {a,b,c} up to length L) and random (tapes; 60% derived sentences with edits, 40% random strings; 1..4-byte characters). Oracle = the never-rolled-back failure-event log of the reference: P = furthest event position; the last reported Rich error must start at offset(P) (never earlier, never later); if a user-supplied error (try_map / custom) is among the events at P it is the reported one, otherwise expected() == union of the expectations of all events at P (as a set); span inside the input, start <= end, on char boundaries; found == the token at span.start, None iff span.start == input length; Cheap, Simple and Rich report the same span and Simple::found == Rich::found; EmptyErr reports exactly one error. In the general class the content comparison is applied only when no failure event lies inside a rejected semantic node (positions unspecified there); the span/found well-formedness and the cross-error-type agreement always apply. One random case in sixteen (strict and general classes) also runs on every other input representation, incl. gapped token-span inputs (error spans well-formed and at the same tokens). NON-TRIVIAL = at least two failure events from different attempts contributed and either an earlier, further one was kept over a later attempt, or a later one replaced an earlier one, or >= 2 with different expectations merged at the furthest position, or a user error sits at the furthest position; distinct = distinct (sub-check, grammar, input).";

pub const ASSUMPTIONS: &[&str] = &[
    "the reference failure-event log (harness/src/reference.rs): every primitive mismatch is an event at the offending token, every semantic rejection an event at the start of the rejected match; events are never rolled back; furthest wins, equal positions merge, a user-supplied error at the furthest position is preserved (first one wins)",
    "expected sets are compared as sets (the library de-duplicates); RichPattern::Any / SomethingElse / EndOfInput / Token are compared by kind",
    "failed `not` and events inside rejected filter/try_map nodes have no specified position: content comparison is skipped there (counted), well-formedness is still checked",
];

type CheapS = Cheap<SimpleSpan>;
type SimpleS<'s> = Simple<'s, char, SimpleSpan>;

fn check_inner(sub: &str, g: &G, toks: &[char], l: &mut Local) -> CaseRes {
    let case = || Case::new(ID, sub, g, toks);
    let vs = variants(g, toks);
    let refs: Vec<RefOut> = vs.iter().map(|o| reference::eval(g, toks, o.clone())).collect();
    if refs.iter().any(|r| r.stats.fuel_out) {
        l.bump("skipped_fuel");
        return Ok(());
    }
    let si = StrIn::new(toks);
    let s: &str = &si.s;
    let p = build::<&str, RichS>(g, false);
    let o = run_parse(&p, s);
    l.evals += 1;
    if let Some(m) = &o.panic {
        return fail(case, "C06/panic", format!("parse panicked: {}", m));
    }
    if o.has_output {
        l.bump("accepted_or_output");
        return Ok(());
    }
    let Some(err) = o.errs.last() else {
        return fail(case, "C06/no-error", "the parse failed without reporting an error".into());
    };
    // check() is a parse too: same primary error (position, span, found, expected set / user error)
    {
        let c = run_check(&p, s);
        l.evals += 1;
        if let Some(m) = &c.panic {
            return fail(case, "C06/panic", format!("check panicked: {}", m));
        }
        if c.has_output || c.errs.last() != Some(err) {
            return fail(case, "C06/check-mode-error", format!("check(): has_output={} last error {:?}; parse(): last error {:?}", c.has_output, c.errs.last(), err));
        }
    }
    let len = s.len();
    // (c) span inside the input, ordered, on character boundaries
    let (es, ee) = err.span;
    if es > ee || ee > len || !s.is_char_boundary(es) || !s.is_char_boundary(ee.min(len)) {
        return fail(case, "C06/span-malformed", format!("error span {}..{} is not a well-formed range of the {}-byte input", es, ee, len));
    }
    // (d) found = token at the start of the span; None iff at the end of input
    // (a label rewrites a user-supplied error into an expected/found one that has no found token: unspecified)
    let found_unspecified = refs.iter().any(|r| r.alt.as_ref().map(|a| a.found_fuzzy).unwrap_or(false));
    if let Some(found) = &err.found {
        if err.custom.is_none() && !found_unspecified {
            let at: Option<char> = s[es..].chars().next();
            if *found != at {
                return fail(case, "C06/found", format!("found = {:?} but the token at the start of the span {}..{} is {:?}", found, es, ee, at));
            }
        }
    }
    // (a), (b) position and content against the failure-event log
    let unspecified = refs.iter().any(|r| r.stats.trymap_inner_events || r.alt.as_ref().map(|a| a.fuzzy).unwrap_or(false))
        || g.any_node(&|n| matches!(n, G::Not(_)));
    if unspecified {
        l.bump("content_comparison_skipped_unspecified_position");
        // two-sided bound that holds under every reading: not beyond the furthest event of all
        if let Some(a) = refs[0].alt.as_ref() {
            let hi = refs.iter().filter_map(|r| r.alt.as_ref()).map(|a| a.pos).max().unwrap_or(a.pos);
            let hi_off = if hi < si.sm.n() { si.sm.starts[hi] } else { si.sm.eoi.0 };
            if !g.any_node(&|n| matches!(n, G::Not(_))) && es > hi_off {
                return fail(case, "C06/beyond-furthest", format!("error starts at {} beyond the furthest failure (token {}, offset {})", es, hi, hi_off));
            }
        }
    } else {
        let mut first: Option<String> = None;
        let mut ok = false;
        for r in &refs {
            let Some(a) = r.alt.as_ref() else {
                first.get_or_insert("the reference recorded no failure".into());
                continue;
            };
            // decorated grammars: position and found only (what the labels / markers say is C17's)
            match cmp_err(a, err, &si.sm, !sub.starts_with("decorated")) {
                Ok(()) => {
                    ok = true;
                    break;
                }
                Err(m) => {
                    first.get_or_insert(m);
                }
            }
        }
        if !ok {
            let a = refs[0].alt.as_ref();
            let m = first.unwrap();
            let sig = if m.starts_with("error span starts") {
                let exp = a.map(|a| if a.span.0 < si.sm.n() { si.sm.starts[a.span.0] } else { si.sm.eoi.0 }).unwrap_or(0);
                if es < exp {
                    "C06/position-earlier"
                } else {
                    "C06/position-later"
                }
            } else if m.starts_with("expected set") {
                "C06/expected-set"
            } else if m.starts_with("user-supplied") || m.starts_with("reported a user") {
                "C06/user-error"
            } else {
                "C06/found"
            };
            return fail(case, sig, format!("{} (reported {:?}; reference {:?})", m, err, a));
        }
    }
    // (e) the other error types
    let pc = build::<&str, CheapS>(g, false);
    let oc = run_parse(&pc, s);
    let ps = build::<&str, SimpleS>(g, false);
    let os = run_parse(&ps, s);
    let pe = build::<&str, EmptyErr>(g, false);
    let oe = run_parse(&pe, s);
    l.evals += 3;
    for (name, x) in [("Cheap", &oc), ("Simple", &os)] {
        if let Some(m) = &x.panic {
            return fail(case, "C06/panic", format!("parse with {} panicked: {}", name, m));
        }
        if x.has_output {
            return fail(case, "C06/errtype-accept", format!("{} accepts an input Rich rejects", name));
        }
        let Some(e2) = x.errs.last() else {
            return fail(case, "C06/no-error", format!("{}: failed without an error", name));
        };
        if e2.span != err.span {
            return fail(case, "C06/errtype-span", format!("{} reports span {:?} but Rich reports {:?}", name, e2.span, err.span));
        }
    }
    if let (Some(sf), Some(rf)) = (os.errs.last().and_then(|e| e.found.clone()), err.found.clone()) {
        // (the generated map_err rewrites a Rich error into a user-supplied one, which a label then turns into an
        // expected/found error without a found token; Simple's is left as it was: not comparable)
        if sf != rf && err.custom.is_none() && !found_unspecified && !sub.starts_with("decorated") {
            return fail(case, "C06/errtype-found", format!("Simple::found = {:?} but Rich::found = {:?}", sf, rf));
        }
    }
    if oe.panic.is_none() {
        if oe.has_output || oe.errs.len() != 1 {
            return fail(case, "C06/emptyerr-count", format!("EmptyErr: has_output={} with {} errors on a rejected input", oe.has_output, oe.errs.len()));
        }
    } else {
        l.bump("emptyerr_panics_left_to_C20");
    }
    // classification
    let st = &refs[0].stats;
    let a = refs[0].alt.as_ref();
    let user_at_max = a.map(|a| a.custom.is_some()).unwrap_or(false);
    let nontrivial = st.events >= 2 && (st.events_kept_earlier > 0 || st.events_replaced_later > 0 && st.backtracks > 0 || st.events_merged_diff > 0 || user_at_max && st.events >= 2);
    l.bump("rejected");
    if st.events_kept_earlier > 0 {
        l.bump("earlier_further_failure_kept_over_later_attempt");
    }
    if st.events_replaced_later > 0 {
        l.bump("later_failure_replaced_earlier");
    }
    if st.events_merged_diff > 0 {
        l.bump("different_expectations_merged_at_equal_position");
    }
    if user_at_max {
        l.bump("user_error_at_furthest_position");
    }
    if a.map(|a| a.pos == toks.len()).unwrap_or(false) {
        l.bump("failure_at_end_of_input");
    }
    if toks.iter().any(|c| c.len_utf8() > 1) {
        l.bump("multi_byte_input");
    }
    l.note(g, toks, sub, nontrivial, || format!("reported {:?}; reference furthest failure {:?}", (err.span, &err.found, &err.expected, &err.custom), a.map(|a| (a.pos, &a.exp, &a.custom))));
    Ok(())
}

pub fn check_case(case: &Case, l: &mut Local) -> Result<(), Fail> {
    if case.sub == "kinds" {
        let seed = case.extra.get("gap_seed").and_then(|p| p.as_u64()).unwrap_or(1);
        return kinds_case(ID, &case.g, &case.toks(), seed, l).map_err(|(_, f)| f);
    }
    check_inner(&case.sub, &case.g, &case.toks(), l).map_err(|(_, f)| f)
}

pub fn cfg_strict() -> GenCfg {
    let mut c = GenCfg::c02();
    c.not = false;
    c.semantic_strict = true;
    c
}
pub fn cfg_general() -> GenCfg {
    let mut c = GenCfg::c02();
    c.not = false;
    c
}

/// the strict class with span-preserving decorations (labelled / as_context / map_err) at random nodes:
/// they must not move the reported error (only the position, span shape and `found` are compared here;
/// the labels and markers themselves are C17's)
pub fn cfg_decorated() -> GenCfg {
    let mut c = cfg_strict();
    c.label = true;
    c.map_err = true;
    c
}

pub fn decode(tape: &[u32]) -> (G, Vec<char>, &'static str) {
    let mut t = Tape::new(tape);
    let class = t.weighted(&[9, 3, 4]);
    let strict = class == 0;
    let (g, alpha) = {
        let mut gg = GGen::new(&mut t, if strict { cfg_strict() } else if class == 1 { cfg_general() } else { cfg_decorated() });
        let d = 1 + gg.t.pick(5) as u32;
        let g = gg.gen(d, false);
        (g, gg.alpha.clone())
    };
    let input = gen_input(&g, &mut t, &alpha, 12);
    (g, input, if strict { "strict" } else if class == 1 { "general" } else { "decorated" })
}

/// hand-shaped templates: one per failure-bookkeeping site named in the property's anchors
pub fn templates() -> Vec<G> {
    let j = |s: &str| G::Just(s.into());
    let rep = |item: G, lo: u8, hi: Option<u8>| G::Rep(Rep { item: b(item), sep: None, leading: false, trailing: false, lo, hi, sink: Sink::Vec, cfg: false, ctxb: 0 });
    let mut out = vec![
        // later alternative fails earlier: the earlier, further failure must be kept
        G::Or(b(G::Then(b(j("ab")), b(j("c")))), b(j("b"))),
        G::Choice(vec![G::Then(b(j("a")), b(G::Then(b(j("b")), b(j("c"))))), G::Then(b(j("a")), b(j("c"))), j("c")]),
        // equal positions merge
        G::Choice(vec![j("a"), j("b"), G::OneOf("bc".into()), G::End]),
        G::Then(b(j("a")), b(G::ChoiceVec(vec![j("a"), j("b"), G::NoneOf("c".into())]))),
        // a rejecting filter / try_map / try_map_with next to alternatives at the same / a further position
        G::Or(b(G::Filter(b(G::Any), Pred::FirstIn("a".into()))), b(j("b"))),
        G::Or(b(G::TryMap(b(j("ab")), Pred::Never, 1)), b(G::Then(b(j("a")), b(j("c"))))),
        G::Or(b(G::TryMapWith(b(j("ab")), Pred::Never, 2)), b(G::Then(b(j("a")), b(j("c"))))),
        G::Or(b(G::Then(b(j("a")), b(j("c")))), b(G::TryMap(b(j("ab")), Pred::Never, 1))),
        // try_map whose inner parser fails, after an earlier alternative failed further ahead
        G::Choice(vec![j("ab"), G::TryMap(b(G::Then(b(G::Any), b(G::OneOf("c".into())))), Pred::Always, 1)]),
        // successful try_map over a repetition that left a pending failure behind
        G::Then(b(G::TryMap(b(rep(j("a"), 0, None)), Pred::Always, 1)), b(j("b"))),
        G::Then(b(G::Filter(b(rep(j("a"), 0, None)), Pred::Always)), b(j("b"))),
        // custom errors
        G::Or(b(G::Custom { take: 1, ok: false, tag: 3 }), b(j("b"))),
        G::Or(b(j("ab")), b(G::Custom { take: 2, ok: false, tag: 3 })),
        G::Then(b(G::OrNot(b(j("a")))), b(G::Custom { take: 2, ok: true, tag: 4 })),
        // repetition / option leave their last failing attempt behind
        G::Then(b(rep(G::Then(b(j("a")), b(j("b"))), 0, None)), b(j("c"))),
        G::Then(b(G::OrNot(b(G::Then(b(j("a")), b(j("b")))))), b(j("c"))),
        G::Then(b(rep(j("a"), 1, Some(2))), b(j("b"))),
        // and_is / rewind: failures inside lookahead count like any other
        G::Then(b(G::AndIs(b(G::Any), b(G::Then(b(j("a")), b(j("b")))))), b(j("c"))),
        G::Then(b(G::Rewind(b(G::Then(b(j("a")), b(G::OrNot(b(j("b")))))))), b(j("ac"))),
    ];
    out.retain(wf);
    out
}

pub fn run(tier: Tier, seed: u64) -> i32 {
    let ctx = Ctx::new(ID, tier, seed);
    ctx.replay_corpus(&check_case);
    let mut gs = small_grammars(true);
    gs.extend(templates());
    gs.retain(|g| !g.any_node(&|n| matches!(n, G::Not(_))));
    let strings = all_strings(&['a', 'b', 'c'], ctx.pick(4, 6));
    ctx.with_local(|l| {
        l.add("exhaustive_grammars", gs.len() as u64);
        l.add("exhaustive_strings_per_grammar", strings.len() as u64);
    });
    ctx.par_jobs(&gs, |g, l| {
        for s in &strings {
            check_inner("exh", g, s, l)?;
        }
        Ok(())
    });
    let n = ctx.pick(3_000_000, 16_000_000);
    ctx.par_random(n, 180, 6, |tape, l| {
        let (g, input, sub) = decode(tape);
        debug_assert!(wf(&g), "ill-formed: {}", render(&g));
        check_inner(sub, &g, &input, l)?;
        // one case in sixteen (not the decorated class: labels are C17's): the reported errors on every other input
        // representation too -- spans well-formed and at the same tokens (C10's comparison against the slice baseline)
        if tape.first().copied().unwrap_or(0) % 16 == 0 && !sub.starts_with("decorated") {
            l.bump("cases_on_every_input_kind");
            kinds_case(ID, &g, &input, 1 + (tape.len() as u64 % 5), l)?;
        }
        Ok(())
    });
    ctx.finish(&check_case, RULE, ASSUMPTIONS, &|l| {
        for k in [
            "earlier_further_failure_kept_over_later_attempt",
            "later_failure_replaced_earlier",
            "different_expectations_merged_at_equal_position",
            "user_error_at_furthest_position",
            "failure_at_end_of_input",
        ] {
            if l.counters.get(k).copied().unwrap_or(0) == 0 {
                return Err(format!("class '{}' is empty", k));
            }
        }
        Ok(())
    })
}

/// one generated case from a raw choice tape (the coverage-guided tier feeds tapes decoded from bytes)
pub fn fuzz_one(tape: &[u32], l: &mut Local) -> CaseRes {
    let (g, input, sub) = decode(tape);
    if !wf(&g) {
        return Ok(());
    }
    check_inner(sub, &g, &input, l)
}
