//! C08 -- error recovery is transparent on success, loud on failure, and never silent.
use super::common::*;
use crate::build::*;
use crate::compare::*;
use crate::driver::*;
use crate::gen::*;
use crate::grammar::*;
use crate::reference::{self, EmisKind, RefOpts, RefOut};
use crate::run::*;

pub const ID: &str = "C08";

pub const RULE: &str = "cases = (grammar, input): C01/C02-class grammars with recover_with(via_parser(fallback) | skip_until(skip, until, fallback) | skip_then_retry_until(skip, until) | via_parser(nested_delimiters(..))) at arbitrary nodes and nesting (recovery inside recovery, inside choices / repetitions / lookahead), validate emitters alongside; inputs: derived sentences with 0..2 edits, unbalanced / mismatched delimiters, random strings; plus a bounded-exhaustive tier of templates (each strategy x each exit) x all strings over 3..5 symbols up to length L. Oracle = the reference semantics of the statement: p succeeds -> p's result, nothing added; p fails and the strategy succeeds -> the strategy's output and exactly one extra error, emitted after the strategy's own emissions, equal (span start, found, expected set / user message) to the furthest-failure summary at the moment p failed; both fail -> failure, position restored, that same error pending (so the last reported error of a rejected input is compared with the reference's pending error). Compared: has_output, output value incl. which nodes produced fallback markers, number and order of errors (recovered ones interleaved with validate emissions), content of every recovered error; both readings of V-take (DESIGN.md 3.1) are admissible. Oracle-free: an error-free result never contains a fallback marker; errors().len() >= number of fallback markers; One random case in sixteen also runs on every other input representation. NON-TRIVIAL = at least one recovery fired on the surviving path, or fired and was abandoned by an enclosing backtrack, or both p and its strategy failed; distinct = distinct (sub-check, grammar, input).";

pub const ASSUMPTIONS: &[&str] = &[
    "reference semantics of the three strategies as in the statement: skip_until = least k such that after k skip steps `until` matches; skip_then_retry_until = repeat { give up if `until` matches here; one skip step or give up; retry p, accept only a retry that emitted nothing }; nested_delimiters = exactly one balanced region starting at `open`",
    "failure events recorded inside nested_delimiters' scanner have no specified position (content of errors that merge with them is not compared)",
    "collect_exactly under recover_with may hit the 'can't fail' unwrap (finding F9, C20): panicking cases of that shape are counted and left to C20",
];

#[allow(dead_code)]
fn strip(g: &G) -> G {
    let mut g = g.clone();
    g.transform(&mut |n| {
        if let G::Recover(a, _) = n {
            let inner = (**a).clone();
            *n = inner;
        }
    });
    g
}

fn cmp_all(r: &RefOut, o: &ImplOut, sm: &SpanMap, base: usize) -> Result<(), (String, String)> {
    if o.has_output != r.accepted {
        return Err((
            "C08/accept".into(),
            format!("has_output={} but the reference {} (errors {:?}; reference emitted {}, prefix {:?})", o.has_output, if r.accepted { "produces an output" } else { "fails" }, o.errs, r.emitted.len(), r.prefix.as_ref().map(|p| p.1)),
        ));
    }
    if o.has_output {
        let rv = &r.prefix.as_ref().unwrap().0;
        if let Err(m) = cmp_val(rv, o.out.as_ref().unwrap(), sm, base) {
            return Err(("C08/output".into(), format!("output differs: {} (impl {:?}, reference {:?})", m, o.out, rv)));
        }
        if o.errs.len() != r.emitted.len() {
            let sig = if o.errs.len() < r.emitted.len() { "C08/error-missing" } else { "C08/error-extra" };
            return Err((
                sig.into(),
                format!("{} error(s) reported {:?}, the reference emits {} ({:?})", o.errs.len(), o.errs, r.emitted.len(), r.emitted.iter().map(|e| e.kind_name()).collect::<Vec<_>>()),
            ));
        }
        for (k, (e, d)) in r.emitted.iter().zip(&o.errs).enumerate() {
            if let Err(m) = cmp_emis(e, d, sm, true) {
                let sig = if matches!(e.kind, EmisKind::Recovered(_)) { "C08/recovered-error-content" } else { "C08/error-order" };
                return Err((sig.into(), format!("error #{}: {} (reported {:?}; reference {:?})", k, m, d, e)));
            }
        }
    } else {
        let Some(d) = o.errs.last() else {
            return Err(("C08/no-error".into(), "failed without an error".into()));
        };
        if let Some(a) = &r.alt {
            if !a.fuzzy {
                if let Err(m) = cmp_err(a, d, sm, true) {
                    return Err(("C08/final-error".into(), format!("{} (reported {:?}; reference {:?})", m, d, a)));
                }
            }
        }
    }
    Ok(())
}

fn check_inner(sub: &str, g: &G, toks: &[char], l: &mut Local) -> CaseRes {
    let case = || Case::new(ID, sub, g, toks);
    let mut vs = variants(g, toks);
    let n0 = vs.len();
    for i in 0..n0 {
        let mut o = vs[i].clone();
        o.vtake_alt = true;
        vs.push(o);
    }
    let refs: Vec<RefOut> = vs.iter().map(|o| reference::eval(g, toks, o.clone())).collect();
    if refs.iter().any(|r| r.stats.fuel_out) {
        l.bump("skipped_fuel_or_unspecified");
        return Ok(());
    }
    let si = StrIn::new(toks);
    let s: &str = &si.s;
    let p = build::<&str, RichS>(g, false);
    let o = run_parse(&p, s);
    l.evals += 1;
    if let Some(m) = &o.panic {
        if g.any_node(&|n| matches!(n, G::Rep(r) if matches!(r.sink, Sink::Exactly(_)))) {
            l.bump("panics_left_to_C20_F9");
            return Ok(());
        }
        return fail(case, "C08/panic", format!("parse panicked: {}", m));
    }
    // the same in check mode: recovery must be just as loud when no output is built (check(), and every
    // combinator that runs its child in check mode)
    let c = run_check(&p, s);
    l.evals += 1;
    if c.panic.is_none() && (c.has_output != o.has_output || c.errs != o.errs) {
        return fail(case, "C08/check-mode", format!("check(): has_output={} errors {:?}; parse(): has_output={} errors {:?}", c.has_output, c.errs, o.has_output, o.errs));
    }
    let mut first = None;
    let mut matched = None;
    for (i, r) in refs.iter().enumerate() {
        match cmp_all(r, &o, &si.sm, si.base()) {
            Ok(()) => {
                matched = Some(i);
                break;
            }
            Err(e) => {
                first.get_or_insert(e);
            }
        }
    }
    let Some(mi) = matched else {
        let (sig, msg) = first.unwrap();
        return fail(case, &sig, msg);
    };
    if vs[mi].vtake_alt {
        l.bump("matched_variant_V_take_alt");
    }
    // oracle-free consequences
    if let Some(v) = &o.out {
        let fb = v.count_fallbacks();
        if o.errs.is_empty() && fb > 0 {
            return fail(case, "C08/silent-recovery", format!("error-free result contains {} fallback marker(s): {:?}", fb, v));
        }
        if o.errs.len() < fb {
            return fail(case, "C08/fewer-errors-than-fallbacks", format!("{} fallback marker(s) but only {} error(s)", fb, o.errs.len()));
        }
    }
    // transparency is part of the differential: where no recovery fired in the reference run, the
    // reference evaluates p alone (counted below)
    let r = &refs[mi];
    let st = &r.stats;
    let fired_surviving = r.emitted.iter().any(|e| matches!(e.kind, EmisKind::Recovered(_)));
    let nontrivial = fired_surviving || st.recoveries_abandoned > 0 || st.recoveries_failed > 0;
    if st.recoveries_fired == 0 && st.recoveries_failed == 0 {
        l.bump("transparent_on_success");
    }
    if fired_surviving {
        l.bump("recovery_fired_on_surviving_path");
    }
    if st.recoveries_abandoned > 0 {
        l.bump("recovery_fired_then_abandoned");
    }
    if st.recoveries_failed > 0 {
        l.bump("parser_and_strategy_both_failed");
    }
    for k in &st.sites {
        if k.starts_with("strat:") {
            l.bump(k);
        }
    }
    l.bump(if o.has_output && o.errs.is_empty() {
        "clean_accept"
    } else if o.has_output {
        "output_with_errors"
    } else {
        "rejected"
    });
    l.note(g, toks, sub, nontrivial, || format!("has_output={} errors={:?} output={:?}", o.has_output, o.errs.iter().map(|e| (e.span, e.custom.clone())).collect::<Vec<_>>(), o.out));
    let _ = RefOpts::default();
    Ok(())
}

pub fn check_case(case: &Case, l: &mut Local) -> Result<(), Fail> {
    if case.sub == "kinds" {
        let seed = case.extra.get("gap_seed").and_then(|p| p.as_u64()).unwrap_or(1);
        return kinds_case(ID, &case.g, &case.toks(), seed, l).map_err(|(_, f)| f);
    }
    check_inner(&case.sub, &case.g, &case.toks(), l).map_err(|(_, f)| f)
}

pub fn cfg() -> GenCfg {
    let mut c = GenCfg::c02();
    c.recover = true;
    c.nested_delims = true;
    c.validate = true;
    c
}

pub fn templates() -> Vec<G> {
    let j = |s: &str| G::Just(s.into());
    let rep = |item: G, lo: u8, hi: Option<u8>, sink: Sink| G::Rep(Rep { item: b(item), sep: None, leading: false, trailing: false, lo, hi, sink, cfg: false, ctxb: 0 });
    let fb = |t: u32| G::To(b(G::Any), 900 + t);
    let strategies = |t: u32| -> Vec<Strat> {
        vec![
            Strat::Via(b(fb(t))),
            Strat::Via(b(G::To(b(G::Then(b(G::Any), b(j("c")))), 900 + t))),
            Strat::Via(b(G::Validate(b(fb(t)), 50 + t, 1))),
            Strat::SkipUntil { skip: b(G::Any), until: b(G::OneOf("c".into())), tag: t },
            Strat::SkipUntil { skip: b(G::OneOf("ab".into())), until: b(G::End), tag: t },
            Strat::SkipUntil { skip: b(j("ab")), until: b(j("cc")), tag: t },
            Strat::SkipRetry { skip: b(G::Any), until: b(G::OneOf("c".into())) },
            Strat::SkipRetry { skip: b(G::OneOf("bc".into())), until: b(G::End) },
        ]
    };
    let mut out = vec![];
    for s in strategies(1) {
        let p = G::Then(b(j("a")), b(j("b")));
        let rec = G::Recover(b(p.clone()), s.clone());
        // alone, followed by something, inside a choice (abandoned recovery), inside a repetition
        out.push(rec.clone());
        out.push(G::Then(b(rec.clone()), b(any_rest())));
        out.push(G::Then(b(rec.clone()), b(j("a"))));
        out.push(G::Or(b(G::Then(b(rec.clone()), b(j("a")))), b(any_rest())));
        out.push(G::Then(b(rep(rec.clone(), 0, None, Sink::Vec)), b(any_rest())));
        out.push(G::Then(b(G::OrNot(b(G::Then(b(rec.clone()), b(j("b")))))), b(any_rest())));
        // an earlier alternative failed further ahead than p does
        out.push(G::Or(b(G::Then(b(j("ab")), b(j("a")))), b(G::Then(b(G::Recover(b(j("b")), s.clone())), b(any_rest())))));
        // recovery inside recovery
        for s2 in strategies(2).into_iter().take(4) {
            out.push(G::Then(b(G::Recover(b(G::Then(b(rec.clone()), b(j("a")))), s2)), b(any_rest())));
        }
        // validated p: a retry that emits must be refused
        out.push(G::Then(b(G::Recover(b(G::Validate(b(j("a")), 7, 1)), s.clone())), b(any_rest())));
        out.push(G::Then(b(G::Recover(b(G::Then(b(G::OrNot(b(G::Validate(b(j("b")), 8, 1)))), b(j("a")))), s.clone())), b(any_rest())));
    }
    out.retain(wf);
    out
}

pub fn nested_templates() -> Vec<G> {
    let j = |s: &str| G::Just(s.into());
    let mut out = vec![];
    for others in [vec![], vec![('[', ']')], vec![('[', ']'), ('{', '}')]] {
        let s = Strat::Nested { open: '(', close: ')', others: others.clone(), tag: 3 };
        let p = G::Delim { inner: b(j("a")), open: b(j("(")), close: b(j(")")) };
        let rec = G::Recover(b(p), s);
        out.push(rec.clone());
        out.push(G::Then(b(rec.clone()), b(any_rest())));
        out.push(G::Then(b(G::Rep(Rep { item: b(rec.clone()), sep: None, leading: false, trailing: false, lo: 0, hi: None, sink: Sink::Vec, cfg: false, ctxb: 0 })), b(any_rest())));
    }
    out.retain(wf);
    out
}

pub fn decode(tape: &[u32]) -> (G, Vec<char>) {
    let mut t = Tape::new(tape);
    let delims = t.chance(1, 4);
    let (g, alpha) = {
        let mut c = cfg();
        c.nested_delims = delims;
        if t.chance(1, 2) {
            c.validate = false;
        }
        let mut gg = GGen::new(&mut t, c);
        if delims {
            gg.alpha = vec!['(', ')', '[', 'a'];
        }
        let d = 2 + gg.t.pick(4) as u32;
        let mut g = gg.gen(d, false);
        if !g.any_node(&|n| matches!(n, G::Recover(..))) {
            // make sure a recovery is present
            let s = gg.gen_strat_pub(2, false);
            g = G::Then(b(G::Recover(b(g), s)), b(any_rest()));
        }
        (g, gg.alpha.clone())
    };
    let mut alpha2 = alpha.clone();
    if delims {
        alpha2.extend([']', '{', '}']);
    }
    let input = gen_input(&g, &mut t, &alpha2, 12);
    (g, input)
}

pub fn run(tier: Tier, seed: u64) -> i32 {
    let ctx = Ctx::new(ID, tier, seed);
    ctx.replay_corpus(&check_case);
    let ts = templates();
    let strings = all_strings(&['a', 'b', 'c'], ctx.pick(6, 8));
    let nts = nested_templates();
    let nstrings = all_strings(&['(', ')', '[', ']', 'a'], ctx.pick(5, 7));
    ctx.with_local(|l| {
        l.add("templates", (ts.len() + nts.len()) as u64);
        l.add("strings_per_template", strings.len() as u64);
        l.add("strings_per_nested_delimiters_template", nstrings.len() as u64);
    });
    ctx.par_jobs(&ts, |g, l| {
        for s in &strings {
            check_inner("template", g, s, l)?;
        }
        Ok(())
    });
    ctx.par_jobs(&nts, |g, l| {
        for s in &nstrings {
            check_inner("template-nested", g, s, l)?;
        }
        Ok(())
    });
    let n = ctx.pick(3_000_000, 18_000_000);
    ctx.par_random(n, 220, 8, |tape, l| {
        let (g, input) = decode(tape);
        debug_assert!(wf(&g), "ill-formed: {}", render(&g));
        check_inner("rand", &g, &input, l)?;
        // one case in sixteen: every other input representation too (C10's comparison against the slice baseline)
        if tape.first().copied().unwrap_or(0) % 16 == 0 {
            l.bump("cases_on_every_input_kind");
            kinds_case(ID, &g, &input, 1 + (tape.len() as u64 % 5), l)?;
        }
        Ok(())
    });
    ctx.finish(&check_case, RULE, ASSUMPTIONS, &|l| {
        for k in ["recovery_fired_on_surviving_path", "recovery_fired_then_abandoned", "parser_and_strategy_both_failed", "transparent_on_success", "strat:via", "strat:skip_until", "strat:skip_retry", "strat:nested"] {
            if l.counters.get(k).copied().unwrap_or(0) == 0 {
                return Err(format!("class '{}' is empty", k));
            }
        }
        Ok(())
    })
}

/// one generated case from a raw choice tape (the coverage-guided tier feeds tapes decoded from bytes)
pub fn fuzz_one(tape: &[u32], l: &mut Local) -> CaseRes {
    let (g, input) = decode(tape);
    if !wf(&g) {
        return Ok(());
    }
    check_inner("rand", &g, &input, l)
}
