//! C14 -- text parsers recognise exactly their documented languages.
//!
//! Every library parser p is run as `p.map_with(slice).then(rest)` over `&str` and (ASCII strings)
//! over `&[u8]`, so three things are observed: the value p returns (for the parsers that return a
//! slice), the extent p consumed, and the unconsumed remainder. The oracle is a set of independent
//! recognisers `longest_prefix` written with std `char` predicates and `unicode_ident`.
use crate::driver::*;
use crate::gen::{all_strings, Tape};
use crate::grammar::G;
use chumsky::error::{Rich, Simple};
use chumsky::prelude::*;
use chumsky::text;
use serde::{Deserialize, Serialize};
use serde_json::json;

pub const ID: &str = "C14";

pub const RULE: &str = "cases = (text parser, string, input kind). Parsers: int(r), digits(r) for r in {2,8,10,16,36}; ascii::ident, unicode ident; ascii/unicode keyword(k) for k in {a, Z7, _, fa, éa}; whitespace(), inline_whitespace(), newline(); just('a').padded(), int(10).padded(); regex(p) at token offset k for generated patterns p. Strings: EVERY string up to a length bound over the 12-symbol alphabet {0 1 7 a Z f _ ' ' \\r \\n é .} and over the line-terminator alphabet {\\t \\x0B \\x0C \\u{85} \\u{2028} \\u{2029} \\r \\n ' ' a 0 z}; EVERY Unicode scalar value c in the contexts c, ac, ac_, 1c, 0c, ' 'c, \\rc, cac (classification is per character, so this enumerates the whole classification table of each parser); random Unicode strings drawn from ASCII / Latin-1 / BMP / astral ranges with XID_Start, XID_Continue, digits of other scripts, all White_Space and all eight terminators over-represented. Input kinds: &str always, &[u8] for ASCII strings. Each parser p is run as p.map_with(|o, e| (o, e.slice())).then(any().repeated().to_slice()). Oracle: independent recognisers longest_prefix(p, s) written with char::is_digit / is_ascii_* / char::is_whitespace / unicode_ident::is_xid_* and the table of the eight terminators: accept iff the recogniser matches a prefix, matched extent == that prefix, remainder == the rest, both as the SAME MEMORY as the caller's buffer (pointer offset and length), and for int / ident / keyword / regex the returned slice is that extent too. keyword(k) accepts iff the identifier starting there is exactly k. &[u8] results must equal the &str results on ASCII strings. regex(p) at offset k must equal an anchored regex-automata search at that position of the input (a fresh Regex; patterns incl. the zero-width assertions ^ $ \\b \\B (?m:^) (?m:$) \\A \\z, for which the text before the position matters), cross-checked by a small backtracking matcher written for the generated pattern language. digits(r).configure(at_most 2) and whitespace().at_least(1) through a clone of a clone are fixed parsers too. NON-TRIVIAL = the string contains a boundary character for the parser under test (a leading 0 or a non-digit after digits for int/digits; an identifier-continue character right after the keyword, or a non-ASCII letter/digit for ident/keyword; CR before LF, or a terminator next to a non-terminator for newline; whitespace adjacent to a non-whitespace character for whitespace/padded; a regex whose match is empty or stops before the end of the input); cases are distinct by construction in the enumerated tiers (counted, not hashed) and hashed in the random tier.";

pub const ASSUMPTIONS: &[&str] = &[
    "the recognisers in this file (std char predicates; unicode_ident for XID_Start / XID_Continue, which is also the table chumsky uses, so the Unicode VERSION of the identifier tables is not independently checked)",
    "regex: regex-automata's own anchored search at that position of the whole input is the specification (the statement says 'what an anchored regex search matches at that position'): for assertion-free patterns that equals a search over the suffix alone, for patterns with ^ $ \\b \\B (?m:^) (?m:$) \\A \\z the text before the position is visible to the assertions",
    "&[u8] is compared with &str only on ASCII strings (bytes >= 0x80 are outside the statement)",
];

pub const KWS: [&str; 5] = ["a", "Z7", "_", "fa", "éa"];
pub const RADICES: [u32; 5] = [2, 8, 10, 16, 36];

#[derive(Clone, Debug, PartialEq, Eq, Hash, Serialize, Deserialize)]
pub enum TP {
    Int(u32),
    Digits(u32),
    AsciiIdent,
    UniIdent,
    AsciiKw(usize),
    UniKw(usize),
    Ws,
    Iws,
    Newline,
    PaddedA,
    PaddedInt,
    Regex(Re, u8),
    /// digits(r).configure(|c, _| c.at_most(2)): the static minimum of one digit stays, a cap of two is added
    DigitsCfg(u32),
    /// whitespace().at_least(1), used through a clone of a clone
    Ws1Clone,
}

impl TP {
    pub fn name(&self) -> String {
        match self {
            TP::Int(r) => format!("int({})", r),
            TP::Digits(r) => format!("digits({})", r),
            TP::DigitsCfg(r) => format!("digits({}).configure(at_most 2)", r),
            TP::Ws1Clone => "whitespace().at_least(1).clone().clone()".to_string(),
            TP::AsciiIdent => "ascii::ident".into(),
            TP::UniIdent => "unicode::ident".into(),
            TP::AsciiKw(k) => format!("ascii::keyword({:?})", KWS[*k]),
            TP::UniKw(k) => format!("unicode::keyword({:?})", KWS[*k]),
            TP::Ws => "whitespace()".into(),
            TP::Iws => "inline_whitespace()".into(),
            TP::Newline => "newline()".into(),
            TP::PaddedA => "just('a').padded()".into(),
            TP::PaddedInt => "int(10).padded()".into(),
            TP::Regex(re, k) => format!("any().repeated().exactly({}).ignore_then(regex({:?}))", k, re.render()),
        }
    }
    fn returns_slice(&self) -> bool {
        matches!(self, TP::Int(_) | TP::AsciiIdent | TP::UniIdent | TP::AsciiKw(_) | TP::UniKw(_) | TP::Regex(..) | TP::PaddedInt)
    }
}

pub fn fixed_parsers() -> Vec<TP> {
    let mut v = vec![];
    for r in RADICES {
        v.push(TP::Int(r));
        v.push(TP::Digits(r));
    }
    v.push(TP::AsciiIdent);
    v.push(TP::UniIdent);
    for k in 0..4 {
        v.push(TP::AsciiKw(k));
    }
    for k in 0..5 {
        v.push(TP::UniKw(k));
    }
    v.extend([TP::Ws, TP::Iws, TP::Newline, TP::PaddedA, TP::PaddedInt]);
    v.extend([TP::DigitsCfg(10), TP::DigitsCfg(16), TP::Ws1Clone]);
    v
}

// ---------------------------------------------------------------------------------------------
// the independent recognisers (token = char; a result is a number of CHARS)

pub fn is_terminator(c: char) -> bool {
    matches!(c, '\n' | '\r' | '\x0B' | '\x0C' | '\u{85}' | '\u{2028}' | '\u{2029}')
}
fn run_of(s: &[char], f: impl Fn(char) -> bool) -> usize {
    s.iter().take_while(|c| f(**c)).count()
}
fn ascii_ident(s: &[char]) -> Option<usize> {
    match s.first() {
        Some(c) if c.is_ascii_alphabetic() || *c == '_' => Some(1 + run_of(&s[1..], |c| c.is_ascii_alphanumeric() || c == '_')),
        _ => None,
    }
}
fn uni_ident(s: &[char]) -> Option<usize> {
    match s.first() {
        Some(c) if unicode_ident::is_xid_start(*c) || *c == '_' => Some(1 + run_of(&s[1..], unicode_ident::is_xid_continue)),
        _ => None,
    }
}
fn int_prefix(s: &[char], r: u32) -> Option<usize> {
    match s.first() {
        Some('0') => Some(1),
        Some(c) if c.is_digit(r) => Some(1 + run_of(&s[1..], |c| c.is_digit(r))),
        _ => None,
    }
}

/// (start of the value-carrying part, end of it, end of everything consumed), in chars
pub fn longest_prefix(tp: &TP, s: &[char]) -> Option<(usize, usize, usize)> {
    let whole = |n: usize| Some((0, n, n));
    match tp {
        TP::Int(r) => int_prefix(s, *r).and_then(whole),
        TP::Digits(r) => match run_of(s, |c| c.is_digit(*r)) {
            0 => None,
            n => whole(n),
        },
        // one or two digits (possessive: the cap stops the run)
        TP::DigitsCfg(r) => match run_of(s, |c| c.is_digit(*r)) {
            0 => None,
            n => whole(n.min(2)),
        },
        TP::Ws1Clone => match run_of(s, char::is_whitespace) {
            0 => None,
            n => whole(n),
        },
        TP::AsciiIdent => ascii_ident(s).and_then(whole),
        TP::UniIdent => uni_ident(s).and_then(whole),
        TP::AsciiKw(k) => {
            let kw: Vec<char> = KWS[*k].chars().collect();
            match ascii_ident(s) {
                Some(n) if s[..n] == kw[..] => whole(n),
                _ => None,
            }
        }
        TP::UniKw(k) => {
            let kw: Vec<char> = KWS[*k].chars().collect();
            match uni_ident(s) {
                Some(n) if s[..n] == kw[..] => whole(n),
                _ => None,
            }
        }
        TP::Ws => whole(run_of(s, char::is_whitespace)),
        TP::Iws => whole(run_of(s, |c| c == ' ' || c == '\t')),
        TP::Newline => match s {
            ['\r', '\n', ..] => whole(2),
            [c, ..] if is_terminator(*c) => whole(1),
            _ => None,
        },
        TP::PaddedA => {
            let a = run_of(s, char::is_whitespace);
            if s.get(a) == Some(&'a') {
                let e = a + 1;
                Some((a, e, e + run_of(&s[e..], char::is_whitespace)))
            } else {
                None
            }
        }
        TP::PaddedInt => {
            let a = run_of(s, char::is_whitespace);
            let n = int_prefix(&s[a..], 10)?;
            let e = a + n;
            Some((a, e, e + run_of(&s[e..], char::is_whitespace)))
        }
        TP::Regex(re, k) => {
            let k = *k as usize;
            if s.len() < k {
                return None;
            }
            // the specification: an anchored search AT THAT POSITION of the input (look-behind assertions --
            // ^, \b, \B, (?m:^) -- see the text before the position; for assertion-free patterns this equals
            // a search over the suffix alone)
            let full: String = s.iter().collect();
            let kb: usize = s[..k].iter().map(|c| c.len_utf8()).sum();
            let rx = regex_automata::meta::Regex::new(&re.render()).expect("generated pattern compiles");
            let inp = regex_automata::Input::new(full.as_str()).range(kb..).anchored(regex_automata::Anchored::Yes);
            let m = rx.find(inp)?;
            let nchars = full[kb..m.end()].chars().count();
            Some((k, k + nchars, k + nchars))
        }
    }
}

// ---------------------------------------------------------------------------------------------
// generated regular expressions (look-around free) and a backtracking matcher for them

#[derive(Clone, Debug, PartialEq, Eq, Hash, Serialize, Deserialize)]
pub enum Re {
    Lit(char),
    Dot,
    Class(Vec<(char, char)>, bool),
    Seq(Vec<Re>),
    Alt(Vec<Re>),
    Star(Box<Re>, bool),
    Plus(Box<Re>, bool),
    Opt(Box<Re>, bool),
    /// zero-width assertion: 0 ^, 1 $, 2 \b, 3 \B, 4 (?m:^), 5 (?m:$), 6 \A, 7 \z
    Assert(u8),
}

const ASSERTS: [&str; 8] = ["^", "$", "\\b", "\\B", "(?m:^)", "(?m:$)", "\\A", "\\z"];
fn is_word(c: char) -> bool {
    c.is_alphanumeric() || c == '_'
}

fn esc(c: char, out: &mut String) {
    if c.is_ascii_alphanumeric() || c == ' ' || c == '_' || !c.is_ascii() {
        out.push(c)
    } else {
        out.push_str(&format!("\\x{{{:x}}}", c as u32))
    }
}

impl Re {
    pub fn render(&self) -> String {
        let mut s = String::new();
        self.r(&mut s);
        s
    }
    fn r(&self, o: &mut String) {
        match self {
            Re::Lit(c) => esc(*c, o),
            Re::Dot => o.push('.'),
            Re::Assert(a) => o.push_str(ASSERTS[*a as usize % 8]),
            Re::Class(rs, neg) => {
                o.push('[');
                if *neg {
                    o.push('^')
                }
                for (a, b) in rs {
                    esc(*a, o);
                    if a != b {
                        o.push('-');
                        esc(*b, o);
                    }
                }
                o.push(']');
            }
            Re::Seq(v) => {
                for x in v {
                    if matches!(x, Re::Alt(_)) {
                        o.push_str("(?:");
                        x.r(o);
                        o.push(')');
                    } else {
                        x.r(o)
                    }
                }
            }
            Re::Alt(v) => {
                for (i, x) in v.iter().enumerate() {
                    if i > 0 {
                        o.push('|')
                    }
                    x.r(o)
                }
            }
            Re::Star(x, lazy) | Re::Plus(x, lazy) | Re::Opt(x, lazy) => {
                o.push_str("(?:");
                x.r(o);
                o.push(')');
                o.push(match self {
                    Re::Star(..) => '*',
                    Re::Plus(..) => '+',
                    _ => '?',
                });
                if *lazy {
                    o.push('?')
                }
            }
        }
    }
    pub fn nullable(&self) -> bool {
        match self {
            Re::Lit(_) | Re::Dot | Re::Class(..) => false,
            Re::Seq(v) => v.iter().all(|x| x.nullable()),
            Re::Alt(v) => v.iter().any(|x| x.nullable()),
            Re::Star(..) | Re::Opt(..) | Re::Assert(_) => true,
            Re::Plus(x, _) => x.nullable(),
        }
    }
    /// leftmost-first (preference order) match of the whole pattern at position i; calls `k` with
    /// each candidate end position in preference order until `k` returns true
    fn m(&self, s: &[char], i: usize, k: &mut dyn FnMut(usize) -> bool) -> bool {
        match self {
            Re::Lit(c) => i < s.len() && s[i] == *c && k(i + 1),
            Re::Dot => i < s.len() && s[i] != '\n' && k(i + 1),
            Re::Assert(a) => {
                let wb = (i > 0 && is_word(s[i - 1])) != (i < s.len() && is_word(s[i]));
                let ok = match *a % 8 {
                    0 | 6 => i == 0,
                    1 | 7 => i == s.len(),
                    2 => wb,
                    3 => !wb,
                    4 => i == 0 || s[i - 1] == '\n',
                    _ => i == s.len() || s[i] == '\n',
                };
                ok && k(i)
            }
            Re::Class(rs, neg) => i < s.len() && (rs.iter().any(|(a, b)| *a <= s[i] && s[i] <= *b) != *neg) && k(i + 1),
            Re::Seq(v) => match v.split_first() {
                None => k(i),
                Some((h, t)) => {
                    let rest = Re::Seq(t.to_vec());
                    h.m(s, i, &mut |j| rest.m(s, j, k))
                }
            },
            Re::Alt(v) => v.iter().any(|x| x.m(s, i, k)),
            Re::Opt(x, lazy) => {
                if *lazy {
                    k(i) || x.m(s, i, k)
                } else {
                    x.m(s, i, k) || k(i)
                }
            }
            Re::Plus(x, lazy) => {
                let star = Re::Star(x.clone(), *lazy);
                x.m(s, i, &mut |j| star.m(s, j, k))
            }
            Re::Star(x, lazy) => {
                if *lazy {
                    k(i) || x.m(s, i, &mut |j| j > i && self.m(s, j, k))
                } else {
                    x.m(s, i, &mut |j| j > i && self.m(s, j, k)) || k(i)
                }
            }
        }
    }
    /// length of the match starting at position `from` of `s` (assertions see the text before `from`)
    pub fn match_len(&self, s: &[char], from: usize) -> Option<usize> {
        let mut end = None;
        self.m(s, from, &mut |j| {
            end = Some(j - from);
            true
        });
        end
    }
}

fn gen_re(t: &mut Tape, depth: u32, alpha: &[char]) -> Re {
    let atom = |t: &mut Tape| -> Re {
        match t.weighted(&[6, 1, 3, 2]) {
            0 => Re::Lit(alpha[t.pick(alpha.len())]),
            1 => Re::Dot,
            3 => Re::Assert(t.pick(8) as u8),
            _ => {
                let n = 1 + t.pick(2);
                let mut rs = vec![];
                for _ in 0..n {
                    let a = alpha[t.pick(alpha.len())];
                    let b = alpha[t.pick(alpha.len())];
                    rs.push(if t.chance(1, 3) && a <= b { (a, b) } else { (a, a) });
                }
                Re::Class(rs, t.chance(1, 4))
            }
        }
    };
    if depth == 0 {
        return atom(t);
    }
    match t.weighted(&[3, 4, 3, 2, 2, 2]) {
        0 => atom(t),
        1 => {
            let n = 2 + t.pick(2);
            Re::Seq((0..n).map(|_| gen_re(t, depth - 1, alpha)).collect())
        }
        2 => {
            let n = 2 + t.pick(2);
            Re::Alt((0..n).map(|_| gen_re(t, depth - 1, alpha)).collect())
        }
        3 => {
            // the body of a repetition never matches the empty string (the corner where regex
            // engines differ is outside the statement)
            let mut x = gen_re(t, depth - 1, alpha);
            if x.nullable() {
                x = atom(t)
            }
            Re::Star(Box::new(x), t.chance(1, 5))
        }
        4 => {
            let mut x = gen_re(t, depth - 1, alpha);
            if x.nullable() {
                x = atom(t)
            }
            Re::Plus(Box::new(x), t.chance(1, 5))
        }
        _ => Re::Opt(Box::new(gen_re(t, depth - 1, alpha)), t.chance(1, 5)),
    }
}

// ---------------------------------------------------------------------------------------------
// running the library parsers

/// what one run shows: the returned slice (if the parser returns one), the consumed extent and the
/// remainder, each as (byte offset from the caller's buffer, byte length)
#[derive(Clone, Debug, PartialEq, Eq)]
pub struct Seen {
    pub direct: Option<(usize, usize)>,
    pub extent: (usize, usize),
    pub rest: (usize, usize),
}

type ES<'s> = extra::Err<Rich<'s, char>>;
type EB<'s> = extra::Err<Simple<'s, u8>>;
type Raw = (Option<(usize, usize)>, (usize, usize), (usize, usize));
pub type StrP<'s> = Boxed<'s, 's, &'s str, Raw, ES<'s>>;
pub type U8P<'s> = Boxed<'s, 's, &'s [u8], Raw, EB<'s>>;

fn sp(s: &str) -> (usize, usize) {
    (s.as_ptr() as usize, s.len())
}
fn bp(s: &[u8]) -> (usize, usize) {
    (s.as_ptr() as usize, s.len())
}

pub fn build_str<'s>(tp: &TP) -> StrP<'s> {
    macro_rules! fin {
        (slice $p:expr) => {
            $p.map_with(|o: &str, e| (Some(sp(o)), sp(e.slice()))).then(any().repeated().to_slice().map(sp)).map(|((d, x), r)| (d, x, r)).boxed()
        };
        (unit $p:expr) => {
            $p.map_with(|_, e| (None, sp(e.slice()))).then(any().repeated().to_slice().map(sp)).map(|((d, x), r)| (d, x, r)).boxed()
        };
    }
    match tp {
        TP::Int(r) => fin!(slice text::int::<&str, ES>(*r)),
        TP::Digits(r) => fin!(unit text::digits::<&str, ES>(*r)),
        TP::DigitsCfg(r) => fin!(unit text::digits::<&str, ES>(*r).configure(|c, _: &()| c.at_most(2))),
        TP::Ws1Clone => {
            let p = text::whitespace::<&str, ES>().at_least(1);
            let c = p.clone().clone();
            drop(p);
            fin!(unit c)
        }
        TP::AsciiIdent => fin!(slice text::ascii::ident::<&str, ES>()),
        TP::UniIdent => fin!(slice text::unicode::ident::<&str, ES>()),
        TP::AsciiKw(k) => fin!(slice text::ascii::keyword::<&str, &'static str, ES>(KWS[*k])),
        TP::UniKw(k) => fin!(slice text::unicode::keyword::<&str, &'static str, ES>(KWS[*k])),
        TP::Ws => fin!(unit text::whitespace::<&str, ES>()),
        TP::Iws => fin!(unit text::inline_whitespace::<&str, ES>()),
        TP::Newline => fin!(unit text::newline::<&str, ES>()),
        TP::PaddedA => fin!(unit just::<_, &str, ES>('a').padded()),
        TP::PaddedInt => fin!(slice text::int::<&str, ES>(10).padded()),
        TP::Regex(re, k) => {
            let p = any::<&str, ES>().repeated().exactly(*k as usize).ignore_then(chumsky::regex::regex::<&str, ES>(&re.render()).map_with(|o: &str, e| (Some(sp(o)), sp(e.slice()))));
            p.then(any().repeated().to_slice().map(sp)).map(|((d, x), r)| (d, x, r)).boxed()
        }
    }
}

pub fn has_u8(tp: &TP) -> bool {
    !matches!(tp, TP::Newline)
}

pub fn build_u8<'s>(tp: &TP) -> U8P<'s> {
    macro_rules! fin {
        (slice $p:expr) => {
            $p.map_with(|o: &[u8], e| (Some(bp(o)), bp(e.slice()))).then(any().repeated().to_slice().map(bp)).map(|((d, x), r)| (d, x, r)).boxed()
        };
        (unit $p:expr) => {
            $p.map_with(|_, e| (None, bp(e.slice()))).then(any().repeated().to_slice().map(bp)).map(|((d, x), r)| (d, x, r)).boxed()
        };
    }
    match tp {
        TP::Int(r) => fin!(slice text::int::<&[u8], EB>(*r)),
        TP::Digits(r) => fin!(unit text::digits::<&[u8], EB>(*r)),
        TP::DigitsCfg(r) => fin!(unit text::digits::<&[u8], EB>(*r).configure(|c, _: &()| c.at_most(2))),
        TP::Ws1Clone => {
            let p = text::whitespace::<&[u8], EB>().at_least(1);
            let c = p.clone().clone();
            drop(p);
            fin!(unit c)
        }
        TP::AsciiIdent => fin!(slice text::ascii::ident::<&[u8], EB>()),
        TP::UniIdent => fin!(slice text::unicode::ident::<&[u8], EB>()),
        TP::AsciiKw(k) => fin!(slice text::ascii::keyword::<&[u8], &'static [u8], EB>(KWS[*k].as_bytes())),
        TP::UniKw(k) => fin!(slice text::unicode::keyword::<&[u8], &'static [u8], EB>(KWS[*k].as_bytes())),
        TP::Ws => fin!(unit text::whitespace::<&[u8], EB>()),
        TP::Iws => fin!(unit text::inline_whitespace::<&[u8], EB>()),
        // newline() does not type-check over &[u8] (its bound `&str: OrderedSeq<u8>` is not satisfiable)
        TP::Newline => unreachable!("newline() is not available over &[u8]"),
        TP::PaddedA => fin!(unit just::<_, &[u8], EB>(b'a').padded()),
        TP::PaddedInt => fin!(slice text::int::<&[u8], EB>(10).padded()),
        TP::Regex(re, k) => {
            let p = any::<&[u8], EB>().repeated().exactly(*k as usize).ignore_then(chumsky::regex::regex::<&[u8], EB>(&re.render()).map_with(|o: &[u8], e| (Some(bp(o)), bp(e.slice()))));
            p.then(any().repeated().to_slice().map(bp)).map(|((d, x), r)| (d, x, r)).boxed()
        }
    }
}

fn rel(raw: Raw, base: usize) -> Seen {
    let f = |(p, l): (usize, usize)| (p.wrapping_sub(base), l);
    Seen { direct: raw.0.map(f), extent: f(raw.1), rest: f(raw.2) }
}

pub fn run_str<'s>(p: &StrP<'s>, s: &'s str) -> Result<Option<Seen>, String> {
    let r = crate::run::quietly(|| p.parse(s).into_output_errors());
    match r {
        Ok((Some(raw), errs)) if errs.is_empty() => Ok(Some(rel(raw, s.as_ptr() as usize))),
        Ok((None, errs)) if !errs.is_empty() => Ok(None),
        Ok((o, errs)) => Err(format!("malformed result: output {:?} with {} errors", o, errs.len())),
        Err(_) => Err(format!("panicked: {}", crate::run::LAST_PANIC.with(|p| p.borrow_mut().take()).unwrap_or_default())),
    }
}
pub fn run_u8<'s>(p: &U8P<'s>, s: &'s [u8]) -> Result<Option<Seen>, String> {
    let r = crate::run::quietly(|| p.parse(s).into_output_errors());
    match r {
        Ok((Some(raw), errs)) if errs.is_empty() => Ok(Some(rel(raw, s.as_ptr() as usize))),
        Ok((None, errs)) if !errs.is_empty() => Ok(None),
        Ok((o, errs)) => Err(format!("malformed result: output {:?} with {} errors", o, errs.len())),
        Err(_) => Err(format!("panicked: {}", crate::run::LAST_PANIC.with(|p| p.borrow_mut().take()).unwrap_or_default())),
    }
}

/// what the recogniser expects to be seen, in byte offsets of `s`
fn expected(tp: &TP, chars: &[char]) -> Option<Seen> {
    let (a, b, e) = longest_prefix(tp, chars)?;
    let off = |n: usize| chars[..n].iter().map(|c| c.len_utf8()).sum::<usize>();
    let total = off(chars.len());
    let (ba, bb, be) = (off(a), off(b), off(e));
    // regex: the extent observed is that of regex() itself (after the k skipped tokens)
    let extent = match tp {
        TP::Regex(..) => (ba, bb - ba),
        _ => (0, be),
    };
    Some(Seen { direct: if tp.returns_slice() { Some((ba, bb - ba)) } else { None }, extent, rest: (be, total - be) })
}

fn sig_for(tp: &TP, kind: &str, what: &str) -> String {
    let fam = match tp {
        TP::Int(_) => "int",
        TP::Digits(_) | TP::DigitsCfg(_) => "digits",
        TP::Ws1Clone => "whitespace",
        TP::AsciiIdent | TP::UniIdent => "ident",
        TP::AsciiKw(_) | TP::UniKw(_) => "keyword",
        TP::Ws | TP::Iws => "whitespace",
        TP::Newline => "newline",
        TP::PaddedA | TP::PaddedInt => "padded",
        TP::Regex(..) => "regex",
    };
    format!("C14/{}/{}/{}", fam, kind, what)
}

fn mk_case(tp: &TP, kind: &str, chars: &[char]) -> Case {
    let mut c = Case::new(ID, &format!("{}:{}", kind, tp.name()), &G::Empty, chars);
    c.extra = json!({ "parser": tp, "kind": kind });
    c
}

fn diff(tp: &TP, kind: &str, chars: &[char], got: Result<Option<Seen>, String>, want: &Option<Seen>) -> CaseRes {
    let case = || mk_case(tp, kind, chars);
    let got = match got {
        Ok(g) => g,
        Err(m) => return Err((case(), Fail::new(sig_for(tp, kind, "result"), format!("{} on {:?}: {}", tp.name(), chars.iter().collect::<String>(), m)))),
    };
    if got == *want {
        return Ok(());
    }
    let what = match (&got, want) {
        (Some(_), None) => "accepts",
        (None, Some(_)) => "rejects",
        (Some(g), Some(w)) if g.extent != w.extent || g.rest != w.rest => "extent",
        _ => "slice",
    };
    let s: String = chars.iter().collect();
    Err((
        case(),
        Fail::new(
            sig_for(tp, kind, what),
            format!(
                "{} over {} on {:?}: library {} but the documented language gives {} [(offset, length) pairs in bytes of the caller's buffer: returned slice / consumed extent / remainder]",
                tp.name(),
                kind,
                s,
                match &got {
                    Some(g) => format!("matched {:?}/{:?}/{:?}", g.direct, g.extent, g.rest),
                    None => "rejected".to_string(),
                },
                match want {
                    Some(w) => format!("{:?}/{:?}/{:?}", w.direct, w.extent, w.rest),
                    None => "no match".to_string(),
                }
            ),
        ),
    ))
}

pub fn nontrivial(tp: &TP, chars: &[char], want: &Option<Seen>) -> bool {
    let adj = |f: &dyn Fn(char) -> bool| chars.windows(2).any(|w| f(w[0]) != f(w[1]));
    match tp {
        TP::Int(r) | TP::Digits(r) | TP::DigitsCfg(r) => chars.first() == Some(&'0') && chars.len() > 1 || adj(&|c| c.is_digit(*r)),
        TP::AsciiIdent | TP::UniIdent => chars.iter().any(|c| !c.is_ascii()) || adj(&|c| unicode_ident::is_xid_continue(c)),
        TP::AsciiKw(k) | TP::UniKw(k) => {
            let kw: Vec<char> = KWS[*k].chars().collect();
            chars.len() > kw.len() && chars[..kw.len()] == kw[..]
        }
        TP::Ws | TP::Iws | TP::PaddedA | TP::PaddedInt | TP::Ws1Clone => adj(&|c| c.is_whitespace()),
        TP::Newline => chars.starts_with(&['\r', '\n']) || adj(&is_terminator),
        TP::Regex(..) => match want {
            Some(w) => w.extent.1 == 0 || w.rest.1 > 0,
            None => true,
        },
    }
}

/// one (parser, string): both input kinds against the recogniser. The parsers are passed in so the
/// enumerated tiers build them once.
pub fn check_one<'s>(tp: &TP, chars: &[char], s: &'s str, ps: &StrP<'s>, pb: Option<&U8P<'s>>, l: &mut Local, hash_nt: bool) -> CaseRes {
    let want = expected(tp, chars);
    l.evals += 1;
    diff(tp, "str", chars, run_str(ps, s), &want)?;
    if let (Some(pb), true) = (pb, s.is_ascii()) {
        l.evals += 1;
        diff(tp, "u8", chars, run_u8(pb, s.as_bytes()), &want)?;
        l.bump("ascii_string_on_both_kinds");
    }
    if let TP::Regex(re, k) = tp {
        // oracle cross-check: the backtracking matcher written for the generated pattern language
        let k = *k as usize;
        if chars.len() >= k {
            let mine = re.match_len(chars, k);
            let theirs = want.as_ref().map(|w| s[w.extent.0..w.extent.0 + w.extent.1].chars().count());
            if mine != theirs {
                l.bump("regex_oracle_crosscheck_disagreements");
            } else {
                l.bump("regex_oracle_crosscheck_agreements");
            }
        }
    }
    let nt = nontrivial(tp, chars, &want);
    l.bump(if want.is_some() { "matched" } else { "no_match" });
    if nt {
        l.bump("nontrivial");
        if hash_nt {
            use std::hash::{Hash, Hasher};
            let mut h = std::collections::hash_map::DefaultHasher::new();
            tp.hash(&mut h);
            chars.hash(&mut h);
            l.nontrivial.insert(h.finish());
        } else {
            l.nontrivial_counted += 1;
        }
    }
    if (nt && l.samples_nt.len() < 3) || (!nt && l.samples_tr.len() < 2) {
        let v = json!({"parser": tp.name(), "input": s, "nontrivial": nt, "documented_language_gives": format!("{:?}", want)});
        if nt {
            l.samples_nt.push(v)
        } else {
            l.samples_tr.push(v)
        }
    }
    Ok(())
}

pub fn check_case(case: &Case, l: &mut Local) -> Result<(), Fail> {
    let tp: TP = serde_json::from_value(case.extra.get("parser").cloned().unwrap_or_default()).map_err(|e| Fail::new("C14/replay", format!("bad replay file: {}", e)))?;
    let chars = case.toks();
    let s: String = chars.iter().collect();
    let ps = build_str(&tp);
    let pb = has_u8(&tp).then(|| build_u8(&tp));
    check_one(&tp, &chars, &s, &ps, pb.as_ref(), l, true).map_err(|(_, f)| f)
}

// ---------------------------------------------------------------------------------------------
// generators

const ALPHA1: [char; 12] = ['0', '1', '7', 'a', 'Z', 'f', '_', ' ', '\r', '\n', 'é', '.'];
const ALPHA2: [char; 12] = ['\t', '\x0B', '\x0C', '\u{85}', '\u{2028}', '\u{2029}', '\r', '\n', ' ', 'a', '0', 'z'];

/// interesting code points for random strings
fn pick_char(t: &mut Tape) -> char {
    const SPECIAL: &[char] = &[
        '0', '1', '9', 'a', 'z', 'A', 'Z', '_', ' ', '\t', '\n', '\r', '\x0B', '\x0C', '\u{85}', '\u{a0}', '\u{1680}', '\u{2000}', '\u{200a}', '\u{2028}', '\u{2029}', '\u{202f}', '\u{205f}', '\u{3000}', '\u{feff}', '\u{200b}', '\u{200d}', 'é', 'ß', 'λ', 'Ω', '٣', '५', '０', 'Ａ', '𝟘', '𝐀', '·', '\u{0301}', '\u{203f}', '℘', 'ゝ', '〇', '\u{10a}', '\u{10d}', '\u{120}', '\u{141}', '\u{1e00}', '\u{ff10}', '\u{e0100}',
    ];
    match t.weighted(&[5, 3, 2, 3, 2]) {
        0 => SPECIAL[t.pick(SPECIAL.len())],
        1 => char::from_u32(t.pick(0x80) as u32).unwrap(),
        2 => char::from_u32(0x80 + t.pick(0x780) as u32).unwrap(),
        3 => {
            let v = t.pick(0x10000) as u32;
            char::from_u32(v).unwrap_or('\u{fffd}')
        }
        _ => char::from_u32(0x10000 + t.pick(0x100000) as u32).unwrap_or('\u{10000}'),
    }
}

pub fn decode_random(tape: &[u32]) -> (TP, Vec<char>) {
    let mut t = Tape::new(tape);
    let fixed = fixed_parsers();
    let tp = fixed[t.pick(fixed.len())].clone();
    let n = t.pick(9);
    let mut s: Vec<char> = (0..n).map(|_| pick_char(&mut t)).collect();
    // half of the strings start the way the parser likes, so that long prefixes match
    if t.chance(1, 2) {
        let head: Vec<char> = match &tp {
            TP::Int(_) | TP::Digits(_) | TP::DigitsCfg(_) | TP::PaddedInt => vec![['1', '0', '7', 'f', 'z'][t.pick(5)]],
            TP::AsciiKw(k) | TP::UniKw(k) => KWS[*k].chars().collect(),
            TP::AsciiIdent | TP::UniIdent => vec![['a', '_', 'é', 'λ', '𝐀'][t.pick(5)]],
            TP::Newline => vec!['\r'],
            TP::PaddedA => vec![' ', 'a'],
            _ => vec![' '],
        };
        let mut h = head;
        h.extend(s);
        s = h;
    }
    (tp, s)
}

pub fn decode_regex(tape: &[u32]) -> (TP, Vec<char>) {
    let mut t = Tape::new(tape);
    let ascii = t.chance(1, 2);
    let alpha: Vec<char> = if ascii { vec!['a', 'b', 'c', '0', ' '] } else { vec!['a', 'b', 'é', '→', '𝄞', '\n'] };
    let d = 1 + t.pick(3) as u32;
    let re = gen_re(&mut t, d, &alpha);
    let n = t.pick(8);
    let k = t.pick(4) as u8;
    let mut extra = alpha.clone();
    extra.push('x');
    let s: Vec<char> = (0..n).map(|_| extra[t.pick(extra.len())]).collect();
    (TP::Regex(re, k), s)
}

/// fixed regex patterns incl. ones that match the empty string
pub fn regex_templates() -> Vec<Re> {
    let l = |c| Re::Lit(c);
    let cls = |a, b| Re::Class(vec![(a, b)], false);
    vec![
        l('a'),
        Re::Star(Box::new(l('a')), false),
        Re::Plus(Box::new(l('a')), false),
        Re::Opt(Box::new(l('a')), false),
        Re::Seq(vec![Re::Plus(Box::new(cls('0', '9')), false), Re::Opt(Box::new(Re::Seq(vec![l('e'), Re::Plus(Box::new(cls('0', '9')), false)])), false)]),
        Re::Alt(vec![l('a'), Re::Seq(vec![l('a'), l('b')])]),
        Re::Alt(vec![Re::Seq(vec![l('a'), l('b')]), l('a')]),
        Re::Star(Box::new(Re::Alt(vec![l('a'), l('b')])), true),
        Re::Seq(vec![Re::Star(Box::new(Re::Dot), false), l('b')]),
        Re::Class(vec![('a', 'a')], true),
        Re::Seq(vec![]),
        Re::Star(Box::new(l('é')), false),
    ]
}

/// patterns with zero-width assertions: what they match depends on the text BEFORE the position too
pub fn regex_assert_templates() -> Vec<Re> {
    let l = |c| Re::Lit(c);
    let sq = |v: Vec<Re>| Re::Seq(v);
    let mut v: Vec<Re> = (0..8u8).map(|a| sq(vec![Re::Assert(a), l('b')])).collect();
    v.extend((0..8u8).map(|a| sq(vec![Re::Star(Box::new(l('a')), false), Re::Assert(a)])));
    v.push(sq(vec![Re::Assert(2), Re::Plus(Box::new(Re::Class(vec![('a', 'b')], false)), false), Re::Assert(2)]));
    v.push(sq(vec![l('a'), Re::Assert(3), l('b')]));
    v.push(Re::Alt(vec![sq(vec![Re::Assert(0), l('a')]), sq(vec![Re::Assert(3), l('b')]), l(' ')]));
    v
}

pub fn run(tier: Tier, seed: u64) -> i32 {
    let ctx = Ctx::new(ID, tier, seed);
    ctx.replay_corpus(&check_case);
    let fixed = fixed_parsers();

    // tier 1: every string up to the bound over the two alphabets x every fixed parser
    let l1 = ctx.pick(5, 6);
    let l2 = ctx.pick(4, 5);
    let mut strings: Vec<Vec<char>> = all_strings(&ALPHA1, l1);
    strings.extend(all_strings(&ALPHA2, l2).into_iter().filter(|s| !s.is_empty()));
    let arena: Vec<String> = strings.iter().map(|s| s.iter().collect()).collect();
    ctx.with_local(|l| {
        l.add("enumerated_strings", strings.len() as u64);
        l.add("fixed_parsers", fixed.len() as u64);
    });
    // jobs = (parser, chunk of strings)
    let chunk = 20_000;
    let mut jobs: Vec<(usize, usize, usize)> = vec![];
    for pi in 0..fixed.len() {
        let mut a = 0;
        while a < strings.len() {
            jobs.push((pi, a, (a + chunk).min(strings.len())));
            a += chunk;
        }
    }
    ctx.par_jobs(&jobs, |&(pi, a, b), l| {
        let tp = &fixed[pi];
        let ps = build_str(tp);
        let pb = has_u8(tp).then(|| build_u8(tp));
        for i in a..b {
            check_one(tp, &strings[i], &arena[i], &ps, pb.as_ref(), l, false)?;
        }
        Ok(())
    });

    // tier 2: every Unicode scalar value in the contexts that reach each classification
    let ctxs: Vec<(&str, Vec<TP>)> = {
        let ids: Vec<TP> = fixed.iter().filter(|t| matches!(t, TP::AsciiIdent | TP::UniIdent | TP::AsciiKw(_) | TP::UniKw(_))).cloned().collect();
        let nums: Vec<TP> = fixed.iter().filter(|t| matches!(t, TP::Int(_) | TP::Digits(_))).cloned().collect();
        let ws: Vec<TP> = vec![TP::Ws, TP::Iws];
        vec![
            ("?", fixed.clone()),
            ("a?", ids.clone()),
            ("a?_", ids),
            ("1?", nums.clone()),
            ("0?", nums),
            (" ?", ws),
            ("\r?", vec![TP::Newline]),
            ("?a?", vec![TP::PaddedA, TP::PaddedInt]),
            ("?1?", vec![TP::PaddedInt]),
        ]
    };
    let step = ctx.pick(1u32, 1u32);
    let mut jobs2: Vec<(usize, usize, u32, u32)> = vec![];
    for (ci, (_, tps)) in ctxs.iter().enumerate() {
        for ti in 0..tps.len() {
            let mut a = 0u32;
            while a < 0x110000 {
                jobs2.push((ci, ti, a, (a + 0x8000).min(0x110000)));
                a += 0x8000;
            }
        }
    }
    ctx.par_jobs(&jobs2, |&(ci, ti, a, b), l| {
        let (pat, tps) = &ctxs[ci];
        let tp = &tps[ti];
        // build the strings of this block first (the parsers borrow for their lifetime)
        let mut block: Vec<(Vec<char>, String)> = vec![];
        let mut cp = a;
        while cp < b {
            if let Some(c) = char::from_u32(cp) {
                let chars: Vec<char> = pat.chars().map(|p| if p == '?' { c } else { p }).collect();
                let s: String = chars.iter().collect();
                block.push((chars, s));
            }
            cp += step;
        }
        let ps = build_str(tp);
        let pb = has_u8(tp).then(|| build_u8(tp));
        for (chars, s) in &block {
            check_one(tp, chars, s, &ps, pb.as_ref(), l, false)?;
        }
        l.add("all_scalar_values_contexts", block.len() as u64);
        Ok(())
    });

    // tier 3: regex templates on every short string, then generated patterns
    let rstrings = all_strings(&['a', 'b', '0', 'e', 'é'], ctx.pick(4, 5));
    let rarena: Vec<String> = rstrings.iter().map(|s| s.iter().collect()).collect();
    let rjobs: Vec<(Re, u8)> = regex_templates().into_iter().chain(regex_assert_templates()).flat_map(|re| (0..3u8).map(move |k| (re.clone(), k))).collect();
    ctx.par_jobs(&rjobs, |(re, k), l| {
        let tp = TP::Regex(re.clone(), *k);
        let ps = build_str(&tp);
        let pb = has_u8(&tp).then(|| build_u8(&tp));
        for (i, s) in rstrings.iter().enumerate() {
            check_one(&tp, s, &rarena[i], &ps, pb.as_ref(), l, false)?;
        }
        Ok(())
    });
    let n = ctx.pick(150_000, 3_000_000);
    ctx.par_random(n, 60, 3, |tape, l| {
        let (tp, chars) = decode_regex(tape);
        let s: String = chars.iter().collect();
        let ps = build_str(&tp);
        let pb = has_u8(&tp).then(|| build_u8(&tp));
        l.bump("generated_regex_cases");
        check_one(&tp, &chars, &s, &ps, pb.as_ref(), l, true)
    });

    // tier 4: random Unicode strings
    let n = ctx.pick(400_000, 6_000_000);
    ctx.par_random(n, 40, 4, |tape, l| {
        let (tp, chars) = decode_random(tape);
        let s: String = chars.iter().collect();
        let ps = build_str(&tp);
        let pb = has_u8(&tp).then(|| build_u8(&tp));
        l.bump("random_unicode_cases");
        if chars.iter().any(|c| (*c as u32) >= 0x10000) {
            l.bump("random_with_astral_char");
        }
        check_one(&tp, &chars, &s, &ps, pb.as_ref(), l, true)
    });
    ctx.exhaustive.store(true, std::sync::atomic::Ordering::Relaxed);
    ctx.finish(&check_case, RULE, ASSUMPTIONS, &|l| {
        for k in ["matched", "no_match", "nontrivial", "ascii_string_on_both_kinds", "generated_regex_cases", "random_with_astral_char", "regex_oracle_crosscheck_agreements"] {
            if l.counters.get(k).copied().unwrap_or(0) == 0 {
                return Err(format!("class '{}' is empty", k));
            }
        }
        if let Some(n) = l.counters.get("regex_oracle_crosscheck_disagreements") {
            return Err(format!("the two regex oracles (regex-automata on the suffix, backtracking matcher) disagree on {} cases: the oracle is not trusted", n));
        }
        Ok(())
    })
}
