//! C09 -- Pratt parsing respects binding power and associativity and preserves token order.
use crate::build::{fnv_step, Insp, FNV0};
use crate::driver::*;
use crate::gen::Tape;
use crate::grammar::G;
use crate::run::*;
use chumsky::pratt::*;
use chumsky::prelude::*;
use serde::{Deserialize, Serialize};
use serde_json::json;

pub const ID: &str = "C09";

pub const RULE: &str = "cases = (operator table, token string, table representation). Tables of 1..6 operators over the symbols + - * ! ^ ~ with four binding-power levels per table (mapped order-preservingly onto 0..3, onto values around 2^15 where a doubled power needs 17 bits, or onto the top of the u16 range) and fixities prefix / postfix / infix-left / infix-right, one operator in five written as the symbol doubled (`--`: a multi-token operator parser, which fails after consuming a token on `-a`); 70% 'plain' tables (at most one operator per symbol and fixity, never postfix and infix on one symbol, left- and right-associative infix never at one power), 30% unrestricted (duplicates, postfix+infix on one symbol, mixed associativity at one level: decided by declaration order); atoms a, b and parenthesised sub-expressions (recursive). Token strings: ALL strings over (atoms, used symbols, one foreign symbol, parentheses when used) up to length L for every table of the exhaustive tier, derived well-formed expressions with 0..2 edits and random strings up to length 40 in the random tier. Each table is built as a Vec of boxed operators, as a tuple of boxed operators and (for the 9 tables of the static catalogue) as a tuple of plain, unboxed operators; parse and check. Oracle: an independently written textbook binding-power evaluator over the table DESCRIPTION (prefix chain or atom; then repeatedly: the first postfix operator, in declaration order, that binds at least as tightly as the context; else the first infix operator that binds at least as tightly AND has a right operand, otherwise the operator stays unconsumed; equal powers resolved by associativity): compared on acceptance, the fully parenthesised tree and the consumed length (observed by following the expression with a rest-capturing parser). Oracle-free: flattening the tree yields exactly the consumed tokens in order; the three table representations and check mode agree; every fold callback's e.span() covers exactly the flattened leaves of the sub-expression it builds and its e.state() equals the fold of the tokens before its end (C07 / C18 for Pratt). Every statically typed table also runs as a clone of a clone with the original dropped. NON-TRIVIAL = the expression contains two operators of equal power, or a unary operator next to a binary one on the same operand, or an infix operator whose right operand is missing; distinct = distinct (table, string).";

pub const ASSUMPTIONS: &[&str] = &[
    "the reference evaluator (this file, `reference`) is written from the textbook algorithm and the statement; powers: an operator of power p captures an operand only if the operand's operators bind at least as tightly",
    "operators are tried in declaration order within their fixity; postfix operators are tried before infix operators at the same position",
];

#[derive(Clone, Copy, Debug, PartialEq, Eq, Hash, Serialize, Deserialize)]
pub enum Fix {
    Prefix,
    Postfix,
    Left,
    Right,
}
#[derive(Clone, Debug, PartialEq, Eq, Hash, Serialize, Deserialize)]
pub struct OpD {
    pub sym: char,
    pub fix: Fix,
    pub power: u16,
    /// the operator is the symbol written TWICE (`--`): an operator parser that can fail after having consumed a token
    #[serde(default)]
    pub wide: bool,
}

impl OpD {
    fn width(&self) -> usize {
        1 + self.wide as usize
    }
    fn at(&self, toks: &[char], pos: usize) -> bool {
        (0..self.width()).all(|k| toks.get(pos + k) == Some(&self.sym))
    }
    fn text(&self) -> String {
        std::iter::repeat(self.sym).take(self.width()).collect()
    }
}

/// operator occurrences in `Ex` are (symbol, position word): start position in the low 32 bits, width - 1 above
const WBIT: usize = 1 << 32;
fn op_pos(p: usize) -> usize {
    p & (WBIT - 1)
}
fn op_width(p: usize) -> usize {
    (p >> 32) + 1
}
fn op_text(c: char, p: usize) -> String {
    std::iter::repeat(c).take(op_width(p)).collect()
}
#[derive(Clone, Debug, PartialEq, Eq, Hash, Serialize, Deserialize)]
pub struct Table {
    pub ops: Vec<OpD>,
    pub parens: bool,
}

#[derive(Clone, Debug, PartialEq)]
pub enum Ex {
    Leaf(char, usize),
    Group(Box<Ex>, usize, usize),
    Pre(char, usize, Box<Ex>, (usize, usize), (u64, u64)),
    Post(Box<Ex>, char, usize, (usize, usize), (u64, u64)),
    In(Box<Ex>, char, usize, Box<Ex>, (usize, usize), (u64, u64)),
}

impl Ex {
    fn render(&self) -> String {
        match self {
            Ex::Leaf(c, _) => c.to_string(),
            Ex::Group(x, _, _) => format!("[{}]", x.render()),
            Ex::Pre(o, p, x, _, _) => format!("({}{})", op_text(*o, *p), x.render()),
            Ex::Post(x, o, p, _, _) => format!("({}{})", x.render(), op_text(*o, *p)),
            Ex::In(l, o, p, r, _, _) => format!("({}{}{})", l.render(), op_text(*o, *p), r.render()),
        }
    }
    /// (token, position) of every token of the sub-expression, in tree order
    fn flatten(&self, out: &mut Vec<(char, usize)>) {
        match self {
            Ex::Leaf(c, p) => out.push((*c, *p)),
            Ex::Group(x, s, e) => {
                out.push(('(', *s));
                x.flatten(out);
                out.push((')', *e - 1));
            }
            Ex::Pre(o, p, x, _, _) => {
                (0..op_width(*p)).for_each(|k| out.push((*o, op_pos(*p) + k)));
                x.flatten(out);
            }
            Ex::Post(x, o, p, _, _) => {
                x.flatten(out);
                (0..op_width(*p)).for_each(|k| out.push((*o, op_pos(*p) + k)));
            }
            Ex::In(l, o, p, r, _, _) => {
                l.flatten(out);
                (0..op_width(*p)).for_each(|k| out.push((*o, op_pos(*p) + k)));
                r.flatten(out);
            }
        }
    }
    fn check_callbacks(&self, toks: &[char]) -> Result<(), String> {
        let mut fl = vec![];
        self.flatten(&mut fl);
        let (first, last) = (fl.first().map(|x| x.1).unwrap_or(0), fl.last().map(|x| x.1 + 1).unwrap_or(0));
        let chk = |span: &(usize, usize), st: &(u64, u64), what: &str| -> Result<(), String> {
            if *span != (first, last) {
                return Err(format!("the {} fold callback building {} got the span {}..{} but the sub-expression covers tokens {}..{}", what, self.render(), span.0, span.1, first, last));
            }
            let mut h = FNV0;
            for c in &toks[..last] {
                h = fnv_step(h, *c);
            }
            if *st != (last as u64, h) {
                return Err(format!("the {} fold callback building {} observed the state ({}, {:x}) but {} tokens precede the end of the sub-expression", what, self.render(), st.0, st.1, last));
            }
            Ok(())
        };
        match self {
            Ex::Leaf(..) => Ok(()),
            Ex::Group(x, _, _) => x.check_callbacks(toks),
            Ex::Pre(_, _, x, sp, st) => {
                chk(sp, st, "prefix")?;
                x.check_callbacks(toks)
            }
            Ex::Post(x, _, _, sp, st) => {
                chk(sp, st, "postfix")?;
                x.check_callbacks(toks)
            }
            Ex::In(a, _, _, b, sp, st) => {
                chk(sp, st, "infix")?;
                a.check_callbacks(toks)?;
                b.check_callbacks(toks)
            }
        }
    }
}

// ---- the textbook reference ----

#[derive(Default)]
struct RefStats {
    equal_power_pair: bool,
    unary_next_to_binary: bool,
    missing_right_operand: bool,
}

fn lp(o: &OpD) -> u32 {
    match o.fix {
        Fix::Left => o.power as u32 * 2,
        Fix::Right => o.power as u32 * 2 + 1,
        _ => 0,
    }
}
fn rp(o: &OpD) -> u32 {
    match o.fix {
        Fix::Left => o.power as u32 * 2 + 1,
        Fix::Right => o.power as u32 * 2,
        _ => 0,
    }
}

fn r_atom(t: &Table, toks: &[char], pos: usize, st: &mut RefStats, fuel: &mut u32) -> Option<(String, usize)> {
    match toks.get(pos) {
        Some(c @ ('a' | 'b')) => Some((c.to_string(), pos + 1)),
        Some('(') if t.parens => {
            let (x, p) = r_expr(t, toks, pos + 1, 0, st, fuel)?;
            if toks.get(p) == Some(&')') {
                Some((format!("[{}]", x), p + 1))
            } else {
                None
            }
        }
        _ => None,
    }
}

fn r_expr(t: &Table, toks: &[char], pos: usize, min: u32, st: &mut RefStats, fuel: &mut u32) -> Option<(String, usize)> {
    if *fuel == 0 {
        return None;
    }
    *fuel -= 1;
    let mut lhs: Option<(String, usize)> = None;
    let mut lhs_power: Option<u16> = None;
    for o in t.ops.iter().filter(|o| o.fix == Fix::Prefix) {
        if o.at(toks, pos) {
            // a prefix operator of power p takes an operand whose operators bind at least as tightly as p
            if let Some((x, p)) = r_expr(t, toks, pos + o.width(), o.power as u32 * 2, st, fuel) {
                lhs = Some((format!("({}{})", o.text(), x), p));
                lhs_power = Some(o.power);
                break;
            }
        }
    }
    let (mut l, mut p) = match lhs {
        Some(x) => x,
        None => r_atom(t, toks, pos, st, fuel)?,
    };
    let mut last_unary = lhs_power.is_some();
    let mut last_powers: Vec<u16> = lhs_power.into_iter().collect();
    'outer: loop {
        for o in t.ops.iter().filter(|o| o.fix == Fix::Postfix) {
            if o.power as u32 * 2 + 1 >= min && o.at(toks, p) {
                l = format!("({}{})", l, o.text());
                p += o.width();
                if last_powers.contains(&o.power) {
                    st.equal_power_pair = true;
                }
                last_powers.push(o.power);
                last_unary = true;
                continue 'outer;
            }
        }
        for o in t.ops.iter().filter(|o| matches!(o.fix, Fix::Left | Fix::Right)) {
            if lp(o) >= min && o.at(toks, p) {
                match r_expr(t, toks, p + o.width(), rp(o), st, fuel) {
                    Some((r, p2)) => {
                        l = format!("({}{}{})", l, o.text(), r);
                        p = p2;
                        if last_unary {
                            st.unary_next_to_binary = true;
                        }
                        if last_powers.contains(&o.power) {
                            st.equal_power_pair = true;
                        }
                        last_powers.push(o.power);
                        last_unary = false;
                        continue 'outer;
                    }
                    None => {
                        // the operator has no right operand: it stays unconsumed
                        st.missing_right_operand = true;
                    }
                }
            }
        }
        break;
    }
    Some((l, p))
}

// ---- the real parser, three table representations ----

type E<'a> = extra::Full<Rich<'a, char>, Insp, ()>;
type P<'a> = chumsky::Boxed<'a, 'a, &'a str, Ex, E<'a>>;
type BOp<'a> = chumsky::pratt::Boxed<'a, 'a, &'a str, Ex, E<'a>>;

fn boxed_op<'a>(o: &OpD) -> BOp<'a> {
    let (sym, wide) = (o.sym, o.wide);
    let text = o.text();
    // a wide operator is the multi-token just("--"): it fails AFTER consuming one token on "-a"
    let opp = move || just::<_, &'a str, E<'a>>(text.clone()).map_with(move |_, e| (sym, e.span().start | if wide { WBIT } else { 0 }));
    macro_rules! st {
        ($e:expr) => {{
            let s = $e.state();
            (s.n, s.h)
        }};
    }
    match o.fix {
        Fix::Prefix => prefix(o.power, opp(), |(c, p): (char, usize), x: Ex, e: &mut chumsky::input::MapExtra<'a, '_, &'a str, E<'a>>| {
            let sp = e.span();
            Ex::Pre(c, p, Box::new(x), (sp.start, sp.end), st!(e))
        })
        .boxed(),
        Fix::Postfix => postfix(o.power, opp(), |x: Ex, (c, p): (char, usize), e: &mut chumsky::input::MapExtra<'a, '_, &'a str, E<'a>>| {
            let sp = e.span();
            Ex::Post(Box::new(x), c, p, (sp.start, sp.end), st!(e))
        })
        .boxed(),
        Fix::Left | Fix::Right => {
            let assoc = if o.fix == Fix::Left { left(o.power) } else { right(o.power) };
            infix(assoc, opp(), |l: Ex, (c, p): (char, usize), r: Ex, e: &mut chumsky::input::MapExtra<'a, '_, &'a str, E<'a>>| {
                let sp = e.span();
                Ex::In(Box::new(l), c, p, Box::new(r), (sp.start, sp.end), st!(e))
            })
            .boxed()
        }
    }
}

fn atom<'a>(parens: bool, expr: Option<P<'a>>) -> P<'a> {
    let leaf = one_of::<_, &'a str, E<'a>>("ab").map_with(|c, e| Ex::Leaf(c, e.span().start));
    match (parens, expr) {
        (true, Some(e)) => leaf
            .or(e.delimited_by(just('('), just(')')).map_with(|x, e| {
                let sp = e.span();
                Ex::Group(Box::new(x), sp.start, sp.end)
            }))
            .boxed(),
        _ => leaf.boxed(),
    }
}

#[derive(Clone, Copy, PartialEq, Debug)]
enum Repr {
    VecBoxed,
    TupleBoxed,
}

fn build<'a>(t: &Table, repr: Repr) -> P<'a> {
    let ops: Vec<BOp<'a>> = t.ops.iter().map(boxed_op).collect();
    let mk = move |a: P<'a>| -> P<'a> {
        match repr {
            Repr::VecBoxed => a.pratt(ops.clone()).boxed(),
            Repr::TupleBoxed => {
                let o = |i: usize| ops[i].clone();
                match ops.len() {
                    1 => a.pratt((o(0),)).boxed(),
                    2 => a.pratt((o(0), o(1))).boxed(),
                    3 => a.pratt((o(0), o(1), o(2))).boxed(),
                    4 => a.pratt((o(0), o(1), o(2), o(3))).boxed(),
                    5 => a.pratt((o(0), o(1), o(2), o(3), o(4))).boxed(),
                    _ => a.pratt((o(0), o(1), o(2), o(3), o(4), o(5))).boxed(),
                }
            }
        }
    };
    if t.parens {
        recursive(move |e| mk(atom(true, Some(e.boxed())))).boxed()
    } else {
        mk(atom(false, None))
    }
}

/// the static catalogue: plain (unboxed) operator tuples with their descriptions
fn static_catalogue<'a>() -> Vec<(Table, P<'a>, P<'a>)> {
    macro_rules! st {
        ($e:expr) => {{
            let s = $e.state();
            (s.n, s.h)
        }};
    }
    macro_rules! opp {
        ($c:expr) => {
            just::<_, &'a str, E<'a>>($c).map_with(|c, e| (c, e.span().start))
        };
    }
    macro_rules! oppw {
        ($c:expr, $s:expr) => {
            just::<_, &'a str, E<'a>>($s).map_with(|_, e| ($c, e.span().start | WBIT))
        };
    }
    macro_rules! pre {
        ($p:expr, $c:expr) => {
            pre!(@ $p, opp!($c))
        };
        (@ $p:expr, $o:expr) => {
            prefix($p, $o, |(c, p): (char, usize), x: Ex, e: &mut chumsky::input::MapExtra<'a, '_, &'a str, E<'a>>| {
                let sp = e.span();
                Ex::Pre(c, p, Box::new(x), (sp.start, sp.end), st!(e))
            })
        };
    }
    macro_rules! post {
        ($p:expr, $c:expr) => {
            postfix($p, opp!($c), |x: Ex, (c, p): (char, usize), e: &mut chumsky::input::MapExtra<'a, '_, &'a str, E<'a>>| {
                let sp = e.span();
                Ex::Post(Box::new(x), c, p, (sp.start, sp.end), st!(e))
            })
        };
    }
    macro_rules! inf {
        ($a:expr, $c:expr) => {
            inf!(@ $a, opp!($c))
        };
        (@ $a:expr, $o:expr) => {
            infix($a, $o, |l: Ex, (c, p): (char, usize), r: Ex, e: &mut chumsky::input::MapExtra<'a, '_, &'a str, E<'a>>| {
                let sp = e.span();
                Ex::In(Box::new(l), c, p, Box::new(r), (sp.start, sp.end), st!(e))
            })
        };
    }
    let d = |sym: char, fix: Fix, power: u16| OpD { sym, fix, power, wide: false };
    let dw = |sym: char, fix: Fix, power: u16| OpD { sym, fix, power, wide: true };
    let tb = |ops: Vec<OpD>| Table { ops, parens: false };
    let a = || atom(false, None);
    // every table twice: the value itself, and a clone of a clone of it with the original dropped (the operators' and the
    // Pratt parser's own Clone impls: a boxed clone only bumps a reference count)
    fn ent<'a, Q: Parser<'a, &'a str, Ex, E<'a>> + Clone + 'a>(t: Table, p: Q) -> (Table, P<'a>, P<'a>) {
        let c = p.clone().clone();
        (t, p.boxed(), c.boxed())
    }
    vec![
        ent(tb(vec![d('+', Fix::Left, 1)]), a().pratt((inf!(left(1), '+'),))),
        ent(tb(vec![d('+', Fix::Left, 1), d('*', Fix::Left, 2)]), a().pratt((inf!(left(1), '+'), inf!(left(2), '*')))),
        ent(tb(vec![d('^', Fix::Right, 1), d('+', Fix::Left, 0), d('-', Fix::Prefix, 2)]), a().pratt((inf!(right(1), '^'), inf!(left(0), '+'), pre!(2, '-')))),
        ent(tb(vec![d('-', Fix::Prefix, 1), d('-', Fix::Left, 1), d('!', Fix::Postfix, 1)]), a().pratt((pre!(1, '-'), inf!(left(1), '-'), post!(1, '!')))),
        ent(tb(vec![d('!', Fix::Postfix, 0), d('+', Fix::Left, 1), d('~', Fix::Prefix, 3), d('*', Fix::Right, 1)]), a().pratt((post!(0, '!'), inf!(left(1), '+'), pre!(3, '~'), inf!(right(1), '*')))),
        ent(tb(vec![d('+', Fix::Left, 0), d('-', Fix::Left, 0), d('*', Fix::Left, 1), d('^', Fix::Right, 2), d('-', Fix::Prefix, 1)]), a().pratt((inf!(left(0), '+'), inf!(left(0), '-'), inf!(left(1), '*'), inf!(right(2), '^'), pre!(1, '-')))),
        ent(tb(vec![d('+', Fix::Left, 0), d('-', Fix::Left, 0), d('*', Fix::Left, 1), d('^', Fix::Right, 2), d('-', Fix::Prefix, 3), d('!', Fix::Postfix, 2)]), a().pratt((inf!(left(0), '+'), inf!(left(0), '-'), inf!(left(1), '*'), inf!(right(2), '^'), pre!(3, '-'), post!(2, '!')))),
        ent(tb(vec![d('!', Fix::Postfix, 1), d('+', Fix::Left, 1)]), a().pratt((post!(1, '!'), inf!(left(1), '+')))),
        // multi-token operators declared before their one-token prefixes
        ent(tb(vec![dw('-', Fix::Prefix, 2), d('-', Fix::Prefix, 1), dw('*', Fix::Right, 2), d('-', Fix::Left, 1), d('*', Fix::Left, 2)]), a().pratt((pre!(@ 2, oppw!('-', "--")), pre!(1, '-'), inf!(@ right(2), oppw!('*', "**")), inf!(left(1), '-'), inf!(left(2), '*')))),
        // powers from the upper half of the u16 range (2 * power + 1 needs 17 bits)
        ent(tb(vec![d('-', Fix::Prefix, 40000), d('+', Fix::Left, 10000), d('*', Fix::Left, 20000), d('!', Fix::Postfix, 50000), d('^', Fix::Right, 65535), d('~', Fix::Prefix, 32768)]), a().pratt((pre!(40000, '-'), inf!(left(10000), '+'), inf!(left(20000), '*'), post!(50000, '!'), inf!(right(65535), '^'), pre!(32768, '~')))),
    ]
}

#[derive(Debug)]
struct Got {
    tree: Option<String>,
    consumed: usize,
    ex: Option<Ex>,
    nerr: usize,
    panic: Option<String>,
}

fn run_impl<'a>(p: &P<'a>, s: &'a str, check: bool) -> Got {
    let q = p.clone().then(any().repeated().to_slice()).boxed();
    let r = quietly(|| {
        let mut st = Insp::default();
        if check {
            let r = q.check_with_state(s, &mut st);
            let (ho, ne) = (r.has_output(), r.errors().len());
            (None, ho, ne)
        } else {
            let (o, e) = q.parse_with_state(s, &mut st).into_output_errors();
            let ho = o.is_some();
            (o, ho, e.len())
        }
    });
    match r {
        Err(_) => Got { tree: None, consumed: 0, ex: None, nerr: 0, panic: LAST_PANIC.with(|p| p.borrow_mut().take()) },
        Ok((o, ho, nerr)) => match o {
            Some((ex, rest)) => Got { tree: Some(ex.render()), consumed: s.len() - rest.len(), ex: Some(ex), nerr, panic: None },
            None => Got { tree: if ho { Some(String::new()) } else { None }, consumed: 0, ex: None, nerr, panic: None },
        },
    }
}

fn mk_case(t: &Table, toks: &[char], sub: &str) -> Case {
    let mut c = Case::new(ID, sub, &G::Empty, toks);
    c.extra = json!({ "table": t });
    c
}

fn check_with(t: &Table, toks: &[char], sub: &str, statics: Option<usize>, l: &mut Local) -> CaseRes {
    let case = || mk_case(t, toks, sub);
    let s: String = toks.iter().collect();
    let mut st = RefStats::default();
    let mut fuel = 200_000u32;
    let want = r_expr(t, toks, 0, 0, &mut st, &mut fuel);
    if fuel == 0 {
        l.bump("skipped_fuel");
        return Ok(());
    }
    let pv = build(t, Repr::VecBoxed);
    let gv = run_impl(&pv, &s, false);
    l.evals += 1;
    if let Some(m) = &gv.panic {
        return Err((case(), Fail::new("C09/panic", format!("parse panicked: {}", m))));
    }
    // (1) against the textbook algorithm
    match (&want, &gv.tree) {
        (None, None) => {}
        (Some((wt, wp)), Some(gt)) => {
            if wt != gt {
                return Err((case(), Fail::new("C09/tree", format!("built {} but the binding-power algorithm builds {}", gt, wt))));
            }
            if *wp != gv.consumed {
                return Err((case(), Fail::new("C09/consumed", format!("consumed {} tokens but the binding-power algorithm consumes {} (tree {})", gv.consumed, wp, wt))));
            }
        }
        (None, Some(gt)) => return Err((case(), Fail::new("C09/accept", format!("accepted (tree {}, {} tokens) what the binding-power algorithm rejects", gt, gv.consumed)))),
        (Some((wt, wp)), None) => return Err((case(), Fail::new("C09/accept", format!("rejected what the binding-power algorithm parses as {} ({} tokens)", wt, wp)))),
    }
    if gv.tree.is_some() != (gv.nerr == 0) {
        return Err((case(), Fail::new("C09/result-shape", format!("output present = {} with {} errors", gv.tree.is_some(), gv.nerr))));
    }
    // (2) oracle-free: token order, callback spans and states
    if let Some(ex) = &gv.ex {
        let mut fl = vec![];
        ex.flatten(&mut fl);
        let got: Vec<char> = fl.iter().map(|x| x.0).collect();
        let pos_ok = fl.iter().enumerate().all(|(i, x)| x.1 == i);
        if got != toks[..gv.consumed] || !pos_ok {
            return Err((case(), Fail::new("C09/token-order", format!("flattening {} gives {:?} at positions {:?}, the consumed tokens are {:?}", ex.render(), got, fl.iter().map(|x| x.1).collect::<Vec<_>>(), &toks[..gv.consumed]))));
        }
        if let Err(m) = ex.check_callbacks(toks) {
            let sig = if m.contains("span") { "C09/callback-span" } else { "C09/callback-state" };
            return Err((case(), Fail::new(sig, m)));
        }
    }
    // (3) representations and check mode agree
    let pt = build(t, Repr::TupleBoxed);
    let mut others: Vec<(&str, Got)> = vec![("tuple of boxed operators", run_impl(&pt, &s, false)), ("Vec table in check mode", run_impl(&pv, &s, true)), ("tuple table in check mode", run_impl(&pt, &s, true))];
    l.evals += 3;
    let cat;
    if let Some(i) = statics {
        cat = static_catalogue();
        let ps = &cat[i].1;
        others.push(("tuple of plain operators", run_impl(ps, &s, false)));
        others.push(("tuple of plain operators in check mode", run_impl(ps, &s, true)));
        let pc = &cat[i].2;
        others.push(("clone of a clone of the plain-operator table", run_impl(pc, &s, false)));
        others.push(("clone of a clone of the plain-operator table in check mode", run_impl(pc, &s, true)));
        l.evals += 4;
        l.bump("static_catalogue_runs");
    }
    for (name, g) in &others {
        if let Some(m) = &g.panic {
            return Err((case(), Fail::new("C09/panic", format!("{} panicked: {}", name, m))));
        }
        let check = name.contains("check mode");
        if g.tree.is_some() != gv.tree.is_some() || g.nerr != gv.nerr {
            return Err((case(), Fail::new("C09/representation", format!("{}: accepted={} errors={}, Vec of boxed operators: accepted={} errors={}", name, g.tree.is_some(), g.nerr, gv.tree.is_some(), gv.nerr))));
        }
        if !check && (g.tree != gv.tree || g.consumed != gv.consumed || g.ex != gv.ex) {
            return Err((case(), Fail::new("C09/representation", format!("{}: tree {:?} consumed {}, Vec of boxed operators: tree {:?} consumed {}", name, g.tree, g.consumed, gv.tree, gv.consumed))));
        }
    }
    let nontrivial = want.is_some() && (st.equal_power_pair || st.unary_next_to_binary || st.missing_right_operand);
    l.bump(if want.is_some() { "parsed" } else { "rejected" });
    if want.is_some() {
        if st.equal_power_pair {
            l.bump("two_operators_of_equal_power");
        }
        if st.unary_next_to_binary {
            l.bump("unary_next_to_binary");
        }
        if st.missing_right_operand {
            l.bump("infix_operator_without_right_operand");
        }
        if want.as_ref().map(|w| w.1 < toks.len()).unwrap_or(false) {
            l.bump("proper_prefix_consumed");
        }
    }
    if nontrivial {
        use std::hash::{Hash, Hasher};
        let mut h = std::collections::hash_map::DefaultHasher::new();
        t.hash(&mut h);
        toks.hash(&mut h);
        l.nontrivial.insert(h.finish());
    }
    if (nontrivial && l.samples_nt.len() < 3) || (!nontrivial && l.samples_tr.len() < 2) {
        let v = json!({"sub": sub, "table": format!("{:?}", t.ops), "parens": t.parens, "input": s, "nontrivial": nontrivial, "outcome": format!("{:?}", want)});
        if nontrivial {
            l.samples_nt.push(v)
        } else {
            l.samples_tr.push(v)
        }
    }
    Ok(())
}

pub fn check_case(case: &Case, l: &mut Local) -> Result<(), Fail> {
    let t: Table = serde_json::from_value(case.extra.get("table").cloned().unwrap_or(json!(null))).map_err(|e| Fail::new("C09/replay", format!("bad table: {}", e)))?;
    let idx = if case.sub == "static" { static_catalogue::<'static>().iter().position(|(ct, _, _)| *ct == t) } else { None };
    check_with(&t, &case.toks(), &case.sub, idx, l).map_err(|(_, f)| f)
}

const SYMS: &[char] = &['+', '-', '*', '!', '^', '~'];

fn gen_table(t: &mut Tape, plain: bool) -> Table {
    let n = 1 + t.weighted(&[2, 3, 3, 2, 1, 1]);
    // the statement says "arbitrary binding powers": four LEVELS per table, mapped order-preservingly onto the u16 range
    // (small values; values around the point where a doubled power no longer fits 16 bits; the top of the range)
    const SCALES: [[u16; 4]; 6] = [[0, 1, 2, 3], [0, 1, 2, 3], [0, 1, 2, 3], [1, 16383, 32768, 65535], [10000, 20000, 40000, 60000], [32767, 32768, 32769, 65535]];
    let scale = SCALES[t.pick(SCALES.len())];
    let mut ops: Vec<OpD> = vec![];
    let mut guard = 0;
    while ops.len() < n && guard < 60 {
        guard += 1;
        let sym = SYMS[t.pick(SYMS.len())];
        let fix = [Fix::Prefix, Fix::Postfix, Fix::Left, Fix::Left, Fix::Right][t.pick(5)];
        let power = scale[t.pick(4)];
        let wide = t.chance(1, 5);
        let o = OpD { sym, fix, power, wide };
        if plain {
            let infix = |f: Fix| matches!(f, Fix::Left | Fix::Right);
            let clash = ops.iter().any(|p| {
                (p.sym == sym && p.wide == wide && (p.fix == fix || (infix(p.fix) && infix(fix)) || (p.fix == Fix::Postfix && infix(fix)) || (infix(p.fix) && fix == Fix::Postfix)))
                    || (infix(p.fix) && infix(fix) && p.fix != fix && p.power == power)
            });
            if clash {
                continue;
            }
        }
        ops.push(o);
    }
    if ops.is_empty() {
        ops.push(OpD { sym: '+', fix: Fix::Left, power: 1, wide: false });
    }
    Table { ops, parens: t.chance(1, 3) }
}

fn alphabet(t: &Table) -> Vec<char> {
    let mut a = vec!['a', 'b'];
    for o in &t.ops {
        if !a.contains(&o.sym) {
            a.push(o.sym);
        }
    }
    if t.parens {
        a.push('(');
        a.push(')');
    }
    a
}

fn sample_expr(t: &Table, tape: &mut Tape, depth: u32, out: &mut Vec<char>) {
    let pre: Vec<&OpD> = t.ops.iter().filter(|o| o.fix == Fix::Prefix).collect();
    let post: Vec<&OpD> = t.ops.iter().filter(|o| o.fix == Fix::Postfix).collect();
    let inf: Vec<&OpD> = t.ops.iter().filter(|o| matches!(o.fix, Fix::Left | Fix::Right)).collect();
    while !pre.is_empty() && tape.chance(1, 3) {
        out.extend(pre[tape.pick(pre.len())].text().chars());
    }
    if t.parens && depth < 3 && tape.chance(1, 5) {
        out.push('(');
        sample_expr(t, tape, depth + 1, out);
        out.push(')');
    } else {
        out.push(['a', 'b'][tape.pick(2)]);
    }
    while !post.is_empty() && tape.chance(1, 3) {
        out.extend(post[tape.pick(post.len())].text().chars());
    }
    if !inf.is_empty() && depth < 6 && out.len() < 36 && tape.chance(3, 5) {
        out.extend(inf[tape.pick(inf.len())].text().chars());
        sample_expr(t, tape, depth + 1, out);
    }
}

pub fn decode(tape: &[u32]) -> (Table, Vec<char>) {
    let mut t = Tape::new(tape);
    let plain = !t.chance(3, 10);
    let table = gen_table(&mut t, plain);
    let mut alpha = alphabet(&table);
    alpha.push('z');
    let mut out = vec![];
    if t.chance(7, 10) {
        sample_expr(&table, &mut t, 0, &mut out);
        for _ in 0..t.weighted(&[5, 3, 2]) {
            let n = out.len();
            match t.pick(4) {
                0 if n > 0 => {
                    out.remove(t.pick(n));
                }
                1 => out.insert(t.pick(n + 1), alpha[t.pick(alpha.len())]),
                2 if n > 0 => {
                    let i = t.pick(n);
                    out[i] = alpha[t.pick(alpha.len())];
                }
                _ if n > 0 => out.truncate(t.pick(n)),
                _ => {}
            }
        }
    } else {
        let n = t.pick(41);
        for _ in 0..n {
            out.push(alpha[t.pick(alpha.len())]);
        }
    }
    out.truncate(40);
    (table, out)
}

pub fn run(tier: Tier, seed: u64) -> i32 {
    let ctx = Ctx::new(ID, tier, seed);
    ctx.replay_corpus(&check_case);
    // static catalogue: every string up to L over the table's alphabet
    let ncat = static_catalogue().len();
    let cat_idx: Vec<usize> = (0..ncat).collect();
    let lcat = ctx.pick(6, 7);
    ctx.par_jobs(&cat_idx, |i, l| {
        let t = static_catalogue::<'static>()[*i].0.clone();
        let t = &t;
        let mut alpha = alphabet(t);
        alpha.push('z');
        let maxl = if alpha.len() >= 8 { lcat - 1 } else { lcat };
        for s in crate::gen::all_strings(&alpha, maxl) {
            check_with(t, &s, "static", Some(*i), l)?;
        }
        Ok(())
    });
    // exhaustive tier: generated tables x all short strings
    let ntab = ctx.pick(300u64, 3000u64);
    let lmax = ctx.pick(6usize, 8usize);
    let mut tables: Vec<Table> = vec![];
    {
        let mut runner = tape_runner(seed, 9, 0);
        use proptest::strategy::{Strategy, ValueTree};
        let strat = proptest::collection::vec(proptest::num::u32::ANY, 40..=40);
        for k in 0..ntab {
            let tape = strat.new_tree(&mut runner).unwrap().current();
            let mut t = Tape::new(&tape);
            tables.push(gen_table(&mut t, k % 10 < 7));
        }
    }
    ctx.with_local(|l| {
        l.add("exhaustive_tables", tables.len() as u64);
        l.add("static_catalogue_tables", ncat as u64);
    });
    ctx.exhaustive.store(true, std::sync::atomic::Ordering::Relaxed);
    ctx.par_jobs(&tables, |t, l| {
        let mut alpha = alphabet(t);
        alpha.push('z');
        // keep the enumeration at about 10^4..10^5 strings per table
        let mut len = lmax;
        while (alpha.len() as f64).powi(len as i32) > 120_000.0 && len > 3 {
            len -= 1;
        }
        l.bump(&format!("exhaustive_len_{}", len));
        for s in crate::gen::all_strings(&alpha, len) {
            check_with(t, &s, "exh", None, l)?;
        }
        Ok(())
    });
    let n = ctx.pick(300_000, 4_000_000);
    ctx.par_random(n, 160, 9, |tape, l| {
        let (t, s) = decode(tape);
        check_with(&t, &s, "rand", None, l)
    });
    ctx.finish(&check_case, RULE, ASSUMPTIONS, &|l| {
        for k in ["two_operators_of_equal_power", "unary_next_to_binary", "infix_operator_without_right_operand", "static_catalogue_runs", "parsed", "rejected", "proper_prefix_consumed"] {
            if l.counters.get(k).copied().unwrap_or(0) == 0 {
                return Err(format!("class '{}' is empty", k));
            }
        }
        Ok(())
    })
}

/// C07's share of this module: the spans (and slices) seen by Pratt fold callbacks. Runs a reduced table tier
/// and returns the first failure whose signature concerns a callback span.
pub fn callback_span_tier(ctx: &Ctx, ntab: u64, maxlen: usize, rewrap: &(dyn Fn(Case, Fail) -> (Case, Fail) + Sync)) {
    let mut tables: Vec<Table> = static_catalogue::<'static>().into_iter().map(|(t, _, _)| t).collect();
    {
        let mut runner = tape_runner(ctx.seed, 97, 0);
        use proptest::strategy::{Strategy, ValueTree};
        let strat = proptest::collection::vec(proptest::num::u32::ANY, 40..=40);
        for k in 0..ntab {
            let tape = strat.new_tree(&mut runner).unwrap().current();
            let mut t = Tape::new(&tape);
            tables.push(gen_table(&mut t, k % 10 < 7));
        }
    }
    ctx.par_jobs(&tables, |t, l| {
        let mut alpha = alphabet(t);
        alpha.push('z');
        let mut len = maxlen;
        while (alpha.len() as f64).powi(len as i32) > 20_000.0 && len > 3 {
            len -= 1;
        }
        let mut l2 = Local::default();
        for s in crate::gen::all_strings(&alpha, len) {
            match check_with(t, &s, "exh", None, &mut l2) {
                Ok(()) => {}
                Err((c, f)) => {
                    if f.sig.contains("callback") {
                        return Err(rewrap(c, f));
                    }
                    // anything else is C09's own business
                }
            }
        }
        l.evals += l2.evals;
        l.add("pratt_fold_callback_cases", l2.evals);
        Ok(())
    });
}
