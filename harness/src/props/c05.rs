//! C05 -- backtracking is atomic: abandoned paths leave no trace, kept paths lose nothing.
use super::common::*;
use crate::build::*;
use crate::compare::*;
use crate::driver::*;
use crate::gen::*;
use crate::grammar::*;
use crate::reference::{self, RefOut};
use crate::run::*;

pub const ID: &str = "C05";

pub const RULE: &str = "cases = (grammar, input): C01/C02-class grammars with validate(..) emitters (1..2 custom errors each), recover_with(via_parser | skip_until | skip_then_retry_until) nodes, map_with closures that push a tag onto the user state (an Inspector whose checkpoint is the log length), and custom parsers that consume k tokens and then fail, inserted at random positions (inside choice alternatives, repetition items and separators, or_not, not, and_is, rewind, fold operands); inputs derived (+edits) and random; plus a bounded-exhaustive tier of hand-shaped templates (one per backtracking site) x all strings over 3 symbols up to length L. Oracle: whenever the parse produces an output, errors() must equal, as a sequence, the emissions of the surviving path computed by the reference (validate emissions by tag and span, recovered errors by kind), and the final user-state log must equal the pushes of the surviving path in order; parse and check must agree on the error list. NON-TRIVIAL = the reference shows >= 1 emission or state push inside a path that was later abandoned, or an emission kept under and_is / rewind, or a custom parser that failed after consuming; distinct = distinct (grammar, input).";

pub const ASSUMPTIONS: &[&str] = &[
    "the reference computes the surviving path's emissions by construction (an abandoned attempt returns nothing); the content of recovered errors is checked by C08, here only their place in the sequence",
    "emitters are not generated inside the right-hand side of and_is (a positive lookahead whose output is discarded: the statement does not say whether its emissions count)",
    "closures are pure (chumsky documents that mappers may be skipped or repeated); state pushes are compared only through the Inspector's save/rewind protocol",
];

fn describe(r: &RefOut) -> String {
    format!("emitted {:?}, log {:?}", r.emitted.iter().map(|e| format!("{:?}@{:?}", e.kind_name(), e.span)).collect::<Vec<_>>(), r.log)
}

fn cmp_with(r: &RefOut, o: &ImplOut, sm: &SpanMap) -> Result<(), (String, String)> {
    if o.has_output != r.accepted {
        return Err(("C05/accept".into(), format!("has_output={} but the reference accepts={} (errors {:?})", o.has_output, r.accepted, o.errs)));
    }
    if !o.has_output {
        return Ok(());
    }
    if o.errs.len() != r.emitted.len() {
        let sig = if o.errs.len() < r.emitted.len() { "C05/emission-lost" } else { "C05/emission-leaked" };
        return Err((
            sig.into(),
            format!(
                "the parse produced an output and reports {} error(s) {:?}, but the surviving path emitted {} ({})",
                o.errs.len(),
                o.errs.iter().map(|e| (e.custom.clone(), e.span)).collect::<Vec<_>>(),
                r.emitted.len(),
                describe(r)
            ),
        ));
    }
    for (k, (e, d)) in r.emitted.iter().zip(&o.errs).enumerate() {
        if let Err(m) = cmp_emis(e, d, sm, false) {
            return Err(("C05/emission-order-or-content".into(), format!("error #{}: {} ({})", k, m, describe(r))));
        }
    }
    if o.st.log != r.log {
        let sig = if o.st.log.len() > r.log.len() { "C05/state-leaked" } else { "C05/state-lost" };
        return Err((sig.into(), format!("final user-state log {:?} but the surviving path pushed {:?}", o.st.log, r.log)));
    }
    // the token-folding part of the state (on_token / on_save / on_rewind): every repositioning of the input must
    // have been matched by the hooks, so after a parse of the whole input it is the fold of exactly that input
    if r.accepted && (o.st.n, o.st.h) != r.final_state {
        return Err(("C05/state-position".into(), format!("final user state (count {}, hash {:x}) but the surviving path consumed tokens folding to (count {}, hash {:x}): some repositioning of the input was not matched by on_save / on_rewind", o.st.n, o.st.h, r.final_state.0, r.final_state.1)));
    }
    Ok(())
}

fn check_inner(sub: &str, g: &G, toks: &[char], l: &mut Local) -> CaseRes {
    let case = || Case::new(ID, sub, g, toks);
    let vs = variants(g, toks);
    let refs: Vec<RefOut> = vs.iter().map(|o| reference::eval(g, toks, o.clone())).collect();
    if refs.iter().any(|r| r.stats.fuel_out) {
        l.bump("skipped_fuel_or_unspecified");
        return Ok(());
    }
    let si = StrIn::new(toks);
    let s: &str = &si.s;
    let p = build::<&str, RichS>(g, false);
    let o = run_parse(&p, s);
    let c = run_check(&p, s);
    l.evals += 2;
    if o.panic.is_some() || c.panic.is_some() {
        if g.any_node(&|n| matches!(n, G::Recover(..) | G::MapErr(..))) {
            l.bump("panics_left_to_C20");
            return Ok(());
        }
        return fail(case, "C05/panic", format!("panicked: {:?} {:?}", o.panic, c.panic));
    }
    let mut first = None;
    let mut ok = false;
    for r in &refs {
        match cmp_with(r, &o, &si.sm) {
            Ok(()) => {
                ok = true;
                break;
            }
            Err(e) => {
                if first.is_none() {
                    first = Some(e)
                }
            }
        }
    }
    if !ok {
        let (sig, msg) = first.unwrap();
        return fail(case, &sig, msg);
    }
    // the zero-sized error type (its own fast paths in the error bookkeeping): as many errors as the surviving path emitted
    {
        let pe = build::<&str, chumsky::error::EmptyErr>(g, false);
        let (oe, ce) = (run_parse(&pe, s), run_check(&pe, s));
        l.evals += 2;
        if oe.panic.is_none() && ce.panic.is_none() {
            for (what, x) in [("parse", &oe), ("check", &ce)] {
                if x.has_output != o.has_output || (o.has_output && x.errs.len() != o.errs.len()) {
                    return fail(case, "C05/zero-sized-error-count", format!("{}() with EmptyErr: has_output={} with {} errors; with Rich: has_output={} with {} errors {:?}", what, x.has_output, x.errs.len(), o.has_output, o.errs.len(), o.errs));
                }
            }
            l.bump("zero_sized_error_type_runs");
        } else {
            l.bump("panics_left_to_C20");
        }
    }
    // check mode must report the same list
    if c.has_output != o.has_output || (o.has_output && c.errs != o.errs) {
        return fail(case, "C05/check-differs", format!("check() reports {:?} but parse() reports {:?}", c.errs, o.errs));
    }
    if o.has_output && c.st.log != o.st.log {
        return fail(case, "C05/check-state-differs", format!("check() leaves state log {:?} but parse() leaves {:?}", c.st.log, o.st.log));
    }
    let r = &refs[0];
    let st = &r.stats;
    let nontrivial = o.has_output && (st.abandoned_emissions > 0 || st.abandoned_pushes > 0 || st.kept_under_lookahead > 0 || st.custom_consumed_then_failed > 0);
    if o.has_output {
        l.bump("with_output");
        if st.abandoned_emissions > 0 {
            l.bump("emission_in_abandoned_path");
        }
        if st.abandoned_pushes > 0 {
            l.bump("state_push_in_abandoned_path");
        }
        if st.kept_under_lookahead > 0 {
            l.bump("emission_kept_under_and_is_or_rewind");
        }
        if st.custom_consumed_then_failed > 0 {
            l.bump("custom_failed_after_consuming");
        }
        if st.recoveries_abandoned > 0 {
            l.bump("recovery_abandoned");
        }
        if !r.emitted.is_empty() {
            l.bump("surviving_emissions");
        }
        for site in &st.sites {
            l.bump(&format!("site:{}", site));
        }
    } else {
        l.bump("no_output");
    }
    l.note(g, toks, sub, nontrivial, || format!("has_output={} {}", o.has_output, describe(r)));
    Ok(())
}

pub fn check_case(case: &Case, l: &mut Local) -> Result<(), Fail> {
    check_inner(&case.sub, &case.g, &case.toks(), l).map_err(|(_, f)| f)
}

pub fn cfg() -> GenCfg {
    let mut c = GenCfg::c02();
    c.validate = true;
    c.recover = true;
    c.state_push = true;
    c.custom = true;
    c
}

/// One hand-shaped template per backtracking site: an emitter `v` (validated token) and a state
/// push inside the part that can be abandoned.
pub fn templates() -> Vec<G> {
    let v = |inner: G, t: u32| G::StPush(b(G::Validate(b(inner), t, 1)), t);
    let ve = |inner: G, t: u32| G::Validate(b(inner), t, 1);
    let a = || G::Just("a".into());
    let bb = || G::Just("b".into());
    let any = || G::Any;
    let rep = |item: G, sep: Option<G>, leading: bool, trailing: bool, lo: u8, hi: Option<u8>, sink: Sink| {
        G::Rep(Rep { item: b(item), sep: sep.map(b), leading, trailing, lo, hi, sink, cfg: false, ctxb: 0 })
    };
    let mut out = vec![
        // choice: emission in a first alternative that fails later
        G::Or(b(G::Then(b(v(a(), 1)), b(bb()))), b(G::Then(b(v(any(), 2)), b(any())))),
        G::Choice(vec![G::Then(b(v(a(), 1)), b(bb())), G::Then(b(v(a(), 2)), b(a())), v(any(), 3)]),
        G::ChoiceVec(vec![G::Then(b(v(a(), 1)), b(bb())), G::Then(b(v(a(), 2)), b(a())), v(any(), 3)]),
        G::ChoiceArr(vec![G::Then(b(v(a(), 1)), b(bb())), v(any(), 3)]),
        // or_not / not / and_is / rewind
        G::Then(b(G::OrNot(b(G::Then(b(v(a(), 1)), b(bb()))))), b(rep(any(), None, false, false, 0, None, Sink::Vec))),
        G::Then(b(G::Not(b(G::Then(b(v(a(), 1)), b(bb()))))), b(rep(any(), None, false, false, 0, None, Sink::Vec))),
        G::Then(b(G::AndIs(b(ve(any(), 1)), b(G::NoneOf("b".into())))), b(rep(any(), None, false, false, 0, None, Sink::Vec))),
        G::Then(b(G::Rewind(b(ve(any(), 1)))), b(rep(any(), None, false, false, 0, None, Sink::Vec))),
        G::Then(b(G::AndIs(b(G::Then(b(ve(a(), 1)), b(ve(any(), 2)))), b(any()))), b(rep(any(), None, false, false, 0, None, Sink::Vec))),
        // repetition: the failing last iteration, fast loop and counted loop
        G::Then(b(rep(G::Then(b(v(a(), 1)), b(bb())), None, false, false, 0, None, Sink::Bare)), b(rep(any(), None, false, false, 0, None, Sink::Vec))),
        G::Then(b(rep(G::Then(b(v(a(), 1)), b(bb())), None, false, false, 1, Some(3), Sink::Vec)), b(rep(any(), None, false, false, 0, None, Sink::Vec))),
        G::Then(b(rep(G::Then(b(v(a(), 1)), b(bb())), None, false, false, 0, None, Sink::Count)), b(rep(any(), None, false, false, 0, None, Sink::Vec))),
        // folds
        G::Then(b(rep(G::Then(b(v(a(), 1)), b(bb())), None, false, false, 0, None, Sink::Foldl(b(v(any(), 9))))), b(rep(any(), None, false, false, 0, None, Sink::Vec))),
        G::Then(b(rep(G::Then(b(v(a(), 1)), b(bb())), None, false, false, 0, Some(2), Sink::Foldr(b(v(any(), 9))))), b(rep(any(), None, false, false, 0, None, Sink::Vec))),
        // custom that consumes and then fails, inside choice / or_not / repetition
        G::Or(b(G::Then(b(v(a(), 1)), b(G::Custom { take: 1, ok: false, tag: 7 }))), b(rep(any(), None, false, false, 0, None, Sink::Vec))),
        G::Then(b(G::OrNot(b(G::Custom { take: 2, ok: false, tag: 7 }))), b(rep(v(any(), 1), None, false, false, 0, None, Sink::Vec))),
        // recovery: abandoned recovery inside a first alternative; recovery in a repetition
        G::Or(
            b(G::Then(b(G::Recover(b(a()), Strat::Via(b(G::To(b(any()), 901))))), b(bb()))),
            b(rep(any(), None, false, false, 0, None, Sink::Vec)),
        ),
        G::Then(
            b(rep(G::Then(b(G::Recover(b(a()), Strat::SkipUntil { skip: b(G::OneOf("c".into())), until: b(G::OneOf("a".into())), tag: 5 })), b(bb())), None, false, false, 0, None, Sink::Vec)),
            b(rep(any(), None, false, false, 0, None, Sink::Vec)),
        ),
    ];
    // separated_by: the four exits (separator fails, item fails w/o trailing, item fails with
    // trailing, leading separator) with emitters in item and separator
    for (leading, trailing) in [(false, false), (true, false), (false, true), (true, true)] {
        for lo in [0u8, 1, 2] {
            out.push(G::Then(
                b(rep(G::Then(b(v(a(), 1)), b(G::OrNot(b(a())))), Some(v(G::Just("b".into()), 2)), leading, trailing, lo, None, Sink::Vec)),
                b(rep(any(), None, false, false, 0, None, Sink::Vec)),
            ));
            out.push(G::Then(
                b(rep(G::Then(b(v(a(), 1)), b(a())), Some(G::Then(b(v(bb(), 2)), b(bb()))), leading, trailing, lo, Some(3), Sink::Count)),
                b(rep(any(), None, false, false, 0, None, Sink::Vec)),
            ));
        }
    }
    out.retain(wf);
    out
}

pub fn decode(tape: &[u32]) -> (G, Vec<char>) {
    let mut t = Tape::new(tape);
    let (g, alpha) = {
        let mut c = cfg();
        if t.chance(1, 2) {
            c.recover = false;
        }
        let mut gg = GGen::new(&mut t, c);
        let d = 2 + gg.t.pick(4) as u32;
        let g = gg.gen(d, false);
        (g, gg.alpha.clone())
    };
    let input = gen_input(&g, &mut t, &alpha, 12);
    (g, input)
}

pub fn run(tier: Tier, seed: u64) -> i32 {
    let ctx = Ctx::new(ID, tier, seed);
    ctx.replay_corpus(&check_case);
    let ts = templates();
    let strings = all_strings(&['a', 'b', 'c'], ctx.pick(6, 8));
    ctx.with_local(|l| {
        l.add("templates", ts.len() as u64);
        l.add("strings_per_template", strings.len() as u64);
    });
    ctx.par_jobs(&ts, |g, l| {
        for s in &strings {
            check_inner("template", g, s, l)?;
        }
        Ok(())
    });
    let n = ctx.pick(3_000_000, 16_000_000);
    ctx.par_random(n, 200, 5, |tape, l| {
        let (g, input) = decode(tape);
        debug_assert!(wf(&g), "ill-formed: {}", render(&g));
        check_inner("rand", &g, &input, l)
    });
    ctx.finish(&check_case, RULE, ASSUMPTIONS, &|l| {
        for k in ["emission_in_abandoned_path", "state_push_in_abandoned_path", "surviving_emissions", "custom_failed_after_consuming"] {
            if l.counters.get(k).copied().unwrap_or(0) == 0 {
                return Err(format!("class '{}' is empty", k));
            }
        }
        Ok(())
    })
}

/// one generated case from a raw choice tape (the coverage-guided tier feeds tapes decoded from bytes)
pub fn fuzz_one(tape: &[u32], l: &mut Local) -> CaseRes {
    let (g, input) = decode(tape);
    if !wf(&g) {
        return Ok(());
    }
    check_inner("rand", &g, &input, l)
}
