//! C04 -- check mode and internal output elision are unobservable.
use super::common::*;
use crate::build::*;
use crate::driver::*;
use crate::gen::*;
use crate::grammar::*;
use crate::run::*;
use chumsky::error::{Cheap, Simple};
use chumsky::span::SimpleSpan;

pub const ID: &str = "C04";

pub const RULE: &str = "cases = (grammar, input) with grammars of EVERY class of this harness (C01/C02 + Ext parsers with a separately written check path, validate, recover_with x4 strategies, labels, map_err, memoized, wrappers, recursion, lazy, user state, context, slices/spans, folds) in three mixes (structural only / +emitters and recovery / everything), derived and random inputs, &str and &[char]. Differential oracles, no reference needed: (1) check(i).has_output == parse(i).has_output and check(i).errors == parse(i).errors as lists (span, found, expected set, message, contexts) with Rich, and on a share of the cases with Simple and Cheap; (2) paired formulations: the same grammar rebuilt with every value-eliding combinator replaced by its value-building formulation (ignore_then -> then.map(snd), then_ignore -> then.map(fst), ignored -> map(|_| ()), to(v) -> map(|_| v), to_slice/to_span -> map_with(slice/span), delimited_by/padded_by -> then.then.map, bare repeated()/separated_by()/collect::<()>()/count() -> collect::<Vec<_>>() then discard/len, Ext -> the equal custom()) must give the identical output, error list and final user state, in parse and in check; (3) inner elision: wrapping a node whose value nobody inspects in to_slice() / ignored() (which runs the child in Check mode) must not change acceptance or the error list of the whole grammar. Pratt and nested-input grammars assert parse == check inside C09 / C16. Run-time configuration through a reference ((&just).configure) against the by-value formulation, parse / check / value-free positions, on every string over {a b} up to length 6 / 8. NON-TRIVIAL = the grammar has a node that forces Emit internally (filter, try_map, try_map_with, validate, select, context providers/consumers, collect-based sinks, state pushes) below a combinator that runs its child in Check mode, or any error was emitted/reported; distinct = distinct (sub-check, grammar, input).";

pub const ASSUMPTIONS: &[&str] = &[
    "closures are pure; user-state pushes are made from validate(), which runs in both modes",
    "panics that occur identically in parse and check are C20's business (counted); a panic in only one of the two modes is reported here",
    "for oracle (3) only nodes are wrapped whose value is not inspected by an enclosing filter/try_map predicate, context provider or String collection",
];

type CheapS = Cheap<SimpleSpan>;
type SimpleS<'s> = Simple<'s, char, SimpleSpan>;

fn forces_emit(g: &G) -> bool {
    g.any_node(&|n| {
        matches!(
            n,
            G::Filter(..) | G::TryMap(..) | G::TryMapWith(..) | G::Validate(..) | G::Select(_) | G::ThenWithCtx(..) | G::IgnoreWithCtx(..) | G::StPush(..) | G::Unwrapped(_) | G::Recover(..)
        ) || matches!(n, G::Rep(r) if !matches!(r.sink, Sink::Bare))
    })
}

/// some node that forces Emit lies below a child that its parent runs in Check mode
fn emit_below_check(g: &G) -> bool {
    use G::*;
    let here = match g {
        IgnoreThen(a, _) => forces_emit(a),
        ThenIgnore(_, c) => forces_emit(c),
        Ignored(a) | To(a, _) | ToSlice(a) | ToSpan(a) | Not(a) => forces_emit(a),
        AndIs(_, c) => forces_emit(c),
        Delim { open, close, .. } => forces_emit(open) || forces_emit(close),
        PaddedBy(_, p) => forces_emit(p),
        G::Rep(r) => {
            (matches!(r.sink, Sink::Bare | Sink::Count | Sink::Unit) && forces_emit(&r.item)) || r.sep.as_ref().map(|s| forces_emit(s)).unwrap_or(false)
        }
        Recover(_, Strat::SkipUntil { skip, until, .. }) | Recover(_, Strat::SkipRetry { skip, until }) => forces_emit(skip) || forces_emit(until),
        _ => false,
    };
    here || g.children().iter().any(|c| emit_below_check(c))
}

/// pre-order indices of nodes whose value no enclosing node inspects
fn elidable(g: &G) -> Vec<usize> {
    fn go(g: &G, idx: &mut usize, safe: bool, out: &mut Vec<usize>) {
        use G::*;
        let me = *idx;
        *idx += 1;
        if safe && me > 0 && !matches!(g, RecRef(_) | Rec(..)) {
            out.push(me);
        }
        let kids = g.children();
        for (k, c) in kids.iter().enumerate() {
            let child_safe = safe
                && match g {
                    Filter(..) | TryMap(..) | TryMapWith(..) | Unwrapped(_) | IntoIter(..) => false,
                    ThenWithCtx(..) | IgnoreWithCtx(..) => k != 0,
                    G::Rep(r) => !matches!(r.sink, Sink::Str),
                    // a recursive definition's value flows to every reference
                    Rec(..) => false,
                    _ => true,
                };
            go(c, idx, child_safe, out);
        }
    }
    let mut out = vec![];
    let mut i = 0;
    // inside recursion the value may be inspected at any reference: only rec-free grammars
    if g.any_node(&|n| matches!(n, G::Rec(..))) {
        return out;
    }
    go(g, &mut i, true, &mut out);
    out
}

fn same_errs(a: &ImplOut, b: &ImplOut) -> bool {
    a.has_output == b.has_output && a.errs == b.errs
}

fn run_kind<'s, I: Kind<'s> + Clone>(sub: &str, g: &G, toks: &[char], mk: &dyn Fn() -> I, pick: u32, l: &mut Local) -> CaseRes {
    let case = || {
        let mut c = Case::new(ID, sub, g, toks);
        c.extra = serde_json::json!({ "pick": pick });
        c
    };
    macro_rules! bail {
        ($sig:expr, $($a:tt)*) => { return fail(case, $sig, format!($($a)*)) };
    }
    // (1) parse vs check
    let p = build::<I, chumsky::error::Rich<'s, I::Tok, I::Spn>>(g, false);
    let o = run_parse(&p, mk());
    let c = run_check(&p, mk());
    l.evals += 2;
    match (&o.panic, &c.panic) {
        (Some(_), Some(_)) => {
            l.bump("panics_in_both_modes_left_to_C20");
            return Ok(());
        }
        (Some(m), None) => bail!("C04/panic-one-mode", "parse() panicked ({}) but check() returned", m),
        (None, Some(m)) => bail!("C04/panic-one-mode", "check() panicked ({}) but parse() returned", m),
        _ => {}
    }
    if c.has_output != o.has_output {
        bail!("C04/accept", "check() has_output={} but parse() has_output={} (parse errors {:?}, check errors {:?})", c.has_output, o.has_output, o.errs, c.errs);
    }
    if c.errs != o.errs {
        bail!("C04/errors", "check() reports {:?} but parse() reports {:?}", c.errs, o.errs);
    }
    if o.has_output && c.st.log != o.st.log {
        bail!("C04/state", "check() leaves the user-state log {:?} but parse() leaves {:?}", c.st.log, o.st.log);
    }
    if o.has_output && (c.st.n, c.st.h) != (o.st.n, o.st.h) {
        bail!("C04/state", "check() leaves the inspector at ({}, {:x}) but parse() at ({}, {:x})", c.st.n, c.st.h, o.st.n, o.st.h);
    }
    // (2) paired formulation
    let px = build_explicit::<I, chumsky::error::Rich<'s, I::Tok, I::Spn>>(g);
    let ox = run_parse(&px, mk());
    let cx = run_check(&px, mk());
    l.evals += 2;
    if ox.panic.is_some() || cx.panic.is_some() {
        bail!("C04/panic-explicit", "the value-building formulation panicked ({:?} / {:?}) but the eliding one did not", ox.panic, cx.panic);
    }
    if !same_errs(&ox, &o) {
        bail!("C04/explicit-errors", "the value-building formulation gives has_output={} errors {:?}, the eliding one has_output={} errors {:?}", ox.has_output, ox.errs, o.has_output, o.errs);
    }
    if ox.out != o.out {
        bail!("C04/explicit-output", "the value-building formulation outputs {:?}, the eliding one {:?}", ox.out, o.out);
    }
    if !same_errs(&cx, &c) {
        bail!("C04/explicit-check", "check() of the value-building formulation gives has_output={} errors {:?}, of the eliding one has_output={} errors {:?}", cx.has_output, cx.errs, c.has_output, c.errs);
    }
    if o.has_output && ox.st.log != o.st.log {
        bail!("C04/explicit-state", "user-state log {:?} vs {:?}", ox.st.log, o.st.log);
    }
    // (3) inner elision of a node nobody looks at
    let cand = elidable(g);
    if !cand.is_empty() {
        let idx = cand[(pick as usize) % cand.len()];
        let node = node_at(g, idx).unwrap().clone();
        let wrapped = if (pick >> 8) & 1 == 0 && I::HAS_SLICE { G::ToSlice(b(node)) } else { G::Ignored(b(node)) };
        let g2 = replace_at(g, idx, &wrapped);
        if wf(&g2) {
            let p2 = build::<I, chumsky::error::Rich<'s, I::Tok, I::Spn>>(&g2, false);
            let o2 = run_parse(&p2, mk());
            let c2 = run_check(&p2, mk());
            l.evals += 2;
            l.bump("inner_elision_pairs");
            if o2.panic.is_some() || c2.panic.is_some() {
                bail!("C04/panic-elided", "eliding node #{} made the parse panic: {:?} / {:?}", idx, o2.panic, c2.panic);
            }
            if !same_errs(&o2, &o) {
                bail!("C04/elision-errors", "running node #{} ({}) in Check mode changed the result: has_output={} errors {:?} instead of has_output={} errors {:?}", idx, render(node_at(g, idx).unwrap()), o2.has_output, o2.errs, o.has_output, o.errs);
            }
            if !same_errs(&c2, &o) {
                bail!("C04/elision-check", "check() with node #{} elided: has_output={} errors {:?} instead of has_output={} errors {:?}", idx, c2.has_output, c2.errs, o.has_output, o.errs);
            }
            if o.has_output && o2.st.log != o.st.log {
                bail!("C04/elision-state", "user-state log {:?} vs {:?} with node #{} elided", o2.st.log, o.st.log, idx);
            }
        }
    }
    let nontrivial = emit_below_check(g) || !o.errs.is_empty();
    l.bump(if o.has_output && o.errs.is_empty() {
        "accepted"
    } else if o.has_output {
        "recovered_or_validated"
    } else {
        "rejected"
    });
    if emit_below_check(g) {
        l.bump("emit_forcing_node_below_check_mode_child");
    }
    if g.any_node(&|n| matches!(n, G::Ext { .. })) {
        l.bump("with_ext_parser");
    }
    l.note(g, toks, sub, nontrivial, || format!("has_output={} errors={}", o.has_output, o.errs.len()));
    Ok(())
}

fn check_inner(sub: &str, g: &G, toks: &[char], pick: u32, l: &mut Local) -> CaseRes {
    if too_expensive(g, toks, 8_000, l) {
        return Ok(());
    }
    if sub.ends_with("slice") {
        let v: Vec<char> = toks.to_vec();
        let sl: &[char] = &v;
        run_kind::<&[char]>(sub, g, toks, &|| sl, pick, l)
    } else {
        let si = StrIn::new(toks);
        let s: &str = &si.s;
        run_kind::<&str>(sub, g, toks, &|| s, pick, l)?;
        // the cheaper error types on a share of the cases
        if pick % 4 == 0 {
            let case = || Case::new(ID, sub, g, toks);
            let ps = build::<&str, SimpleS>(g, false);
            let (o, c) = (run_parse(&ps, s), run_check(&ps, s));
            let pc = build::<&str, CheapS>(g, false);
            let (o2, c2) = (run_parse(&pc, s), run_check(&pc, s));
            l.evals += 4;
            for (name, o, c) in [("Simple", &o, &c), ("Cheap", &o2, &c2)] {
                if o.panic.is_some() != c.panic.is_some() {
                    return fail(case, "C04/panic-one-mode", format!("{}: parse panic {:?}, check panic {:?}", name, o.panic, c.panic));
                }
                if o.panic.is_none() && !same_errs(o, c) {
                    return fail(case, "C04/errors-other-type", format!("{}: check() has_output={} errors {:?} but parse() has_output={} errors {:?}", name, c.has_output, c.errs, o.has_output, o.errs));
                }
            }
        }
        Ok(())
    }
}

/// run-time configuration through a reference (`(&just).configure(..)`): check mode and the value-free positions take their
/// own entry point (`Check::invoke_cfg` -> `go_check_cfg`); results must equal the by-value formulation (C15's family)
fn byref_cfg_case(cs: &[char], l: &mut Local) -> CaseRes {
    let s: String = cs.iter().collect();
    for (name, by_ref, by_value) in super::c15::byref_cfg_family(&s) {
        l.evals += 4;
        l.bump("configure_through_a_reference_comparisons");
        if by_ref != by_value {
            let mut c = Case::new(ID, "byref-configure", &G::Empty, cs);
            c.extra = serde_json::json!({ "template": name });
            return Err((c, Fail::new("C04/configure-through-a-reference", format!("{}: through the reference (parse | check): {} -- by value: {}", name, by_ref, by_value))));
        }
    }
    Ok(())
}

pub fn check_case(case: &Case, l: &mut Local) -> Result<(), Fail> {
    if case.sub == "byref-configure" {
        return byref_cfg_case(&case.toks(), l).map_err(|(_, f)| f);
    }
    let pick = case.extra.get("pick").and_then(|p| p.as_u64()).unwrap_or(0) as u32;
    check_inner(&case.sub, &case.g, &case.toks(), pick, l).map_err(|(_, f)| f)
}

pub fn decode(tape: &[u32]) -> (G, Vec<char>, &'static str, u32) {
    let mut t = Tape::new(tape);
    let slice = t.chance(1, 5);
    let mix = t.pick(3);
    let pick = t.raw();
    let (g, alpha) = {
        let mut c = match mix {
            0 => {
                let mut c = GenCfg::c02();
                c.ext = true;
                c.slices = true;
                c.spans = true;
                c
            }
            1 => {
                let mut c = GenCfg::c02();
                c.ext = true;
                c.validate = true;
                c.recover = true;
                c.state_push = true;
                c.slices = true;
                c
            }
            _ => GenCfg::all(),
        };
        if slice {
            // &[char] has no nested_delimiters restriction, but keep text-only nodes out
            c.nested_delims = false;
        }
        let mut gg = GGen::new(&mut t, c);
        let d = 1 + gg.t.pick(5) as u32;
        let g = gg.gen(d, false);
        (g, gg.alpha.clone())
    };
    let input = gen_input(&g, &mut t, &alpha, 12);
    let sub = match (mix, slice) {
        (0, false) => "structural",
        (1, false) => "emitters",
        (_, false) => "all",
        (0, true) => "structural-slice",
        (1, true) => "emitters-slice",
        (_, true) => "all-slice",
    };
    (g, input, sub, pick)
}

/// templates: each value-eliding combinator around each Emit-forcing parser
pub fn templates() -> Vec<G> {
    let a = || G::Just("a".into());
    let forcing: Vec<G> = vec![
        G::Filter(b(G::Any), Pred::FirstIn("ab".into())),
        G::TryMap(b(G::Any), Pred::FirstIn("a".into()), 1),
        G::TryMapWith(b(G::Any), Pred::FirstIn("b".into()), 2),
        G::Validate(b(G::Any), 3, 1),
        G::StPush(b(G::Any), 4),
        G::Select("ab".into()),
        G::Ext { take: 1, ok: true, tag: 5 },
        G::Ext { take: 2, ok: false, tag: 6 },
        G::Recover(b(a()), Strat::Via(b(G::To(b(G::Any), 901)))),
        G::IgnoreWithCtx(b(G::Any), b(G::JustCfg("a".into()))),
        G::Rep(Rep { item: b(G::OneOf("ab".into())), sep: None, leading: false, trailing: false, lo: 1, hi: Some(2), sink: Sink::Exactly(2), cfg: false, ctxb: 0 }),
        G::Rep(Rep { item: b(G::Validate(b(G::OneOf("ab".into())), 7, 1)), sep: Some(b(G::Validate(b(G::Just("c".into())), 8, 1))), leading: true, trailing: true, lo: 0, hi: None, sink: Sink::Bare, cfg: false, ctxb: 0 }),
    ];
    let rest = any_rest;
    let mut out = vec![];
    for f in &forcing {
        let f = || f.clone();
        out.push(G::IgnoreThen(b(f()), b(rest())));
        out.push(G::Then(b(G::ThenIgnore(b(a()), b(f()))), b(rest())));
        out.push(G::Then(b(G::Ignored(b(f()))), b(rest())));
        out.push(G::Then(b(G::To(b(f()), 9)), b(rest())));
        out.push(G::Then(b(G::ToSlice(b(f()))), b(rest())));
        out.push(G::Then(b(G::ToSpan(b(f()))), b(rest())));
        out.push(G::Then(b(G::Delim { inner: b(a()), open: b(f()), close: b(f()) }), b(rest())));
        out.push(G::Then(b(G::PaddedBy(b(a()), b(f()))), b(rest())));
        out.push(G::Then(b(G::Not(b(f()))), b(rest())));
        out.push(G::Then(b(G::AndIs(b(G::Any), b(f()))), b(rest())));
        out.push(G::Then(b(G::OrNot(b(G::Ignored(b(f()))))), b(rest())));
        if f().must_consume() {
            for sink in [Sink::Bare, Sink::Count, Sink::Unit, Sink::Vec] {
                out.push(G::Then(b(G::Rep(Rep { item: b(f()), sep: None, leading: false, trailing: false, lo: 0, hi: Some(3), sink: sink.clone(), cfg: false, ctxb: 0 })), b(rest())));
                out.push(G::Then(b(G::Rep(Rep { item: b(a()), sep: Some(b(f())), leading: false, trailing: true, lo: 0, hi: None, sink, cfg: false, ctxb: 0 })), b(rest())));
            }
        }
    }
    out.retain(wf);
    out
}

pub fn run(tier: Tier, seed: u64) -> i32 {
    let ctx = Ctx::new(ID, tier, seed);
    ctx.replay_corpus(&check_case);
    let ts = templates();
    let strings = all_strings(&['a', 'b', 'c'], ctx.pick(5, 7));
    ctx.with_local(|l| {
        l.add("templates", ts.len() as u64);
        l.add("strings_per_template", strings.len() as u64);
    });
    ctx.par_jobs(&ts, |g, l| {
        for (i, s) in strings.iter().enumerate() {
            check_inner("template", g, s, i as u32 * 257, l)?;
        }
        Ok(())
    });
    {
        let strings = all_strings(&['a', 'b'], ctx.pick(6, 8));
        let chunks: Vec<&[Vec<char>]> = strings.chunks(32).collect();
        ctx.par_jobs(&chunks, |chunk, l| {
            for cs in chunk.iter() {
                byref_cfg_case(cs, l)?;
            }
            Ok(())
        });
    }
    let n = ctx.pick(3_000_000, 16_000_000);
    ctx.par_random(n, 220, 4, |tape, l| {
        let (g, input, sub, pick) = decode(tape);
        debug_assert!(wf(&g), "ill-formed: {}", render(&g));
        check_inner(sub, &g, &input, pick, l)
    });
    ctx.finish(&check_case, RULE, ASSUMPTIONS, &|l| {
        for k in ["emit_forcing_node_below_check_mode_child", "with_ext_parser", "recovered_or_validated", "inner_elision_pairs", "accepted", "rejected"] {
            if l.counters.get(k).copied().unwrap_or(0) == 0 {
                return Err(format!("class '{}' is empty", k));
            }
        }
        Ok(())
    })
}

/// one generated case from a raw choice tape (the coverage-guided tier feeds tapes decoded from bytes)
pub fn fuzz_one(tape: &[u32], l: &mut Local) -> CaseRes {
    let (g, input, sub, pick) = decode(tape);
    if !wf(&g) {
        return Ok(());
    }
    check_inner(sub, &g, &input, pick, l)
}
