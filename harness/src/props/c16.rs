//! C16 -- nested inputs are parsed completely, in isolation, and report back faithfully.
//!
//! Inputs are token trees (leaf tokens and group tokens that own their children, every token with a
//! generated gapped span); `inner.nested_in(select_ref!{ Group(children) => children as input })`
//! is compared with the reference semantics applied recursively.
use super::common::*;
use crate::build::*;
use crate::compare::*;
use crate::driver::*;
use crate::gen::*;
use crate::grammar::*;
use crate::reference::{self, EmisKind, RefOpts, RefOut};
use crate::run::*;
use chumsky::error::Rich;
use chumsky::span::SimpleSpan;
use serde_json::json;

pub const ID: &str = "C16";

pub const RULE: &str = "cases = (grammar, token tree). A token tree is written as a bracketed token string (a b c and group brackets) and laid out with generated GAPPED spans (a group's span covers its brackets and children; the eoi span handed to the inner input is the whole group span, the closing bracket, or an empty span there); depth up to 4. Grammars: C01/C02-class grammars with validate emitters, recover_with, span captures (to_span, map_with(span), try_map / validate spans), recursion, and nested_in(select_ref!{Group(children) => children.map(eoi, ..)}) at arbitrary nodes and nesting (nested_in inside nested_in, inside choice / repeated / or_not / recover_with, recursive through groups). Inputs: sentences derived from the grammar (brackets where the grammar nests) with 0..2 edits incl. inserted / deleted brackets and tokens, random bracketed strings, and EVERY bracketed string up to a length bound for a fixed list of templates (10 inner grammars x 9 outer shapes). Oracle: the reference applied recursively -- run the group selector, run the inner grammar on exactly the group's children, succeed only if it consumed all of them, advance the outer input by the one group token; the output (with every captured span, inner ones in the inner tokens' own offsets) must be equal; errors emitted inside appear in the outer error list in order (subject to outer backtracking like any emission), with their inner spans; when the parse fails the reported error must be the furthest failure where a failed nested parse counts just after (admissible variant: at) its group token and carries the inner error's content and span; check() must agree with parse() on has_output and the error list; the same grammar built with the zero-sized EmptyErr must give the same has_output in parse and check, at least one error when it fails, and never panic. Reference-free: for a top-level nested_in the result -- output, and the complete error list also when the parse FAILS (the errors emitted inside before the failure plus the inner failure) -- must equal running the inner grammar directly on the children. NON-TRIVIAL = some nested parse on the explored path emitted, failed, or matched only a proper prefix of its inner input; distinct by (grammar, tree, span layout).";

pub const ASSUMPTIONS: &[&str] = &[
    "the reference evaluator (harness/src/reference.rs) applied recursively; admissible variants: V-nested-pos (the failure of a nested parse is ranked just after / at its group token), V-nested-leftover (a nested parse that succeeded does / does not leave its unused failure events behind), plus V-lead, V-trail-cap, V-take as in C02 / C08",
    "when an inner and an outer failure event meet at one position the merged error's content is not specified (only its presence)",
    "user state and context inside nested inputs are not modelled (the generated grammars have none)",
];

type RT<'s> = Rich<'s, TT, SimpleSpan>;

fn variants_tree(g: &G, nodes: &[TNode]) -> Vec<RefOpts> {
    let base = reference::eval_tree(g, nodes, RefOpts::default());
    let mut v = vec![RefOpts::default()];
    let mut dup = |v: &mut Vec<RefOpts>, f: &dyn Fn(&mut RefOpts)| {
        let n = v.len();
        for i in 0..n {
            let mut o = v[i].clone();
            f(&mut o);
            v.push(o);
        }
    };
    if base.stats.used_vlead {
        dup(&mut v, &|o| o.vlead_alt = true);
    }
    if base.stats.used_vtrailcap {
        dup(&mut v, &|o| o.vtrailcap_alt = true);
    }
    if base.stats.recoveries_fired > 0 {
        dup(&mut v, &|o| o.vtake_alt = true);
    }
    if base.stats.nested_entered > 0 {
        dup(&mut v, &|o| o.vnested_at_token = true);
        dup(&mut v, &|o| o.vnested_drop_leftover = true);
    }
    v
}

fn cmp_all(r: &RefOut, o: &ImplOut, sm: &SpanMap) -> Result<(), (String, String)> {
    if o.has_output != r.accepted {
        return Err((
            "C16/accept".into(),
            format!("has_output={} but the reference {} (errors {:?}; reference emitted {}, prefix {:?})", o.has_output, if r.accepted { "produces an output" } else { "fails" }, o.errs, r.emitted.len(), r.prefix.as_ref().map(|p| p.1)),
        ));
    }
    if o.has_output {
        let rv = &r.prefix.as_ref().unwrap().0;
        if let Err(m) = cmp_val(rv, o.out.as_ref().unwrap(), sm, 0) {
            let sig = if m.contains("span") { "C16/span" } else { "C16/output" };
            return Err((sig.into(), format!("output differs: {} (impl {:?}, reference {:?})", m, o.out, rv)));
        }
        if o.errs.len() != r.emitted.len() {
            let sig = if o.errs.len() < r.emitted.len() { "C16/error-missing" } else { "C16/error-extra" };
            return Err((sig.into(), format!("{} error(s) reported {:?}, the reference emits {} ({:?})", o.errs.len(), o.errs, r.emitted.len(), r.emitted.iter().map(|e| e.kind_name()).collect::<Vec<_>>())));
        }
        for (k, (e, d)) in r.emitted.iter().zip(&o.errs).enumerate() {
            if let Err(m) = cmp_emis(e, d, sm, true) {
                let sig = if matches!(e.kind, EmisKind::Recovered(_)) { "C16/recovered-error-content" } else { "C16/emitted-error" };
                return Err((sig.into(), format!("error #{}: {} (reported {:?}; reference {:?})", k, m, d, e)));
            }
        }
    } else {
        let Some(d) = o.errs.last() else {
            return Err(("C16/no-error".into(), "failed without an error".into()));
        };
        // emitted errors of the abandoned parse are not reported; the last error is the failure
        if let Some(a) = &r.alt {
            if !a.fuzzy && a.merged == 1 {
                if let Err(m) = cmp_err(a, d, sm, true) {
                    return Err(("C16/final-error".into(), format!("{} (reported {:?}; reference {:?})", m, d, a)));
                }
            } else if !a.fuzzy {
                if let Err(m) = cmp_err(a, d, sm, false) {
                    return Err(("C16/final-error".into(), format!("{} (reported {:?}; reference {:?})", m, d, a)));
                }
            }
        }
    }
    Ok(())
}

pub fn check_inner(sub: &str, g: &G, flat: &[char], seed: u64, l: &mut Local) -> CaseRes {
    let extra = json!({ "layout_seed": seed });
    let case = || {
        let mut c = Case::new(ID, sub, g, flat);
        c.extra = extra.clone();
        c
    };
    let (nodes, eoi) = parse_tree(flat, seed);
    let vs = variants_tree(g, &nodes);
    let refs: Vec<RefOut> = vs.iter().map(|o| reference::eval_tree(g, &nodes, RefOpts { cap_spans: true, ..o.clone() })).collect();
    if refs.iter().any(|r| r.stats.fuel_out) {
        l.bump("skipped_fuel");
        return Ok(());
    }
    let tv = tt_from_nodes(&nodes);
    let tsl: &[TTPair] = &tv;
    let eoi_sp = SimpleSpan::from(eoi.0..eoi.1);
    let spans: Vec<(usize, usize)> = nodes.iter().map(|n| n.span).collect();
    let sm = SpanMap::gapped(&spans, eoi, 1);
    let mut bld = Bld::<TTIn, RT>::new(g, false);
    bld.cap_spans = true;
    let p = bld.build(g);
    let o = run_parse(&p, tt_input(tsl, eoi_sp));
    let c = run_check(&p, tt_input(tsl, eoi_sp));
    l.evals += 2;
    if let Some(m) = o.panic.as_ref().or(c.panic.as_ref()) {
        if g.any_node(&|n| matches!(n, G::Rep(r) if matches!(r.sink, Sink::Exactly(_)))) {
            l.bump("panics_left_to_C20");
            return Ok(());
        }
        return fail(case, "C16/panic", format!("parse/check panicked: {}", m));
    }
    // check mode agrees with parse mode
    if c.has_output != o.has_output || c.errs != o.errs {
        return fail(case, "C16/check-vs-parse", format!("check: has_output={} errors {:?}; parse: has_output={} errors {:?}", c.has_output, c.errs, o.has_output, o.errs));
    }
    // the same grammar with the zero-sized error type (separate fast paths in the failure-recording code): an inner
    // failure must still reach the outer result -- same has_output, never a panic, never a silent failure
    {
        let mut be = Bld::<TTIn, chumsky::error::EmptyErr>::new(g, false);
        be.cap_spans = true; // same values as the Rich build (value-dependent predicates must decide alike)
        let pe = be.build(g);
        let oe = run_parse(&pe, tt_input(tsl, eoi_sp));
        let ce = run_check(&pe, tt_input(tsl, eoi_sp));
        l.evals += 2;
        if let Some(m) = oe.panic.as_ref().or(ce.panic.as_ref()) {
            return fail(case, "C16/panic-zero-sized-error", format!("parse/check with EmptyErr panicked: {} (Rich: has_output={} errors {:?})", m, o.has_output, o.errs));
        }
        for (what, x) in [("parse", &oe), ("check", &ce)] {
            if x.has_output != o.has_output || (!x.has_output && x.errs.is_empty()) {
                return fail(case, "C16/zero-sized-error", format!("{}() with EmptyErr: has_output={} with {} errors; with Rich: has_output={} errors {:?}", what, x.has_output, x.errs.len(), o.has_output, o.errs));
            }
        }
    }
    let mut first = None;
    let mut matched = None;
    for (i, r) in refs.iter().enumerate() {
        match cmp_all(r, &o, &sm) {
            Ok(()) => {
                matched = Some(i);
                break;
            }
            Err(e) => {
                first.get_or_insert(e);
            }
        }
    }
    let Some(mi) = matched else {
        let (sig, msg) = first.unwrap();
        return fail(case, &sig, msg);
    };
    if vs[mi].vnested_at_token {
        l.bump("matched_variant_V_nested_at_token");
    }
    if vs[mi].vnested_drop_leftover {
        l.bump("matched_variant_V_nested_drop_leftover");
    }
    // reference-free: a top-level nested_in equals the inner grammar run directly on the children
    if let (G::NestedIn(inner), [TNode { tok: TreeTok::Group(kids, keoi), .. }]) = (g, &nodes[..]) {
        let ktv = tt_from_nodes(kids);
        let ksl: &[TTPair] = &ktv;
        let mut b2 = Bld::<TTIn, RT>::new(inner, false);
        b2.cap_spans = true;
        let pi = b2.build(inner);
        let d = run_parse(&pi, tt_input(ksl, SimpleSpan::from(keoi.0..keoi.1)));
        l.evals += 1;
        if d.panic.is_none() {
            l.bump("direct_comparisons");
            if d.has_output != o.has_output || d.out != o.out {
                return fail(case, "C16/direct", format!("nested: has_output={} output {:?}; the inner grammar directly on the children: has_output={} output {:?}", o.has_output, o.out, d.has_output, d.out));
            }
            // same errors, same spans (both in the inner tokens' offsets): with an output these are the emitted
            // errors; without one, the errors emitted inside before the failure AND the inner failure itself --
            // nothing outside backtracks here, so all of them "surface in the outer result"
            let key = |e: &ErrDesc| (e.span, e.custom.clone(), e.expected.clone());
            let mut a: Vec<_> = d.errs.iter().map(key).collect();
            let mut b: Vec<_> = o.errs.iter().map(key).collect();
            a.sort();
            b.sort();
            if a != b {
                let sig = if o.has_output { "C16/direct" } else { "C16/direct-failed" };
                return fail(case, sig, format!("errors of the nested parse {:?} differ from those of the inner grammar run directly on the children {:?}", o.errs, d.errs));
            }
            if !o.has_output && o.errs.len() >= 2 {
                l.bump("direct_failed_parse_with_emitted_errors");
            }
        }
    }
    let r = &refs[mi];
    let st = &r.stats;
    let nontrivial = st.nested_inner_emitted > 0 || st.nested_inner_failed > 0 || st.nested_inner_prefix_only > 0;
    for (k, n) in [
        ("nested_parse_entered", st.nested_entered),
        ("inner_parse_emitted", st.nested_inner_emitted),
        ("inner_parse_failed", st.nested_inner_failed),
        ("inner_parse_matched_proper_prefix_only", st.nested_inner_prefix_only),
        ("inner_parse_succeeded_leaving_events", st.nested_inner_left_alt),
        ("selector_met_a_leaf_or_the_end", st.nested_not_a_group),
    ] {
        if n > 0 {
            l.bump(k);
        }
    }
    if st.nested_inner_failed > 0 && o.has_output {
        l.bump("outer_grammar_backtracked_over_a_failed_nested_parse");
    }
    if st.nested_max_depth >= 2 {
        l.bump("nesting_depth_2_or_more");
    }
    l.bump(if o.has_output && o.errs.is_empty() {
        "clean_accept"
    } else if o.has_output {
        "output_with_errors"
    } else {
        "rejected"
    });
    l.note(g, flat, sub, nontrivial, || format!("has_output={} errors={:?} output={:?}", o.has_output, o.errs.iter().map(|e| (e.span, e.custom.clone())).collect::<Vec<_>>(), o.out));
    Ok(())
}

pub fn check_case(case: &Case, l: &mut Local) -> Result<(), Fail> {
    let seed = case.extra.get("layout_seed").and_then(|p| p.as_u64()).unwrap_or(1);
    check_inner(&case.sub, &case.g, &case.toks(), seed, l).map_err(|(_, f)| f)
}

pub fn cfg() -> GenCfg {
    let mut c = GenCfg::c02();
    c.validate = true;
    c.recover = true;
    c.spans = true;
    c.rec = true;
    c.nested = true;
    c.ascii_only = true;
    c
}

fn rep(item: G, lo: u8, hi: Option<u8>, sink: Sink) -> G {
    G::Rep(Rep { item: b(item), sep: None, leading: false, trailing: false, lo, hi, sink, cfg: false, ctxb: 0 })
}

pub fn templates() -> Vec<G> {
    let j = |s: &str| G::Just(s.into());
    let n = |g: G| G::NestedIn(b(g));
    let fb = |t: u32| G::To(b(G::Any), 900 + t);
    let inners: Vec<G> = vec![
        j("a"),
        G::Then(b(j("a")), b(j("b"))),
        rep(j("a"), 0, None, Sink::Vec),
        G::Or(b(j("ab")), b(j("a"))),
        G::Validate(b(G::Any), 1, 1),
        G::Then(b(G::Validate(b(G::Any), 2, 1)), b(j("b"))),
        G::Recover(b(j("a")), Strat::Via(b(fb(1)))),
        G::MapSpan(b(G::Then(b(j("a")), b(G::ToSpan(b(G::OrNot(b(j("b"))))))))),
        n(j("a")),
        G::Empty,
        rep(G::Or(b(n(rep(j("a"), 0, None, Sink::Count))), b(j("b"))), 0, None, Sink::Vec),
    ];
    let mut out = vec![];
    for i in &inners {
        let x = n(i.clone());
        out.push(x.clone());
        out.push(G::Then(b(x.clone()), b(j("b"))));
        out.push(G::Then(b(j("a")), b(x.clone())));
        out.push(G::Or(b(x.clone()), b(G::Any)));
        out.push(rep(x.clone(), 0, None, Sink::Vec));
        out.push(G::Then(b(G::OrNot(b(x.clone()))), b(rep(G::Any, 0, None, Sink::Count))));
        out.push(G::Recover(b(x.clone()), Strat::Via(b(fb(2)))));
        out.push(G::Or(b(x.clone()), b(n(rep(G::Any, 0, None, Sink::Count)))));
        out.push(G::ToSpan(b(G::Then(b(rep(j("b"), 0, None, Sink::Count)), b(x.clone())))));
    }
    // recursion through groups: expr = a | [expr*]
    out.push(G::Rec(0, b(G::Or(b(j("a")), b(n(rep(G::RecRef(0), 0, None, Sink::Vec)))))));
    out.push(rep(G::Rec(0, b(G::Or(b(G::Validate(b(j("b")), 3, 1)), b(n(rep(G::RecRef(0), 1, None, Sink::Vec)))))), 0, None, Sink::Vec));
    out.retain(wf);
    out
}

pub fn decode(tape: &[u32]) -> (G, Vec<char>, u64) {
    let mut t = Tape::new(tape);
    let seed = t.raw() as u64 + 1;
    let (g, alpha) = {
        let mut gg = GGen::new(&mut t, cfg());
        let d = 2 + gg.t.pick(4) as u32;
        let mut g = gg.gen(d, false);
        if gg.t.chance(1, 6) {
            // a nested parser at the very top (its result can be compared with the inner grammar run directly)
            g = G::NestedIn(b(g));
        }
        if !g.any_node(&|n| matches!(n, G::NestedIn(_))) {
            // make sure there is something nested: wrap a sub-grammar
            let inner = gg.gen(d.min(3), true);
            g = if gg.t.chance(1, 2) { G::Then(b(g), b(G::NestedIn(b(inner)))) } else { G::Or(b(G::NestedIn(b(inner))), b(g)) };
        }
        (g, gg.alpha.clone())
    };
    let mut sym = alpha.clone();
    sym.push(GOPEN);
    sym.push(GCLOSE);
    let input = gen_input(&g, &mut t, &sym, 12);
    (g, input, seed)
}

pub fn run(tier: Tier, seed: u64) -> i32 {
    let ctx = Ctx::new(ID, tier, seed);
    ctx.replay_corpus(&check_case);
    let ts = templates();
    let strings: Vec<Vec<char>> = all_strings(&['a', 'b', GOPEN, GCLOSE], ctx.pick(6, 7))
        .into_iter()
        .filter(|s| {
            // balanced bracket strings only (ill-formed INNER SEQUENCES are what matters; unbalanced
            // strings denote the same trees again)
            let mut d = 0i32;
            for c in s {
                if *c == GOPEN {
                    d += 1
                } else if *c == GCLOSE {
                    d -= 1;
                    if d < 0 {
                        return false;
                    }
                }
            }
            d == 0
        })
        .collect();
    ctx.with_local(|l| {
        l.add("templates", ts.len() as u64);
        l.add("bracketed_strings_per_template", strings.len() as u64);
    });
    ctx.par_jobs(&ts, |g, l| {
        for (i, s) in strings.iter().enumerate() {
            check_inner("template", g, s, 1 + (i as u64 % 11), l)?;
        }
        Ok(())
    });
    let n = ctx.pick(3_000_000, 16_000_000);
    ctx.par_random(n, 220, 16, |tape, l| {
        let (g, input, seed) = decode(tape);
        debug_assert!(wf(&g), "ill-formed: {}", render(&g));
        check_inner("random", &g, &input, seed, l)
    });
    ctx.finish(&check_case, RULE, ASSUMPTIONS, &|l| {
        for k in ["nested_parse_entered", "inner_parse_emitted", "inner_parse_failed", "inner_parse_matched_proper_prefix_only", "outer_grammar_backtracked_over_a_failed_nested_parse", "nesting_depth_2_or_more", "direct_comparisons", "direct_failed_parse_with_emitted_errors", "clean_accept", "output_with_errors", "rejected"] {
            if l.counters.get(k).copied().unwrap_or(0) == 0 {
                return Err(format!("class '{}' is empty", k));
            }
        }
        Ok(())
    })
}

/// one generated case from a raw choice tape (the coverage-guided tier feeds tapes decoded from bytes)
pub fn fuzz_one(tape: &[u32], l: &mut Local) -> CaseRes {
    let (g, input, seed) = decode(tape);
    if !wf(&g) {
        return Ok(());
    }
    check_inner("random", &g, &input, seed, l)
}
