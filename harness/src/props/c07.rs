//! C07 -- spans and slices are exact, well-formed and zero-copy.
use super::common::*;
use crate::build::*;
use crate::compare::*;
use crate::driver::*;
use crate::gen::*;
use crate::grammar::*;
use crate::reference::{self, RefOpts, RefOut};
use crate::run::*;
use chumsky::span::SimpleSpan;
use serde_json::json;

pub const ID: &str = "C07";

pub const RULE: &str = "cases = (grammar, input, input kind): C01/C02-class grammars in which EVERY node is wrapped in map_with(|v, e| e.span()) and which contain the other capture sites at random nodes -- to_span, to_slice, map_with(slice), try_map (span argument), try_map_with / validate (e.span()), select!(.. => e.span()), foldl_with / foldr_with callbacks -- over the input kinds &str (1..4-byte characters), &[char], Stream, and token-with-span inputs with GAPPED spans: slice.map(eoi, ..), Stream::map(eoi, ..) and IterInput (Input-only: just / end / empty and combinators), incl. eoi spans beyond the last token. Oracle: the reference knows the token range [s, e) each node consumed on the successful path; expected span = byte offsets for &str, indices for slices / streams, tok[s].start .. tok[e-1].end for token-span inputs; an EMPTY match must get an empty span lying between the end of the preceding and the start of the following token (input start / eoi at the borders). Oracle-free, on every span in the output: start <= end, inside the input, on char boundaries, non-empty children nested in their parent. Slices: content == input[span], length equal, and slice.as_ptr() == input.as_ptr() + start (same memory, no copy). Statically typed families: bytes::Bytes as the input (5 parsers with slice captures x every byte string over {a b c} up to length 6 / 8: differential against &[u8] plus pointer identity on both) and map_with applied to an item source (x.repeated().map_with(f) under collect / enumerate / foldl_with / foldr_with on every string over {a b e-acute G-clef} up to length 5 / 6 and on a gapped token-span input: the mapper sees the span and slice of each step). The span TYPE of token-span inputs (SimpleSpan, Range<usize>, (context, SimpleSpan), (context, Range<usize>): each has its own Span implementation) must not change the captured numbers. NON-TRIVIAL = an empty match strictly between two tokens, or a capture evaluated after a backtrack over consumed input, or multi-byte text, or a gapped token-span input; distinct = distinct (sub-check, grammar, input, spans).";

pub const ASSUMPTIONS: &[&str] = &[
    "the reference's consumed extents (C01 ties them to PEG semantics); fold_with callbacks: foldl_with sees the span from the start of the whole fold to the end of the current item, foldr_with from the current item('s step) to the end of the tail",
    "for an empty match any empty span between the neighbouring tokens is admissible (that is all the statement requires)",
    "Pratt fold-callback spans are checked in C09's module",
];

fn gapped(n: usize, seed: u64) -> (Vec<(usize, usize)>, (usize, usize)) {
    let mut x = seed.wrapping_mul(0x9e3779b97f4a7c15) | 1;
    let mut next = |m: u64| {
        x ^= x << 13;
        x ^= x >> 7;
        x ^= x << 17;
        (x % m) as usize
    };
    let mut spans = vec![];
    let mut pos = next(3);
    for _ in 0..n {
        let w = 1 + next(2);
        spans.push((pos, pos + w));
        pos += w + [0, 0, 1, 2, 3][next(5)];
    }
    let last_end = spans.last().map(|s| s.1).unwrap_or(pos);
    let es = last_end.max(pos.min(last_end + 2));
    let eoi = match next(3) {
        0 => (last_end, last_end),
        1 => (es, es),
        _ => (es, es + 2),
    };
    (spans, eoi)
}

fn run_kind<'s, I: Kind<'s>>(sub: &str, g: &G, toks: &[char], extra: &serde_json::Value, mk: &dyn Fn() -> I, sm: &SpanMap, base: usize, is_cb: &dyn Fn(usize) -> bool, l: &mut Local) -> CaseRes {
    let case = || {
        let mut c = Case::new(ID, sub, g, toks);
        c.extra = extra.clone();
        c
    };
    let vs = variants(g, toks);
    let refs: Vec<RefOut> = vs.iter().map(|o| reference::eval(g, toks, RefOpts { observed: true, cap_spans: true, ..o.clone() })).collect();
    if refs.iter().any(|r| r.stats.fuel_out) {
        l.bump("skipped_fuel");
        return Ok(());
    }
    let mut bld = Bld::<I, chumsky::error::Rich<'s, I::Tok, I::Spn>>::new(g, true);
    bld.cap_spans = true;
    // on BorrowInput kinds half of the cases use any_ref / select_ref!(x = e => e.span()) instead of any / select!
    bld.borrow_prims = I::BORROW && (g.size() + toks.len()) % 2 == 1;
    if bld.borrow_prims {
        l.bump("by_reference_primitive_builds");
    }
    let p = bld.build(g);
    let o = run_parse(&p, mk());
    l.evals += 1;
    if let Some(m) = &o.panic {
        return fail(case, "C07/panic", format!("parse panicked: {}", m));
    }
    let mut first = None;
    let mut matched = None;
    for (i, r) in refs.iter().enumerate() {
        let res: Result<(), (String, String)> = (|| {
            if o.has_output != r.accepted {
                return Err(("C07/accept".to_string(), format!("has_output={} but the reference accepts={} (errors {:?})", o.has_output, r.accepted, o.errs)));
            }
            if r.accepted {
                let rv = &r.prefix.as_ref().unwrap().0;
                if let Err(m) = cmp_val(rv, o.out.as_ref().unwrap(), sm, base) {
                    let sig = if m.contains("empty match") {
                        "C07/empty-match-span"
                    } else if m.contains("slice") {
                        "C07/slice"
                    } else if m.contains("span") {
                        "C07/span"
                    } else {
                        "C07/output"
                    };
                    return Err((sig.to_string(), format!("{} (impl {:?}; reference in token indices {:?})", m, o.out, rv)));
                }
            }
            Ok(())
        })();
        match res {
            Ok(()) => {
                matched = Some(i);
                break;
            }
            Err(e) => {
                first.get_or_insert(e);
            }
        }
    }
    let Some(mi) = matched else {
        let (sig, msg) = first.unwrap();
        return fail(case, &sig, msg);
    };
    if let Some(v) = &o.out {
        // a lookahead inside an item source that is observed as a whole captures spans beyond what its parent consumed
        let lookahead_in_item_source = g.any_node(&|n| matches!(n, G::IterThen(parts, _) if parts.iter().any(|p| p.any_node(&|m| matches!(m, G::Rewind(_) | G::AndIs(..) | G::Not(_))))));
        if let Err(m) = span_sanity_opts(v, sm, is_cb, !lookahead_in_item_source) {
            return fail(case, "C07/span-malformed", format!("{} in {:?}", m, v));
        }
    }
    let st = &refs[mi].stats;
    let acc = refs[mi].accepted;
    let multibyte = sub.starts_with("str") && toks.iter().any(|c| c.len_utf8() > 1);
    let gappedk = sub.starts_with("sp");
    let nontrivial = acc && (st.empty_matches_between_tokens > 0 || st.partial_backtracks > 0 || multibyte || gappedk);
    l.bump(if acc { "accepted" } else { "rejected" });
    if acc {
        if st.empty_matches_between_tokens > 0 {
            l.bump("empty_match_between_two_tokens");
            if gappedk {
                l.bump("empty_match_between_two_gapped_tokens");
            }
        }
        if st.partial_backtracks > 0 {
            l.bump("capture_after_backtrack_over_consumed_input");
        }
        if multibyte {
            l.bump("multi_byte_text");
        }
        if gappedk {
            l.bump("gapped_token_span_input");
        }
        l.bump(&format!("kind:{}", sub.split('-').next().unwrap_or(sub)));
    }
    l.note(g, toks, sub, nontrivial, || format!("accepted={} output={:?}", acc, o.out));
    Ok(())
}

fn check_inner(sub: &str, g: &G, toks: &[char], gap_seed: u64, l: &mut Local) -> CaseRes {
    let kind = sub.split('-').next().unwrap_or(sub);
    let extra = json!({ "gap_seed": gap_seed });
    match kind {
        "slice" => {
            let v: Vec<char> = toks.to_vec();
            let sl: &[char] = &v;
            let sm = SpanMap::for_index(v.len(), std::mem::size_of::<char>());
            run_kind::<&[char]>(sub, g, toks, &extra, &|| sl, &sm, sl.as_ptr() as usize, &|_| true, l)
        }
        "stream" => {
            let sm = SpanMap::for_index(toks.len(), 1);
            run_kind::<CharStream>(sub, g, toks, &extra, &|| char_stream(toks), &sm, 0, &|_| true, l)
        }
        "spslice" | "spstream" | "spiter" => {
            let (spans, eoi) = gapped(toks.len(), gap_seed);
            let tv: Vec<SpTok> = toks.iter().zip(&spans).map(|(c, s)| (*c, SimpleSpan::from(s.0..s.1))).collect();
            let sm = SpanMap::gapped(&spans, eoi, 1);
            match kind {
                "spslice" => {
                    let sl: &[SpTok] = &tv;
                    run_kind::<SpSlice>(sub, g, toks, &extra, &|| sp_slice(sl, eoi), &sm, 0, &|_| true, l)
                }
                "spstream" => run_kind::<SpStream>(sub, g, toks, &extra, &|| sp_stream(&tv, eoi), &sm, 0, &|_| true, l),
                _ => run_kind::<SpIter>(sub, g, toks, &extra, &|| sp_iter(&tv, eoi), &sm, 0, &|_| true, l),
            }
        }
        _ => {
            let si = StrIn::new(toks);
            let s: &str = &si.s;
            run_kind::<&str>(sub, g, toks, &extra, &|| s, &si.sm, si.base(), &|o| s.is_char_boundary(o), l)?;
            // the same grammar with the zero-sized error type: every captured span and slice must be the same
            let mk = |observed: bool| {
                let mut b1 = Bld::<&str, RichS>::new(g, observed);
                b1.cap_spans = true;
                let mut b2 = Bld::<&str, chumsky::error::EmptyErr>::new(g, observed);
                b2.cap_spans = true;
                (run_parse(&b1.build(g), s), run_parse(&b2.build(g), s))
            };
            let (r, z) = mk(true);
            l.evals += 2;
            if r.panic.is_none() && z.panic.is_none() && r.has_output && z.has_output {
                l.bump("zero_sized_error_type_runs");
                if r.out != z.out {
                    let mut c = Case::new(ID, sub, g, toks);
                    c.extra = extra.clone();
                    return Err((c, Fail::new("C07/zero-sized-error-span", format!("the captured spans / slices differ between Rich and EmptyErr builds of the same grammar: {:?} vs {:?}", r.out, z.out))));
                }
            }
            Ok(())
        }
    }
}

pub fn check_case(case: &Case, l: &mut Local) -> Result<(), Fail> {
    if case.sub.starts_with("pratt") {
        // Pratt fold-callback spans: C09's comparison, reported here
        let mut c = case.clone();
        c.sub = "exh".into();
        return super::c09::check_case(&c, l).map_err(|f| Fail::new(f.sig.replace("C09/", "C07/pratt-"), f.msg));
    }
    if case.sub == "bytes-static" {
        let bytes: Vec<u8> = case.toks().iter().map(|c| *c as u8).collect();
        return bytes_case(&bytes, l).map_err(|(_, f)| f);
    }
    if case.sub == "spantypes-static" {
        return span_types_case(&case.input, l).map_err(|(_, f)| f);
    }
    if case.sub == "itermap-static" {
        return iter_map_with_case(&case.input, l).map_err(|(_, f)| f);
    }
    let seed = case.extra.get("gap_seed").and_then(|p| p.as_u64()).unwrap_or(1);
    check_inner(&case.sub, &case.g, &case.toks(), seed, l).map_err(|(_, f)| f)
}

pub fn cfg(kind: &str) -> GenCfg {
    let mut c = GenCfg::c02();
    c.spans = true;
    c.fold_with = true;
    c.validate = true;
    c.slices = matches!(kind, "str" | "slice");
    if kind == "spiter" {
        c.value_input = false;
        c.custom = false;
        c.not = false;
    }
    c
}

/// every capture site around an empty match, a backtracked match and an ordinary one
pub fn templates(value: bool, slices: bool) -> Vec<G> {
    let j = |s: &str| G::Just(s.into());
    let rep = |item: G, lo: u8, hi: Option<u8>, sink: Sink| G::Rep(Rep { item: b(item), sep: None, leading: false, trailing: false, lo, hi, sink, cfg: false, ctxb: 0 });
    let subjects: Vec<G> = vec![
        G::Empty,
        G::OrNot(b(j("b"))),
        j("a"),
        j("ab"),
        G::Rewind(b(j("a"))),
        rep(j("b"), 0, None, Sink::Vec),
        G::Or(b(G::Then(b(j("a")), b(j("c")))), b(j("a"))),
        G::End,
    ];
    let mut caps: Vec<Box<dyn Fn(G) -> G>> = vec![
        Box::new(|g| G::ToSpan(b(g))),
        Box::new(|g| G::MapSpan(b(g))),
        Box::new(|g| G::TryMap(b(g), Pred::Always, 1)),
        Box::new(|g| G::TryMapWith(b(g), Pred::Always, 2)),
        Box::new(|g| G::Validate(b(g), 3, 1)),
    ];
    if slices {
        caps.push(Box::new(|g| G::ToSlice(b(g))));
        caps.push(Box::new(|g| G::MapSlice(b(g))));
    }
    let rest = || rep(j("a"), 0, None, Sink::Vec);
    let mut out = vec![];
    for c in &caps {
        for x in &subjects {
            let cx = c(x.clone());
            out.push(cx.clone());
            out.push(G::Then(b(j("a")), b(G::Then(b(cx.clone()), b(rest())))));
            out.push(G::Then(b(rep(j("a"), 0, Some(2), Sink::Vec)), b(G::Then(b(cx.clone()), b(G::OrNot(b(j("c"))))))));
            out.push(G::Or(b(G::Then(b(j("ab")), b(j("c")))), b(G::Then(b(j("a")), b(G::Then(b(cx.clone()), b(rest())))))));
        }
    }
    for sink_init in [G::Empty, j("a")] {
        out.push(rep(j("b"), 0, None, Sink::FoldlWith(b(sink_init.clone()))));
        out.push(G::Then(b(j("a")), b(rep(j("b"), 0, Some(3), Sink::FoldrWith(b(sink_init.clone()))))));
        out.push(G::Then(b(j("a")), b(rep(G::Then(b(j("b")), b(G::OrNot(b(j("c"))))), 0, None, Sink::FoldlWith(b(sink_init.clone()))))));
        out.push(G::Then(b(G::OrNot(b(j("c")))), b(rep(G::Then(b(j("b")), b(G::OrNot(b(j("c"))))), 0, None, Sink::FoldrWith(b(sink_init))))));
    }
    if value {
        let not_a = G::ToSpan(b(G::Not(b(j("a")))));
        out.push(G::Then(b(rep(G::Select("ab".into()), 0, None, Sink::Vec)), b(not_a)));
        let la = G::MapSpan(b(G::AndIs(b(G::Any), b(G::Then(b(G::Any), b(G::Any))))));
        out.push(G::Then(b(G::Any), b(G::Then(b(la), b(rest())))));
    }
    out.retain(wf);
    out
}


// ---------------------------------------------------------------------------------------------
// statically typed families for capture sites the grammar AST does not contain:
//  (a) `bytes::Bytes` as the input (feature `bytes`): its slices are reference-counted views, which must
//      still be the caller's memory;  (b) `map_with` applied to an ITEM SOURCE (`x.repeated().map_with(f)`
//      consumed by collect / enumerate / foldl_with / foldr_with): `MapWith`'s IterParser implementation
//      hands `f` the span and slice of each step.

type EB<'a, I> = chumsky::extra::Err<chumsky::error::Rich<'a, u8, <I as chumsky::input::Input<'a>>::Span>>;
/// one capture: span, slice as (address, length), slice content
type Cap = ((usize, usize), (usize, usize), Vec<u8>);

fn byte_family<'a, I>() -> Vec<(&'static str, chumsky::Boxed<'a, 'a, I, Vec<Cap>, EB<'a, I>>)>
where
    I: chumsky::input::ValueInput<'a, Token = u8, Span = SimpleSpan> + chumsky::input::SliceInput<'a> + 'a,
    I::Slice: AsRef<[u8]> + Clone + 'a,
{
    use chumsky::prelude::*;
    fn cap<S: AsRef<[u8]>>(sp: SimpleSpan, sl: &S) -> Cap {
        let b: &[u8] = sl.as_ref();
        ((sp.start, sp.end), (b.as_ptr() as usize, b.len()), b.to_vec())
    }
    let word = || one_of::<_, I, EB<'a, I>>([b'a', b'c']).repeated().at_least(1).to_slice().map_with(|s: I::Slice, e| cap(e.span(), &s));
    vec![
        ("word.separated_by(just(b'b')).collect()", word().separated_by(just(b'b')).allow_trailing().collect::<Vec<Cap>>().boxed()),
        (
            "any().then(any().or_not()).map_with(slice).repeated()",
            any::<I, EB<'a, I>>().then(any().or_not()).map_with(|_, e| { let s: I::Slice = e.slice(); cap(e.span(), &s) }).repeated().collect::<Vec<Cap>>().boxed(),
        ),
        (
            "just(a).then(just(c)).to_slice().or(just(a).to_slice()) after a backtrack",
            just::<_, I, EB<'a, I>>(b'a').then(just(b'c')).to_slice().or(just(b'a').to_slice()).map_with(|s: I::Slice, e| cap(e.span(), &s)).repeated().collect::<Vec<Cap>>().boxed(),
        ),
        (
            "any().repeated().at_most(2).to_slice() then the rest as a slice",
            any::<I, EB<'a, I>>()
                .repeated()
                .at_most(2)
                .to_slice()
                .map_with(|s: I::Slice, e| cap(e.span(), &s))
                .then(any().repeated().to_slice().map_with(|s: I::Slice, e| cap(e.span(), &s)))
                .map(|(x, y)| vec![x, y])
                .boxed(),
        ),
        (
            "nested: (a-run.to_slice(), inner slices) inside an outer to_slice",
            just::<_, I, EB<'a, I>>(b'a')
                .repeated()
                .to_slice()
                .map_with(|s: I::Slice, e| cap(e.span(), &s))
                .then(just(b'b').or_not().to_slice().map_with(|s: I::Slice, e| cap(e.span(), &s)))
                .map_with(|(x, y), e| { let s: I::Slice = e.slice(); vec![x, y, cap(e.span(), &s)] })
                .then_ignore(any().repeated())
                .boxed(),
        ),
    ]
}

fn bytes_case(s: &[u8], l: &mut Local) -> CaseRes {
    use chumsky::Parser;
    let toks: Vec<char> = s.iter().map(|b| *b as char).collect();
    let case = |name: &str| {
        let mut c = Case::new(ID, "bytes-static", &G::Empty, &toks);
        c.extra = json!({ "parser": name });
        c
    };
    let owned = bytes::Bytes::copy_from_slice(s);
    let base_b = owned.as_ref().as_ptr() as usize;
    let base_s = s.as_ptr() as usize;
    let fam_s = byte_family::<&[u8]>();
    let fam_b = byte_family::<bytes::Bytes>();
    for ((name, ps), (_, pb)) in fam_s.iter().zip(fam_b.iter()) {
        let r = quietly(|| {
            let (a, ea) = ps.parse(s).into_output_errors();
            let (b, eb) = pb.parse(owned.clone()).into_output_errors();
            (a, ea.len(), b, eb.len())
        });
        l.evals += 2;
        let Ok((a, ea, b, eb)) = r else {
            return Err((case(name), Fail::new("C07/panic", format!("{} panicked on {:?}", name, toks))));
        };
        // (1) every capture, on both kinds: the slice is the caller's memory at the span
        for (kind, base, out) in [("&[u8]", base_s, &a), ("Bytes", base_b, &b)] {
            for ((st, en), (ptr, len), content) in out.iter().flatten() {
                if st > en || *en > s.len() {
                    return Err((case(name), Fail::new("C07/span-malformed", format!("{} over {}: span {}..{} on an input of {} bytes", name, kind, st, en, s.len()))));
                }
                if *len != en - st || content.as_slice() != &s[*st..*en] {
                    return Err((case(name), Fail::new("C07/slice", format!("{} over {}: slice {:?} (len {}) for span {}..{} of {:?}", name, kind, content, len, st, en, toks))));
                }
                if *len > 0 && *ptr != base + st {
                    return Err((case(name), Fail::new("C07/slice-copied", format!("{} over {}: the slice for span {}..{} lies at offset {} of the caller's buffer (must be the same memory at offset {})", name, kind, st, en, (*ptr as isize) - (base as isize), st))));
                }
                l.bump("byte_slices_checked");
            }
        }
        // (2) the two kinds agree on acceptance, spans and contents
        let strip = |o: &Option<Vec<Cap>>| o.as_ref().map(|v| v.iter().map(|(sp, (_, n), c)| (*sp, *n, c.clone())).collect::<Vec<_>>());
        if strip(&a) != strip(&b) || ea != eb {
            return Err((case(name), Fail::new("C07/bytes-vs-slice", format!("{} on {:?}: &[u8] gives {:?} ({} errors), Bytes gives {:?} ({} errors)", name, toks, strip(&a), ea, strip(&b), eb))));
        }
        if b.is_some() {
            l.bump("bytes_input_accepted");
        }
    }
    Ok(())
}

type ES<'a> = chumsky::extra::Err<chumsky::error::Rich<'a, char>>;
type SpCap = ((usize, usize), (usize, usize));

fn iter_map_with_case(s: &str, l: &mut Local) -> CaseRes {
    use chumsky::prelude::*;
    let toks: Vec<char> = s.chars().collect();
    let case = |name: &str| {
        let mut c = Case::new(ID, "itermap-static", &G::Empty, &toks);
        c.extra = json!({ "parser": name });
        c
    };
    let base = s.as_ptr() as usize;
    // byte extents of the items the reference loop takes: `ab` else `a`, greedily
    let mut ab_items: Vec<(usize, usize)> = vec![];
    {
        let mut p = 0;
        loop {
            if s[p..].starts_with("ab") {
                ab_items.push((p, p + 2));
                p += 2;
            } else if s[p..].starts_with('a') {
                ab_items.push((p, p + 1));
                p += 1;
            } else {
                break;
            }
        }
    }
    let chars: Vec<(usize, usize)> = s.char_indices().map(|(i, c)| (i, i + c.len_utf8())).collect();
    fn capf<'a, 'b>(e: &mut chumsky::input::MapExtra<'a, 'b, &'a str, ES<'a>>, base: usize) -> SpCap {
        let sp = e.span();
        let sl: &str = e.slice();
        ((sp.start, sp.end), (sl.as_ptr() as usize - base, sl.len()))
    }
    let want_caps = |items: &[(usize, usize)]| -> Vec<SpCap> { items.iter().map(|(a, b)| ((*a, *b), (*a, b - a))).collect() };
    macro_rules! run {
        ($name:expr, $p:expr, $want:expr) => {{
            let name: &str = $name;
            let p = $p;
            for check in [false, true] {
                let r = quietly(|| if check { p.check(s).has_output().then(|| None) } else { p.parse(s).into_output().map(Some) });
                l.evals += 1;
                let Ok(got) = r else {
                    return Err((case(name), Fail::new("C07/panic", format!("{} panicked on {:?}", name, s))));
                };
                let want = $want;
                match (got, &want) {
                    (Some(Some(g)), Some(w)) if &g != w => {
                        return Err((case(name), Fail::new("C07/iter-map-with-span", format!("{} on {:?}: the mapper of map_with over an item source saw {:?}, the steps consumed {:?} [(span), (slice offset, length)]", name, s, g, w))));
                    }
                    (Some(_), None) | (None, Some(_)) => {
                        return Err((case(name), Fail::new("C07/accept", format!("{} on {:?} ({}): accepted = {} but the item loop {}", name, s, if check { "check" } else { "parse" }, want.is_none(), if want.is_some() { "matches the whole input" } else { "does not" }))));
                    }
                    _ => {}
                }
                l.bump("iter_map_with_runs");
            }
        }};
    }
    let all_chars = Some(want_caps(&chars));
    run!("any().ignored().repeated().map_with(span+slice).collect()", any::<&str, ES>().ignored().repeated().map_with(move |(), e| capf(e, base)).collect::<Vec<SpCap>>(), all_chars.clone());
    run!(
        "any().ignored().repeated().map(unit).map_with(span+slice).enumerate().collect()",
        any::<&str, ES>().ignored().repeated().map(|()| ()).map_with(move |(), e| capf(e, base)).enumerate().collect::<Vec<(usize, SpCap)>>().map(|v| {
            assert!(v.iter().enumerate().all(|(i, (k, _))| i == *k), "enumerate indices");
            v.into_iter().map(|(_, c)| c).collect::<Vec<SpCap>>()
        }),
        all_chars.clone()
    );
    let ab_end = ab_items.last().map(|x| x.1).unwrap_or(0);
    run!(
        "(ab | a).ignored().repeated().map_with(span+slice).collect().then_ignore(rest)",
        just::<_, &str, ES>("ab").ignored().or(just('a').ignored()).repeated().map_with(move |(), e| capf(e, base)).collect::<Vec<SpCap>>().then_ignore(any().repeated()),
        Some(want_caps(&ab_items))
    );
    run!(
        "empty().foldl_with((ab | a).ignored().repeated().map_with(span), push (item, fold span))",
        empty::<&str, ES>().to(Vec::<SpCap>::new()).foldl_with(just("ab").ignored().or(just('a').ignored()).repeated().map_with(|(), e| e.span()), |mut acc, sp: SimpleSpan, e| {
            let f = e.span();
            acc.push(((sp.start, sp.end), (f.start, f.end)));
            acc
        })
        .then_ignore(any().repeated()),
        Some(ab_items.iter().map(|(a, b)| ((*a, *b), (0usize, *b))).collect::<Vec<SpCap>>())
    );
    run!(
        "(ab | a).ignored().repeated().map_with(span).foldr_with(rest, push (item, fold span))",
        just::<_, &str, ES>("ab").ignored().or(just('a').ignored()).repeated().map_with(|(), e| e.span()).foldr_with(any().repeated().to(Vec::<SpCap>::new()), |sp: SimpleSpan, mut acc, e| {
            let f = e.span();
            acc.push(((sp.start, sp.end), (f.start, f.end)));
            acc
        }),
        Some(ab_items.iter().rev().map(|(a, b)| ((*a, *b), (*a, s.len()))).collect::<Vec<SpCap>>())
    );
    let _ = ab_end;
    // the same over a token input whose tokens carry their own, gapped, spans
    let (spans, eoi) = gapped(toks.len(), 1 + toks.len() as u64);
    let tv: Vec<SpTok> = toks.iter().zip(&spans).map(|(c, sp)| (*c, SimpleSpan::from(sp.0..sp.1))).collect();
    let sl: &[SpTok] = &tv;
    type ET<'a> = chumsky::extra::Err<chumsky::error::Rich<'a, char, SimpleSpan>>;
    let p = any::<SpSlice, ET>().ignored().repeated().map_with(|(), e| { let sp: SimpleSpan = e.span(); (sp.start, sp.end) }).collect::<Vec<(usize, usize)>>();
    let r = quietly(|| p.parse(sp_slice(sl, eoi)).into_output());
    l.evals += 1;
    match r {
        Ok(Some(got)) if got == spans => l.bump("iter_map_with_runs"),
        other => {
            return Err((case("any().ignored().repeated().map_with(span).collect() over slice.map(eoi, (tok, span))"), Fail::new("C07/iter-map-with-span", format!("token spans {:?}: the mapper saw {:?}", spans, other))));
        }
    }
    Ok(())
}


// ---------------------------------------------------------------------------------------------
// the span TYPE of a token-span input: SimpleSpan, Range<usize>, and the tuple spans (context, span) -- each has its own
// implementation of `Span` (new / start / end / context); captured spans must be the same numbers whatever the type

fn span_types_case(s: &str, l: &mut Local) -> CaseRes {
    use chumsky::input::Input as _;
    use chumsky::prelude::*;
    use chumsky::span::Span as SpanT;
    let toks: Vec<char> = s.chars().collect();
    let case = |name: &str| {
        let mut c = Case::new(ID, "spantypes-static", &G::Empty, &toks);
        c.extra = json!({ "span type": name });
        c
    };
    let (spans, eoi) = gapped(toks.len(), 3 + toks.len() as u64);
    fn se<S: SpanT<Offset = usize>>(sp: &S) -> (usize, usize) {
        (sp.start(), sp.end())
    }
    // the family, generic over the mapped input type: spans of two-token chunks, of an a-run and the rest, of an empty match
    fn fam<'a, I>(mk: &dyn Fn() -> I) -> Option<Vec<(usize, usize)>>
    where
        I: chumsky::input::ValueInput<'a, Token = char> + 'a,
        I::Span: SpanT<Offset = usize> + Clone + 'a,
    {
        type E<'a, I> = chumsky::extra::Err<chumsky::error::Cheap<<I as chumsky::input::Input<'a>>::Span>>;
        let p1 = any::<I, E<'a, I>>().then(any().or_not()).to_span().map(|sp: I::Span| se(&sp)).repeated().collect::<Vec<_>>();
        let p2 = just::<_, I, E<'a, I>>('a')
            .repeated()
            .to_span()
            .map(|sp: I::Span| se(&sp))
            .then(empty().to_span().map(|sp: I::Span| se(&sp)))
            .then(any().repeated().map_with(|_, e| { let sp: I::Span = e.span(); se(&sp) }))
            .map(|((a, b), c)| vec![a, b, c]);
        let r = quietly(|| (p1.parse(mk()).into_output(), p2.parse(mk()).into_output()));
        match r {
            Ok((Some(mut a), Some(b))) => {
                a.extend(b);
                Some(a)
            }
            _ => None,
        }
    }
    let t0: Vec<(char, SimpleSpan)> = toks.iter().zip(&spans).map(|(c, sp)| (*c, SimpleSpan::from(sp.0..sp.1))).collect();
    let t1: Vec<(char, std::ops::Range<usize>)> = toks.iter().zip(&spans).map(|(c, sp)| (*c, sp.0..sp.1)).collect();
    let t2: Vec<(char, (u8, SimpleSpan))> = toks.iter().zip(&spans).map(|(c, sp)| (*c, (7u8, SimpleSpan::from(sp.0..sp.1)))).collect();
    let t3: Vec<(char, (u8, std::ops::Range<usize>))> = toks.iter().zip(&spans).map(|(c, sp)| (*c, (7u8, sp.0..sp.1))).collect();
    let base = fam(&|| t0.as_slice().map(SimpleSpan::from(eoi.0..eoi.1), |(t, sp): &(char, SimpleSpan)| (t, sp)));
    l.evals += 2;
    let others: Vec<(&str, Option<Vec<(usize, usize)>>)> = vec![
        ("Range<usize>", fam(&|| t1.as_slice().map(eoi.0..eoi.1, |(t, sp): &(char, std::ops::Range<usize>)| (t, sp)))),
        ("(u8, SimpleSpan)", fam(&|| t2.as_slice().map((7u8, SimpleSpan::from(eoi.0..eoi.1)), |(t, sp): &(char, (u8, SimpleSpan))| (t, sp)))),
        ("(u8, Range<usize>)", fam(&|| t3.as_slice().map((7u8, eoi.0..eoi.1), |(t, sp): &(char, (u8, std::ops::Range<usize>))| (t, sp)))),
    ];
    if base.is_none() {
        return Err((case("SimpleSpan"), Fail::new("C07/panic", format!("the span-capturing parsers failed / panicked on the SimpleSpan token input {:?}", t0))));
    }
    for (name, got) in others {
        l.evals += 2;
        if got != base {
            return Err((case(name), Fail::new("C07/span-type", format!("token spans {:?} (eoi {:?}): captured (start, end) pairs with {} token spans: {:?}; with SimpleSpan token spans: {:?}", spans, eoi, name, got, base))));
        }
        l.bump("span_type_comparisons");
    }
    Ok(())
}

pub fn decode(tape: &[u32]) -> (G, Vec<char>, &'static str, u64) {
    let mut t = Tape::new(tape);
    let kind = ["str", "str", "slice", "stream", "spslice", "spslice", "spstream", "spiter"][t.pick(8)];
    let seed = t.raw() as u64 + 1;
    let (g, alpha) = {
        let mut gg = GGen::new(&mut t, cfg(kind));
        let d = 2 + gg.t.pick(4) as u32;
        let g = gg.gen(d, false);
        (g, gg.alpha.clone())
    };
    let input = gen_input(&g, &mut t, &alpha, 12);
    (g, input, kind, seed)
}

pub fn run(tier: Tier, seed: u64) -> i32 {
    let ctx = Ctx::new(ID, tier, seed);
    ctx.replay_corpus(&check_case);
    let strings = all_strings(&['a', 'b', 'c'], ctx.pick(5, 7));
    let strings_mb = all_strings(&['a', 'é', '𝄞'], ctx.pick(4, 5));
    for (kind, value, slices) in [("str", true, true), ("slice", true, true), ("stream", true, false), ("spslice", true, false), ("spstream", true, false), ("spiter", false, false)] {
        let ts = templates(value, slices);
        ctx.with_local(|l| l.add(&format!("templates:{}", kind), ts.len() as u64));
        let sub = format!("{}-template", kind);
        ctx.par_jobs(&ts, |g, l| {
            for (i, s) in strings.iter().enumerate() {
                check_inner(&sub, g, s, 1 + (i as u64 % 7), l)?;
            }
            Ok(())
        });
    }
    // multi-byte text: the same templates with é for b and 𝄞 for c
    let mb: Vec<G> = templates(true, true)
        .into_iter()
        .map(|mut g| {
            g.transform(&mut |n| {
                if let G::Just(s) | G::OneOf(s) | G::NoneOf(s) | G::Select(s) = n {
                    *s = s.replace('b', "é").replace('c', "𝄞");
                }
            });
            g
        })
        .collect();
    ctx.par_jobs(&mb, |g, l| {
        for s in &strings_mb {
            check_inner("str-template-multibyte", g, s, 1, l)?;
        }
        Ok(())
    });
    ctx.with_local(|l| {
        l.add("strings_per_template", strings.len() as u64);
        l.add("multibyte_strings_per_template", strings_mb.len() as u64);
    });
    // statically typed families: Bytes as the input kind; map_with over item sources
    let bstrings: Vec<Vec<u8>> = all_strings(&['a', 'b', 'c'], ctx.pick(6, 8)).into_iter().map(|v| v.into_iter().map(|c| c as u8).collect()).collect();
    let bchunks: Vec<&[Vec<u8>]> = bstrings.chunks(200).collect();
    ctx.par_jobs(&bchunks, |ch, l| {
        for s in ch.iter() {
            bytes_case(s, l)?;
        }
        Ok(())
    });
    let istrings: Vec<String> = all_strings(&['a', 'b', 'é', '𝄞'], ctx.pick(5, 6)).into_iter().map(|v| v.into_iter().collect()).collect();
    let ichunks: Vec<&[String]> = istrings.chunks(200).collect();
    ctx.par_jobs(&ichunks, |ch, l| {
        for s in ch.iter() {
            iter_map_with_case(s, l)?;
            span_types_case(s, l)?;
        }
        Ok(())
    });
    // Pratt prefix / postfix / infix fold callbacks: the span and slice they see must be exactly the
    // sub-expression being built (tuple, Vec and boxed operator tables); C09's machinery, reported here
    super::c09::callback_span_tier(&ctx, ctx.pick(60, 600), ctx.pick(5, 6), &|mut c, f| {
        c.prop = ID.into();
        c.sub = "pratt".into();
        (c, Fail::new(f.sig.replace("C09/", "C07/pratt-"), f.msg))
    });
    let n = ctx.pick(3_000_000, 18_000_000);
    ctx.par_random(n, 200, 7, |tape, l| {
        let (g, input, sub, seed) = decode(tape);
        debug_assert!(wf(&g), "ill-formed: {}", render(&g));
        check_inner(sub, &g, &input, seed, l)
    });
    ctx.finish(&check_case, RULE, ASSUMPTIONS, &|l| {
        for k in ["byte_slices_checked", "iter_map_with_runs", "empty_match_between_two_tokens", "empty_match_between_two_gapped_tokens", "capture_after_backtrack_over_consumed_input", "multi_byte_text", "kind:str", "kind:slice", "kind:stream", "kind:spslice", "kind:spstream", "kind:spiter", "pratt_fold_callback_cases"] {
            if l.counters.get(k).copied().unwrap_or(0) == 0 {
                return Err(format!("class '{}' is empty", k));
            }
        }
        Ok(())
    })
}

/// one generated case from a raw choice tape (the coverage-guided tier feeds tapes decoded from bytes)
pub fn fuzz_one(tape: &[u32], l: &mut Local) -> CaseRes {
    let (g, input, sub, seed) = decode(tape);
    if !wf(&g) {
        return Ok(());
    }
    check_inner(sub, &g, &input, seed, l)
}
