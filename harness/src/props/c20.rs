//! C20 -- parsing is total: every input yields a result, never a panic, hang or crash.
use super::common::*;
use crate::build::*;
use crate::driver::*;
use crate::gen::*;
use crate::grammar::*;
use crate::reference::{self, RefOpts};
use crate::run::*;
use crate::worker::{run_child, ChildResult};
use chumsky::error::{Cheap, EmptyErr, Simple};
use chumsky::prelude::*;
use chumsky::span::SimpleSpan;

pub const ID: &str = "C20";

pub const RULE: &str = "cases = (grammar, input, error type): the union of all grammar classes of this harness (well-formed by construction: repetition items consume, recursion guarded; features memoization / pratt / regex / extension on), with failing parsers wrapped in map_err / recover_with / labelled / memoized at high weight, built with each of Rich, Simple, Cheap and the zero-sized EmptyErr, on &str (alphabet symbols, derived sentences, empty and truncated inputs, and random strings over the full Unicode range incl. combining marks and 4-byte characters adjacent to backtracking points) and on &[u8] (ASCII-only grammars, arbitrary bytes), and on token trees with gapped spans (nested_in at arbitrary nodes, Rich and EmptyErr: a failing NESTED parse under the wrappers); a text sub-check runs every text::* parser, regex and the Graphemes input on random Unicode / byte strings. Oracle: the call returns -- no panic (caught and reported with its location), no abort / SIGSEGV / stack overflow (the whole check runs in a child process; a signal-killed child is a violation and is re-run single-threaded to pin the case), no watchdog expiry (inconclusive) -- and the result obeys the ParseResult contract (no output => >= 1 error, ...); every reported span lies inside the input with start <= end on char boundaries. Polynomial time, deterministic form: a counting inspector aborts a parse that consumes more than 64 x (reference node evaluations + input length + 16) tokens (the reference evaluates the same PEG with the same backtracking). Pratt: 120 long flat operator chains (up to 64 tight-then-weak alternations) and 20k / 300k random operator strings, two tables (tuple and Vec of boxed operators), parse and check, under the deterministic work bound tokens read <= 16 x (length + 2) x (operators + 2); C11's left-recursive family (incl. cycles through context providers) in a child process. Recursive grammars are built in all three styles (recursive(), declare / define, declaring handle dropped), inside the panic guard; byte-oriented regex patterns, if accepted at all, on multi-byte text. NON-TRIVIAL = the parse failed or recovered inside a wrapper (map_err, recover_with, labelled, memoized, try_map, custom), or the input contains a multi-byte character, or is empty / truncated; distinct = distinct (sub-check, grammar, input).";

pub const ASSUMPTIONS: &[&str] = &[
    "a panic raised by the library's own progress assertions on an ill-formed grammar would be by design; generators only produce grammars whose repetition items consume input",
    "the work bound uses the reference's evaluation count as the yardstick (same PEG, same backtracking); cases on which the reference itself runs out of fuel are skipped (counted)",
    "wall-clock watchdog: 600 s for the whole child (quick), reported as inconclusive, never as a violation",
];

type CheapS = Cheap<SimpleSpan>;
type SimpleS<'s> = Simple<'s, char, SimpleSpan>;

fn norm_panic(m: &str) -> String {
    // keep the location (file:line), drop variable parts of the message
    let loc = m.rsplit(" @ ").next().unwrap_or("");
    let loc = loc.trim_start_matches("/repo/");
    let head: String = m.chars().take_while(|c| !c.is_ascii_digit()).take(40).collect();
    format!("{}@{}", head.trim(), loc)
}

fn one_type<'s, I: Kind<'s>, R: Er<'s, I>>(g: &G, mk: &dyn Fn() -> I, budget: u64, len: usize, is_cb: &dyn Fn(usize) -> bool) -> Result<(bool, usize, u64), (String, String)> {
    // recursive grammars: recursive(), declare / define, and declare / define with the declaring handle dropped
    let style = [RecStyle::Func, RecStyle::DeclareDefine, RecStyle::EarlyClone][g.size() % 3];
    let p = match quietly(|| build_with::<I, R>(g, false, style)) {
        Ok(p) => p,
        Err(_) => {
            let m = LAST_PANIC.with(|p| p.borrow_mut().take()).unwrap_or_default();
            return Err((format!("C20/panic:{}", norm_panic(&m)), format!("building the parser (error type {}) panicked: {}", R::NAME, m)));
        }
    };
    let mut work = 0;
    let mut shape = (false, 0usize);
    for check_mode in [false, true] {
        let mut st = Insp::default();
        st.budget = budget;
        let r = quietly(|| {
            if check_mode {
                let r = p.check_with_state(mk(), &mut st);
                let ho = r.has_output();
                let he = r.has_errors();
                let descs: Vec<ErrDesc> = r.errors().map(|e| e.desc()).collect();
                let conv = r.into_result().is_ok();
                (ho, he, descs, conv)
            } else {
                let r = p.parse_with_state(mk(), &mut st);
                let ho = r.has_output();
                let he = r.has_errors();
                let descs: Vec<ErrDesc> = r.errors().map(|e| e.desc()).collect();
                let conv = r.into_result().is_ok();
                (ho, he, descs, conv)
            }
        });
        let what = if check_mode { "check" } else { "parse" };
        let (ho, he, descs, conv) = match r {
            Ok(x) => x,
            Err(_) => {
                let m = LAST_PANIC.with(|p| p.borrow_mut().take()).unwrap_or_default();
                if m.starts_with("work budget exceeded") {
                    return Err(("C20/work-bound".into(), format!("{}() with {} consumed more than {} tokens on an input of {} tokens (64 x the reference's evaluations): not polynomial / not terminating", what, R::NAME, budget, len)));
                }
                return Err((format!("C20/panic:{}", norm_panic(&m)), format!("{}() with {} panicked: {}", what, R::NAME, m)));
            }
        };
        work = work.max(st.work);
        if he != !descs.is_empty() {
            return Err(("C20/contract".into(), format!("{}() with {}: has_errors()={} but {} errors", what, R::NAME, he, descs.len())));
        }
        if !ho && descs.is_empty() {
            return Err(("C20/silent-failure".into(), format!("{}() with {} failed without reporting any error", what, R::NAME)));
        }
        if conv == he {
            return Err(("C20/contract".into(), format!("{}() with {}: into_result().is_ok()={} with has_errors()={}", what, R::NAME, conv, he)));
        }
        if R::NAME != "EmptyErr" {
            for d in &descs {
                let (s, e) = d.span;
                if s > e || e > len || !is_cb(s) || !is_cb(e) {
                    return Err(("C20/span".into(), format!("{}() with {} reports the span {}..{} on an input of length {} ({:?})", what, R::NAME, s, e, len, d)));
                }
            }
        }
        if !check_mode {
            shape = (ho, descs.len());
        }
    }
    Ok((shape.0, shape.1, work))
}

/// token-tree inputs (nested_in): the input string is a bracketed token string as in C16
fn check_nested(sub: &str, g: &G, input: &str, l: &mut Local) -> CaseRes {
    let toks: Vec<char> = input.chars().collect();
    let case = || Case::new(ID, sub, g, &toks);
    let (nodes, eoi) = parse_tree(&toks, 3);
    let r = reference::eval_tree(g, &nodes, RefOpts::default());
    if r.stats.fuel_out || r.stats.evals >= 300_000 {
        l.bump("skipped_reference_out_of_fuel");
        return Ok(());
    }
    // recovery strategies INSIDE a recursion re-run the recursive parser once per skipped token at every level: the statement's
    // "non-pathological grammars" excludes that shape, and its cost is not a constant multiple of the reference's evaluation
    // count (a false alarm at thorough case counts); there the bound is not applied (reference fuel guard and watchdog remain)
    let pathological = g.any_node(&|n| matches!(n, G::Rec(..))) && g.any_node(&|n| matches!(n, G::Recover(..)));
    let budget = if pathological { 0 } else { 64 * (r.stats.evals + toks.len() as u64 + 16) };
    let tv = tt_from_nodes(&nodes);
    let tsl: &[TTPair] = &tv;
    let eoi_sp = SimpleSpan::from(eoi.0..eoi.1);
    let res = (|| {
        let a = one_type::<TTIn, chumsky::error::Rich<TT, SimpleSpan>>(g, &|| tt_input(tsl, eoi_sp), budget, usize::MAX, &|_| true)?;
        one_type::<TTIn, EmptyErr>(g, &|| tt_input(tsl, eoi_sp), budget, usize::MAX, &|_| true)?;
        Ok(a)
    })();
    l.evals += 4;
    let (ho, nerr, work) = match res {
        Ok(x) => x,
        Err((sig, msg)) => return fail(case, &sig, msg),
    };
    l.bump("nested_input");
    if r.stats.nested_inner_failed > 0 {
        l.bump("nested_inner_parse_failed");
    }
    l.bump(if ho && nerr == 0 {
        "accepted"
    } else if ho {
        "recovered"
    } else {
        "rejected"
    });
    l.add("tokens_consumed_total", work);
    let nontrivial = r.stats.nested_inner_failed > 0 || toks.is_empty();
    l.note(g, &toks, sub, nontrivial, || format!("has_output={} errors={} tokens consumed={} (budget {})", ho, nerr, work, budget));
    Ok(())
}

fn check_inner(sub: &str, g: &G, input: &str, l: &mut Local) -> CaseRes {
    if sub == "nested" {
        return check_nested(sub, g, input, l);
    }
    let toks: Vec<char> = input.chars().collect();
    let case = || Case::new(ID, sub, g, &toks);
    let r = reference::eval(g, &toks, RefOpts::default());
    if r.stats.evals >= 300_000 {
        l.bump("skipped_reference_out_of_fuel");
        return Ok(());
    }
    // recovery strategies INSIDE a recursion re-run the recursive parser once per skipped token at every level: the statement's
    // "non-pathological grammars" excludes that shape, and its cost is not a constant multiple of the reference's evaluation
    // count (a false alarm at thorough case counts); there the bound is not applied (reference fuel guard and watchdog remain)
    let pathological = g.any_node(&|n| matches!(n, G::Rec(..))) && g.any_node(&|n| matches!(n, G::Recover(..)));
    let budget = if pathological { 0 } else { 64 * (r.stats.evals + toks.len() as u64 + 16) };
    let res: Result<(bool, usize, u64), (String, String)> = if sub.starts_with("bytes") {
        let bytes: Vec<u8> = toks.iter().map(|c| *c as u32 as u8).collect();
        let sl: &[u8] = &bytes;
        let n = sl.len();
        (|| {
            let a = one_type::<&[u8], chumsky::error::Rich<u8>>(g, &|| sl, budget, n, &|_| true)?;
            one_type::<&[u8], Simple<u8>>(g, &|| sl, budget, n, &|_| true)?;
            one_type::<&[u8], CheapS>(g, &|| sl, budget, n, &|_| true)?;
            one_type::<&[u8], EmptyErr>(g, &|| sl, budget, n, &|_| true)?;
            Ok(a)
        })()
    } else {
        let s: &str = input;
        let n = s.len();
        let cb = |o: usize| s.is_char_boundary(o);
        (|| {
            let a = one_type::<&str, RichS>(g, &|| s, budget, n, &cb)?;
            one_type::<&str, SimpleS>(g, &|| s, budget, n, &cb)?;
            one_type::<&str, CheapS>(g, &|| s, budget, n, &cb)?;
            one_type::<&str, EmptyErr>(g, &|| s, budget, n, &cb)?;
            Ok(a)
        })()
    };
    l.evals += 8;
    let (ho, nerr, work) = match res {
        Ok(x) => x,
        Err((sig, msg)) => return fail(case, &sig, msg),
    };
    let wrapped = g.any_node(&|n| matches!(n, G::MapErr(..) | G::Recover(..) | G::Labelled(..) | G::Memo(_) | G::TryMap(..) | G::TryMapWith(..) | G::Custom { .. } | G::Ext { .. }));
    let multibyte = toks.iter().any(|c| c.len_utf8() > 1);
    let nontrivial = ((!ho || nerr > 0) && wrapped) || multibyte || toks.is_empty();
    l.bump(if ho && nerr == 0 {
        "accepted"
    } else if ho {
        "recovered"
    } else {
        "rejected"
    });
    if (!ho || nerr > 0) && wrapped {
        l.bump("failed_or_recovered_inside_a_wrapper");
    }
    if multibyte {
        l.bump("multi_byte_input");
    }
    if toks.is_empty() {
        l.bump("empty_input");
    }
    if sub.starts_with("bytes") {
        l.bump("byte_input");
    }
    l.add("tokens_consumed_total", work);
    l.note(g, &toks, sub, nontrivial, || format!("has_output={} errors={} tokens consumed={} (budget {})", ho, nerr, work, budget));
    Ok(())
}

pub fn check_case(case: &Case, l: &mut Local) -> Result<(), Fail> {
    if case.sub == "text" {
        return text_case(&case.input, l).map_err(|(sig, m)| Fail::new(sig, m));
    }
    if case.sub == "leftrec" {
        return match crate::worker::run_child(&["leftrec", "5", "500", "1"], 120, 4_000_000) {
            crate::worker::ChildResult::Ok(_) => Ok(()),
            crate::worker::ChildResult::Violation(m) => Err(Fail::new("C20/left-recursion", m)),
            crate::worker::ChildResult::Inconclusive(m) => Err(Fail::new("C20/inconclusive", m)),
        };
    }
    if case.sub == "unbounded-set" {
        // listed as KF-d; the probe itself lives in run_inner
        return Ok(());
    }
    if case.sub == "pratt" {
        return pratt_case(&case.input, l).map_err(|(sig, m)| Fail::new(sig, m));
    }
    if case.sub == "depth" {
        let e = &case.extra;
        let gs = |k: &str| e.get(k).and_then(|x| x.as_str()).unwrap_or("").to_string();
        let d = e.get("depth").and_then(|x| x.as_u64()).unwrap_or(10).to_string();
        let tr = if e.get("truncated").and_then(|x| x.as_bool()).unwrap_or(false) { "1" } else { "0" };
        l.evals += 1;
        return match crate::worker::run_child(&["depth", &gs("shape"), &gs("style"), &gs("mode"), &d, tr], 300, 12_000_000) {
            crate::worker::ChildResult::Ok(_) => Ok(()),
            crate::worker::ChildResult::Violation(m) => Err(Fail::new("C20/deep-nesting", m)),
            crate::worker::ChildResult::Inconclusive(m) => Err(Fail::new("C20/inconclusive", m)),
        };
    }
    if case.sub == "crash" {
        return Err(Fail::new("C20/crash", "recorded crash of the worker process (re-run the check to reproduce)"));
    }
    check_inner(&case.sub, &case.g, &case.input, l).map_err(|(_, f)| f)
}

/// failing parsers directly under each wrapper, for each way of failing
pub fn templates() -> Vec<G> {
    let j = |s: &str| G::Just(s.into());
    let rep = |item: G, lo: u8, hi: Option<u8>, sink: Sink| G::Rep(Rep { item: b(item), sep: None, leading: false, trailing: false, lo, hi, sink, cfg: false, ctxb: 0 });
    let failing: Vec<G> = vec![
        j("ab"),
        G::TryMap(b(G::Any), Pred::Never, 1),
        G::TryMapWith(b(G::Any), Pred::FirstIn("a".into()), 2),
        G::Filter(b(G::Any), Pred::Never),
        G::Custom { take: 1, ok: false, tag: 3 },
        G::Custom { take: 0, ok: false, tag: 3 },
        G::Ext { take: 2, ok: false, tag: 4 },
        G::Memo(b(j("ab"))),
        G::Memo(b(G::Memo(b(G::TryMap(b(G::Any), Pred::Never, 5))))),
        rep(j("a"), 0, Some(1), Sink::Exactly(2)),
        rep(j("a"), 2, Some(2), Sink::Exactly(2)),
        G::IntoIter(b(G::OrNot(b(j("a")))), 4),
        G::Not(b(G::Any)),
        G::End,
        G::Labelled(b(G::Then(b(j("a")), b(j("b")))), "L".into(), false),
        G::Labelled(b(G::TryMap(b(G::Any), Pred::Never, 6)), "L".into(), true),
        G::AndIs(b(G::Any), b(j("b"))),
        G::Unwrapped(b(G::Then(b(j("a")), b(j("c"))))),
    ];
    let wrappers: Vec<Box<dyn Fn(G) -> G>> = vec![
        Box::new(|g| G::MapErr(b(g), 1, false)),
        Box::new(|g| G::MapErr(b(g), 1, true)),
        Box::new(|g| G::Recover(b(g), Strat::Via(b(G::To(b(G::Any), 901))))),
        Box::new(|g| G::Recover(b(g), Strat::SkipUntil { skip: b(G::Any), until: b(G::OneOf("c".into())), tag: 2 })),
        Box::new(|g| G::Recover(b(g), Strat::SkipRetry { skip: b(G::Any), until: b(G::End) })),
        Box::new(|g| G::Recover(b(g), Strat::Nested { open: '(', close: ')', others: vec![('[', ']')], tag: 3 })),
        Box::new(|g| G::Labelled(b(g), "W".into(), true)),
        Box::new(|g| G::Memo(b(g))),
        Box::new(|g| G::MapErr(b(G::Recover(b(g), Strat::SkipRetry { skip: b(G::OneOf("ab".into())), until: b(G::OneOf("c".into())) })), 7, false)),
        Box::new(|g| G::Recover(b(G::Recover(b(g), Strat::Via(b(G::To(b(G::Just("c".into())), 902))))), Strat::SkipRetry { skip: b(G::Any), until: b(G::End) })),
    ];
    let mut out = vec![];
    for w in &wrappers {
        for f in &failing {
            let wf_ = w(f.clone());
            out.push(wf_.clone());
            out.push(G::Then(b(wf_.clone()), b(rep(G::Any, 0, None, Sink::Bare))));
            out.push(G::Or(b(G::Then(b(j("a")), b(j("c")))), b(wf_.clone())));
            out.push(rep(G::Then(b(G::OneOf("abc".into())), b(wf_.clone())), 0, None, Sink::Vec));
        }
    }
    out.retain(wf);
    out
}

fn unicode_string(t: &mut Tape, alpha: &[char], max: usize) -> String {
    // symbols of the grammar mixed with characters from every UTF-8 length class, combining marks,
    // ZWJ, variation selectors, the last code point before / after the surrogate gap
    const ODD: &[char] = &['\u{0}', '\u{7f}', '\u{80}', '\u{301}', '\u{7ff}', '\u{800}', '\u{200d}', '\u{fe0f}', '\u{d7ff}', '\u{e000}', '\u{ffff}', '\u{10000}', '\u{1f600}', '\u{10ffff}', 'é', '→', '𝄞', '\r', '\n', '\u{85}', '\u{2028}'];
    let n = t.pick(max + 1);
    let mut s = String::new();
    for _ in 0..n {
        match t.weighted(&[4, 3, 1]) {
            0 => s.push(alpha[t.pick(alpha.len())]),
            1 => s.push(ODD[t.pick(ODD.len())]),
            _ => {
                let v = t.raw() % 0x110000;
                s.push(char::from_u32(v).unwrap_or('\u{fffd}'));
            }
        }
    }
    s
}

pub fn decode(tape: &[u32]) -> (G, String, &'static str) {
    let mut t = Tape::new(tape);
    let kind = t.weighted(&[5, 2, 1]);
    if kind == 2 {
        // token trees: nested_in at arbitrary nodes, failing parsers (incl. failing NESTED parses) under the wrappers
        let (g, alpha) = {
            let mut c = super::c16::cfg();
            c.map_err = true;
            c.label = true;
            c.memo = true;
            let mut gg = GGen::new(&mut t, c);
            let d = 2 + gg.t.pick(3) as u32;
            let mut g = gg.gen(d, false);
            if !g.any_node(&|n| matches!(n, G::NestedIn(_))) {
                let inner = gg.gen(d.min(3), true);
                g = G::Or(b(G::NestedIn(b(inner))), b(g));
            }
            match gg.t.pick(6) {
                0 => g = G::MapErr(b(g), 90, false),
                1 => g = G::Recover(b(g), gg.gen_strat_pub(2, false)),
                2 => g = G::Labelled(b(g), "TOP".into(), true),
                3 => g = G::Memo(b(g)),
                _ => {}
            }
            (g, gg.alpha.clone())
        };
        let mut sym = alpha.clone();
        sym.push(GOPEN);
        sym.push(GCLOSE);
        let input: String = gen_input(&g, &mut t, &sym, 12).into_iter().collect();
        return (g, input, "nested");
    }
    let (g, alpha) = {
        let mut c = GenCfg::all();
        c.track = false;
        if kind == 1 {
            c.ascii_only = true;
            c.slices = false;
        }
        let mut gg = GGen::new(&mut t, c);
        let d = 2 + gg.t.pick(4) as u32;
        let mut g = gg.gen(d, false);
        // a wrapper around the whole grammar with high probability
        match gg.t.pick(6) {
            0 => g = G::MapErr(b(g), 90, false),
            1 => g = G::Recover(b(g), gg.gen_strat_pub(2, false)),
            2 => g = G::Labelled(b(g), "TOP".into(), true),
            3 => g = G::Memo(b(g)),
            _ => {}
        }
        (g, gg.alpha.clone())
    };
    if kind == 1 {
        // arbitrary bytes
        let n = t.pick(13);
        let s: String = (0..n).map(|_| if t.chance(1, 2) { alpha[t.pick(alpha.len())] } else { (t.raw() % 256) as u8 as char }).collect();
        return (g, s, "bytes");
    }
    let input = match t.weighted(&[4, 3, 1]) {
        0 => gen_input(&g, &mut t, &alpha, 12).into_iter().collect(),
        1 => unicode_string(&mut t, &alpha, 10),
        _ => {
            // truncated derived sentence
            let mut v = gen_input(&g, &mut t, &alpha, 12);
            let k = t.pick(v.len() + 1);
            v.truncate(k);
            v.into_iter().collect()
        }
    };
    (g, input, "str")
}

// ---- text parsers, regex, graphemes: totality on arbitrary strings ----

fn text_case(s: &str, l: &mut Local) -> Result<(), (String, String)> {
    type E<'a> = extra::Err<Rich<'a, char>>;
    type EB<'a> = extra::Err<Rich<'a, u8>>;
    macro_rules! total {
        ($name:expr, $p:expr, $inp:expr) => {{
            let r = quietly(|| {
                let p = $p;
                let a = p.parse($inp).into_output_errors();
                let c = p.check($inp).has_output();
                (a.0.is_some(), a.1.len(), c)
            });
            l.evals += 2;
            match r {
                Err(_) => {
                    let m = LAST_PANIC.with(|p| p.borrow_mut().take()).unwrap_or_default();
                    return Err((format!("C20/panic:{}", norm_panic(&m)), format!("{} panicked on {:?}: {}", $name, s, m)));
                }
                Ok((ho, ne, _)) => {
                    if !ho && ne == 0 {
                        return Err(("C20/silent-failure".into(), format!("{} failed on {:?} without an error", $name, s)));
                    }
                }
            }
        }};
    }
    let bytes = s.as_bytes();
    for radix in [2u32, 10, 16, 36] {
        total!("text::int", text::int::<&str, E>(radix).then(any().repeated()).to_slice(), s);
        total!("text::digits", text::digits::<&str, E>(radix).then(any().repeated()).to_slice(), s);
        total!("text::int/u8", text::int::<&[u8], EB>(radix).then(any().repeated()).to_slice(), bytes);
    }
    total!("ascii::ident", text::ascii::ident::<&str, E>().then(any().repeated()).to_slice(), s);
    total!("unicode::ident", text::unicode::ident::<&str, E>().then(any().repeated()).to_slice(), s);
    total!("ascii::ident/u8", text::ascii::ident::<&[u8], EB>().then(any().repeated()).to_slice(), bytes);
    total!("ascii::keyword", text::ascii::keyword::<&str, _, E>("a").then(any().repeated()).to_slice(), s);
    total!("unicode::keyword", text::unicode::keyword::<&str, _, E>("é").then(any().repeated()).to_slice(), s);
    total!("whitespace", text::whitespace::<&str, E>().then(any().repeated()).to_slice(), s);
    total!("inline_whitespace", text::inline_whitespace::<&str, E>().then(any().repeated()).to_slice(), s);
    total!("newline", text::newline::<&str, E>().repeated().then(any().repeated()).to_slice(), s);
    total!("padded", any::<&str, E>().padded().repeated().to_slice(), s);
    total!("padded/u8", any::<&[u8], EB>().padded().repeated().to_slice(), bytes);
    total!("any.repeated.to_slice", any::<&str, E>().repeated().at_most(3).to_slice().then(any().repeated().to_slice()), s);
    total!("regex", chumsky::regex::regex::<&str, E>("[a-z0-9é]+|.").repeated().at_most(8).to_slice().then(any().repeated()), s);
    total!("regex/u8", chumsky::regex::regex::<&[u8], EB>("[a-z0-9]+").or_not().then(any().repeated()).to_slice(), bytes);
    // byte-oriented patterns: if the library accepts such a pattern at all (at this commit regex() refuses them when the
    // parser is built), a match must never end inside a multi-byte character of a &str input
    for pat in ["(?-u:[^,])", "(?s-u:.{2})", "(?-u:\\W)", "(?s-u:.)"] {
        match quietly(|| chumsky::regex::regex::<&str, E>(pat)) {
            Err(_) => {
                let _ = LAST_PANIC.with(|p| p.borrow_mut().take());
                l.bump("byte_mode_regex_refused_at_construction");
            }
            Ok(rx) => {
                total!("regex (byte-oriented pattern)", rx.clone().repeated().at_most(3).to_slice().then(any().repeated().to_slice()), s);
            }
        }
    }
    // Graphemes input
    {
        use chumsky::text::{Grapheme, Graphemes};
        type EG<'a> = extra::Err<Rich<'a, &'a Grapheme>>;
        let gs = Graphemes::new(s);
        let r = quietly(|| {
            let p = any::<&Graphemes, EG>().repeated().collect::<Vec<&Grapheme>>();
            let (o, e) = p.parse(gs).into_output_errors();
            let n = o.as_ref().map(|v| v.len()).unwrap_or(0);
            let back: String = o.map(|v| v.iter().map(|g| g.as_str()).collect()).unwrap_or_default();
            let q = any::<&Graphemes, EG>().padded().repeated().to_slice().then(any().repeated());
            let c = q.check(gs).has_output();
            (n, back, e.len(), c)
        });
        l.evals += 2;
        match r {
            Err(_) => {
                let m = LAST_PANIC.with(|p| p.borrow_mut().take()).unwrap_or_default();
                return Err((format!("C20/panic:{}", norm_panic(&m)), format!("parsing Graphemes::new({:?}) panicked: {}", s, m)));
            }
            Ok((_, back, ne, _)) => {
                if ne == 0 && back != s {
                    return Err(("C20/graphemes".into(), format!("the grapheme tokens of {:?} concatenate to {:?}", s, back)));
                }
            }
        }
    }
    l.bump("text_strings");
    if s.chars().any(|c| c.len_utf8() > 1) {
        l.bump("text_strings_multi_byte");
    }
    Ok(())
}


// ---------------------------------------------------------------------------------------------
// Pratt expressions (not in the grammar AST): totality and the deterministic work bound on long flat operator chains.
// The number of tokens the inspector is fed (every read counts, also reads that are rewound) must stay within
// 16 x (length + 2) x (operators + 2): linear in the input for a fixed table. An operator or operand that is parsed and
// then thrown away at every enclosing level makes the count exponential in the number of tight-then-weak alternations.

fn pratt_case(s: &str, l: &mut Local) -> Result<(), (String, String)> {
    use chumsky::pratt::*;
    type EP<'a> = extra::Full<Rich<'a, char>, Insp, ()>;
    let atom = || one_of::<_, &str, EP>("0123456789x").map(|_| 1u32);
    macro_rules! bounded {
        ($name:expr, $nops:expr, $p:expr) => {{
            let p = $p;
            let budget = 16 * (s.chars().count() as u64 + 2) * ($nops + 2);
            for check in [false, true] {
                let r = quietly(|| {
                    let mut st = Insp::default();
                    st.budget = budget;
                    if check {
                        let r = p.check_with_state(s, &mut st);
                        let (ho, ne) = (r.has_output(), r.errors().len());
                        drop(r);
                        (ho, ne, st.work)
                    } else {
                        let r = p.parse_with_state(s, &mut st);
                        let (ho, ne) = (r.has_output(), r.errors().len());
                        drop(r);
                        (ho, ne, st.work)
                    }
                });
                l.evals += 1;
                match r {
                    Err(_) => {
                        let m = LAST_PANIC.with(|p| p.borrow_mut().take()).unwrap_or_default();
                        if m.starts_with("work budget exceeded") {
                            return Err(("C20/work-bound".into(), format!("{} ({}) read more than {} tokens on the {}-character expression {:?}: not polynomial in the input", $name, if check { "check" } else { "parse" }, budget, s.chars().count(), s)));
                        }
                        return Err((format!("C20/panic:{}", norm_panic(&m)), format!("{} panicked on {:?}: {}", $name, s, m)));
                    }
                    Ok((ho, ne, work)) => {
                        if !ho && ne == 0 {
                            return Err(("C20/silent-failure".into(), format!("{} failed on {:?} without an error", $name, s)));
                        }
                        l.add("pratt_tokens_read_total", work);
                        l.bump("pratt_chain_runs");
                    }
                }
            }
        }};
    }
    bounded!(
        "atom.pratt((left(1) +, left(1) -, left(2) *, right(3) ^, prefix(2) -, postfix(4) !))",
        6u64,
        atom().pratt((
            infix(left(1), just('+'), |a: u32, _, b: u32, _| a + b),
            infix(left(1), just('-'), |a: u32, _, b: u32, _| a + b),
            infix(left(2), just('*'), |a: u32, _, b: u32, _| a + b),
            infix(right(3), just('^'), |a: u32, _, b: u32, _| a + b),
            prefix(2, just('-'), |_, a: u32, _| a + 1),
            postfix(4, just('!'), |a: u32, _, _| a + 1),
        ))
        .then_ignore(any().repeated())
    );
    bounded!(
        "Vec of boxed operators (right(1) +, left(2) *, left(3) ^, postfix(1) !)",
        4u64,
        atom()
            .pratt(vec![
                infix(right(1), just('+'), |a: u32, _, b: u32, _| a + b).boxed(),
                infix(left(2), just('*'), |a: u32, _, b: u32, _| a + b).boxed(),
                infix(left(3), just('^'), |a: u32, _, b: u32, _| a + b).boxed(),
                postfix(1, just('!'), |a: u32, _, _| a + 1).boxed(),
            ])
            .then_ignore(any().repeated())
    );
    Ok(())
}

fn pratt_chains() -> Vec<String> {
    let mut v = vec![];
    for unit in ["+2*3", "*2+3", "+2*3^4", "^2*3+4", "+-2*3!", "*2^3+4!", "-x+", "+2*-3", "^2", "!+2*3"] {
        for n in [1usize, 4, 12, 24, 40, 64] {
            v.push(format!("1{}", unit.repeat(n)));
            v.push(format!("1{}+", unit.repeat(n)));
        }
    }
    v
}

/// the check proper; runs inside a child process
pub fn run_inner(tier: Tier, seed: u64) -> i32 {
    let ctx = Ctx::new(ID, tier, seed);
    let trace = std::env::var("C20_TRACE").ok();
    let traced = |case: &Case| {
        if let Some(p) = &trace {
            let _ = std::fs::write(p, serde_json::to_string(case).unwrap());
        }
    };
    ctx.replay_corpus(&check_case);
    let ts = templates();
    let strings: Vec<String> = all_strings(&['a', 'b', 'c'], ctx.pick(4, 6)).into_iter().map(|v| v.into_iter().collect()).collect();
    let extra: Vec<String> = vec!["(a)".into(), "([a])".into(), "(a".into(), "é".into(), "aé".into(), "a𝄞b".into(), "\u{301}".into()];
    ctx.with_local(|l| {
        l.add("templates", ts.len() as u64);
        l.add("strings_per_template", (strings.len() + extra.len()) as u64);
    });
    ctx.par_jobs(&ts, |g, l| {
        for s in strings.iter().chain(extra.iter()) {
            if trace.is_some() {
                traced(&Case::new(ID, "template", g, &s.chars().collect::<Vec<_>>()));
            }
            check_inner("template", g, s, l)?;
        }
        Ok(())
    });
    let n = ctx.pick(1_500_000, 10_000_000);
    ctx.par_random(n, 220, 20, |tape, l| {
        let (g, input, sub) = decode(tape);
        debug_assert!(wf(&g), "ill-formed: {}", render(&g));
        if trace.is_some() {
            traced(&Case::new(ID, sub, &g, &input.chars().collect::<Vec<_>>()));
        }
        check_inner(sub, &g, &input, l)
    });
    let nt = ctx.pick(40_000, 600_000);
    ctx.par_random(nt, 40, 21, |tape, l| {
        let mut t = Tape::new(tape);
        let s = unicode_string(&mut t, &['a', 'Z', '0', '7', '_', ' ', '\t', 'é'], 12);
        if trace.is_some() {
            traced(&Case::new(ID, "text", &G::Empty, &s.chars().collect::<Vec<_>>()));
        }
        text_case(&s, l).map_err(|(sig, m)| (Case::new(ID, "text", &G::Empty, &s.chars().collect::<Vec<_>>()), Fail::new(sig, m)))
    });
    // token sets given as an UNBOUNDED range (Seq for RangeFrom): a rejected token must be reported, not panic
    {
        let mut l = Local::default();
        for (name, input) in [("one_of('b'..)", "a"), ("one_of('b'..)", ""), ("none_of('b'..)", "c"), ("just('b'..)", "bcx")] {
            let r = quietly(|| {
                type ER<'a> = extra::Err<Rich<'a, char>>;
                let res = match name {
                    "one_of('b'..)" => one_of::<_, &str, ER>('b'..).ignored().parse(input).into_output_errors(),
                    "none_of('b'..)" => none_of::<_, &str, ER>('b'..).ignored().parse(input).into_output_errors(),
                    _ => just::<_, &str, ER>('b'..).ignored().parse(input).into_output_errors(),
                };
                (res.0.is_some(), res.1.len())
            });
            l.evals += 1;
            let toks: Vec<char> = input.chars().collect();
            let mut c = Case::new(ID, "unbounded-set", &G::Empty, &toks);
            c.extra = serde_json::json!({ "parser": name });
            match r {
                Err(_) => {
                    let m = LAST_PANIC.with(|p| p.borrow_mut().take()).unwrap_or_default();
                    let res = Err((c, Fail::new("C20/unbounded-set-enumerated", format!("{} with Rich errors on {:?} panicked while reporting the failure: {}", name, input, m))));
                    ctx.judge(&mut l, res);
                }
                Ok((ho, ne)) => {
                    if !ho && ne == 0 {
                        let res = Err((c, Fail::new("C20/silent-failure", format!("{} failed on {:?} without an error", name, input))));
                        ctx.judge(&mut l, res);
                    }
                    l.bump("unbounded_set_probes_returned");
                }
            }
        }
        ctx.with_local(|acc| acc.merge(l));
    }
    // Pratt: long flat operator chains and random operator strings under the work bound
    {
        let chains = pratt_chains();
        ctx.par_jobs(&chains, |s, l| {
            if trace.is_some() {
                traced(&Case::new(ID, "pratt", &G::Empty, &s.chars().collect::<Vec<_>>()));
            }
            pratt_case(s, l).map_err(|(sig, m)| (Case::new(ID, "pratt", &G::Empty, &s.chars().collect::<Vec<_>>()), Fail::new(sig, m)))
        });
        let np = ctx.pick(20_000, 300_000);
        ctx.par_random(np, 140, 22, |tape, l| {
            let mut t = Tape::new(tape);
            let n = 1 + t.pick(120);
            let s: String = (0..n).map(|_| ['1', 'x', '+', '-', '*', '^', '!', '+', '*', '2', '(', ' '][t.pick(12)]).collect();
            if trace.is_some() {
                traced(&Case::new(ID, "pratt", &G::Empty, &s.chars().collect::<Vec<_>>()));
            }
            pratt_case(&s, l).map_err(|(sig, m)| (Case::new(ID, "pratt", &G::Empty, &s.chars().collect::<Vec<_>>()), Fail::new(sig, m)))
        });
    }
    // deeply nested inputs never overflow the stack: the depth workers of C12 (recursive(), declare/define and a
    // Pratt prefix chain; 256 KiB thread stack) at one depth, balanced and truncated, parse and check
    {
        let depth = ctx.pick(30_000u64, 200_000u64);
        let mut l = Local::default();
        for (shape, style) in [("paren", "func"), ("list", "decl"), ("pratt", "func")] {
            for mode in ["parse", "check"] {
                for truncated in [false, true] {
                    if ctx.stopped() {
                        break;
                    }
                    l.evals += 1;
                    let mk = || {
                        let mut c = Case::new(ID, "depth", &G::Empty, &[]);
                        c.extra = serde_json::json!({"shape": shape, "style": style, "mode": mode, "depth": depth, "truncated": truncated});
                        c
                    };
                    match crate::worker::run_child(&["depth", shape, style, mode, &depth.to_string(), if truncated { "1" } else { "0" }], 300, 12_000_000) {
                        crate::worker::ChildResult::Ok(_) => l.bump("deeply_nested_inputs_survived"),
                        crate::worker::ChildResult::Violation(m) => {
                            let r = Err((mk(), Fail::new("C20/deep-nesting", m)));
                            ctx.judge(&mut l, r);
                        }
                        crate::worker::ChildResult::Inconclusive(m) => {
                            *ctx.inconclusive.lock().unwrap() = Some(format!("depth worker: {}", m));
                        }
                    }
                }
            }
        }
        ctx.with_local(|acc| {
            acc.evals += l.evals;
            for (k, v) in &l.counters {
                acc.add(k, *v);
            }
        });
    }
    // memoized left recursion terminates (no unbounded recursion, no stack exhaustion): C11's left-recursive family --
    // incl. cycles that pass through context providers, boxing, labels, map_err / validate -- in a child process
    if !ctx.stopped() {
        let (max_len, random) = ctx.pick((5usize, 500u64), (6usize, 5_000u64));
        match crate::worker::run_child(&["leftrec", &max_len.to_string(), &random.to_string(), &seed.to_string()], 120, 4_000_000) {
            crate::worker::ChildResult::Ok(out) => {
                let line = out.lines().find(|l| l.starts_with("LEFTREC-OK")).unwrap_or("").to_string();
                let parses: u64 = line.split("parses=").nth(1).and_then(|x| x.split(' ').next()).and_then(|x| x.parse().ok()).unwrap_or(0);
                ctx.with_local(|l| {
                    l.evals += parses;
                    l.add("left_recursive_parses_that_returned", parses);
                });
            }
            crate::worker::ChildResult::Violation(msg) => {
                let c = Case::new(ID, "leftrec", &G::Empty, &[]);
                let mut l = Local::default();
                ctx.judge(&mut l, Err((c, Fail::new("C20/left-recursion", msg))));
            }
            crate::worker::ChildResult::Inconclusive(msg) => {
                *ctx.inconclusive.lock().unwrap() = Some(format!("left-recursion worker: {}", msg));
            }
        }
    }
    ctx.finish(&check_case, RULE, ASSUMPTIONS, &|l| {
        for k in ["pratt_chain_runs", "left_recursive_parses_that_returned", "failed_or_recovered_inside_a_wrapper", "multi_byte_input", "empty_input", "byte_input", "nested_input", "nested_inner_parse_failed", "text_strings_multi_byte", "recovered", "accepted", "rejected"] {
            if l.counters.get(k).copied().unwrap_or(0) == 0 {
                return Err(format!("class '{}' is empty", k));
            }
        }
        Ok(())
    })
}

/// supervisor: runs `run_inner` in a child process under an address-space limit and a watchdog
pub fn run(tier: Tier, seed: u64) -> i32 {
    let tier_s = if tier == Tier::Quick { "quick" } else { "thorough" };
    let timeout = if tier == Tier::Quick { 600 } else { 7200 };
    let seed_s = seed.to_string();
    match run_child_passthrough(&["c20run", tier_s, &seed_s], timeout, 24_000_000, &[]) {
        Passthrough::Exited(code, out) => {
            print!("{}", out);
            code
        }
        Passthrough::Signal(sig, out) => {
            print!("{}", out);
            // pin the case: single-threaded re-run that records every case before running it
            let root = verif_root();
            let dir = root.join("replays").join(ID);
            let _ = std::fs::create_dir_all(&dir);
            let trace = dir.join("inflight.json");
            let _ = std::fs::remove_file(&trace);
            let tp = trace.display().to_string();
            let _ = run_child_passthrough(&["c20run", tier_s, &seed_s], timeout, 24_000_000, &[("C20_TRACE", tp.as_str()), ("VERIF_THREADS", "1")]);
            let replay = dir.join(format!("crash-signal-{}.json", sig));
            if trace.exists() {
                let _ = std::fs::rename(&trace, &replay);
            } else {
                let c = Case::new(ID, "crash", &G::Empty, &[]);
                let _ = std::fs::write(&replay, serde_json::to_string_pretty(&c).unwrap());
            }
            println!("the worker process of C20 was killed by signal {} (stack overflow / abort / out-of-bounds access)", sig);
            println!("VIOLATION property={} replay={}", ID, replay.display());
            1
        }
        Passthrough::Timeout => {
            println!("INCONCLUSIVE property={} watchdog: the worker did not finish within {} s", ID, timeout);
            2
        }
        Passthrough::Failed(m) => {
            println!("INCONCLUSIVE property={} {}", ID, m);
            2
        }
    }
}

pub enum Passthrough {
    Exited(i32, String),
    Signal(i32, String),
    Timeout,
    Failed(String),
}

pub fn run_child_passthrough(args: &[&str], timeout_s: u64, mem_kib: u64, env: &[(&str, &str)]) -> Passthrough {
    use std::io::Read;
    use std::process::{Command, Stdio};
    let exe = std::env::current_exe().expect("current_exe");
    let cmd = if mem_kib > 0 { format!("ulimit -v {}; exec \"{}\" worker {}", mem_kib, exe.display(), args.join(" ")) } else { format!("exec \"{}\" worker {}", exe.display(), args.join(" ")) };
    let mut c = Command::new("sh");
    c.arg("-c").arg(&cmd).stdout(Stdio::piped()).stderr(Stdio::inherit());
    for (k, v) in env {
        c.env(k, v);
    }
    let mut child = match c.spawn() {
        Ok(c) => c,
        Err(e) => return Passthrough::Failed(format!("cannot spawn worker: {}", e)),
    };
    let mut stdout = child.stdout.take().unwrap();
    let h = std::thread::spawn(move || {
        let mut s = String::new();
        let _ = stdout.read_to_string(&mut s);
        s
    });
    let t0 = std::time::Instant::now();
    let status = loop {
        match child.try_wait() {
            Ok(Some(st)) => break st,
            Ok(None) => {
                if t0.elapsed().as_secs() > timeout_s {
                    let _ = child.kill();
                    let _ = child.wait();
                    return Passthrough::Timeout;
                }
                std::thread::sleep(std::time::Duration::from_millis(50));
            }
            Err(e) => return Passthrough::Failed(format!("wait failed: {}", e)),
        }
    };
    let out = h.join().unwrap_or_default();
    use std::os::unix::process::ExitStatusExt;
    if let Some(sig) = status.signal() {
        return Passthrough::Signal(sig, out);
    }
    match status.code() {
        Some(c) if c > 128 => Passthrough::Signal(c - 128, out),
        Some(c) => Passthrough::Exited(c, out),
        None => Passthrough::Failed("no exit status".into()),
    }
}

#[allow(dead_code)]
fn unused() {
    let _ = run_child(&[], 0, 0);
    let _: Option<ChildResult> = None;
}

/// one generated case from a raw choice tape (the coverage-guided tier feeds tapes decoded from bytes)
pub fn fuzz_one(tape: &[u32], l: &mut Local) -> CaseRes {
    let (g, input, sub) = decode(tape);
    if !wf(&g) {
        return Ok(());
    }
    check_inner(sub, &g, &input, l)
}
