//! C03 -- parse result contract: whole input, output/error consistency, lazy prefix.
use super::common::*;
use crate::build::*;
use crate::compare::*;
use crate::driver::*;
use crate::gen::*;
use crate::grammar::*;
use crate::reference::{self, RefOut};
use crate::run::*;
use chumsky::Parser;

pub const ID: &str = "C03";

pub const RULE: &str = "cases = (grammar, input) with grammars of the C01/C02 classes plus validate(..) emitters and recover_with(..) nodes (C08 class); inputs derived/random as in C01 plus the bounded-exhaustive tier (small grammars x all strings over {a,b,c} up to length L). On every case the raw ParseResult of parse() and of check() is tested for: has_errors <=> errors non-empty; no output => >= 1 error; errors => into_result() is Err; no errors => output present and into_result() is Ok; an error-free result with output <=> the reference matches the ENTIRE input without emissions (output equal). For every cleanly accepted input w and every symbol c of the alphabet plus a foreign one, parse(w.c) must be rejected unless the reference matches w.c entirely. g.lazy() must accept iff the reference matches a prefix (same output). The accessors of every ParseResult (output, into_output, into_output_errors, into_errors, errors) must describe the same result as has_output / has_errors. One random case in sixteen also runs on every other input representation; a long-Stream tier (a^n and a^n b for 13 lengths around the 512-token batch boundaries, Vec / filter / from_fn iterators, plain and boxed); templates for fixed-size collections whose item source ends short without any parser having failed. NON-TRIVIAL = the reference matched a non-empty proper prefix of the input (where a missing end-of-input check would show), or the result has output and errors; distinct = distinct (sub-check, grammar, input). Regex tier (feature regex): regex(r1).then(regex(r2)) for every pair of 12 pattern templates (incl. nullable ones) x every string over {a b 0 e é} up to length 4 (5): an error-free parse() / check() result iff the two anchored regex-automata matches tile the ENTIRE input, and .lazy() accepts iff they match a prefix, with that extent.";

pub const ASSUMPTIONS: &[&str] = &[
    "reference PEG evaluator (harness/src/reference.rs) decides 'matches the entire input'; admissible variants V-lead / V-trail-cap are all tried",
    "recovery grammars take part in the result-shape implications and in 'error-free => whole input matched'; the exact content of recovered errors is C08's business",
];

fn clean(r: &RefOut) -> bool {
    r.accepted && r.emitted.is_empty()
}

fn check_inner(sub: &str, g: &G, toks: &[char], alpha: &[char], l: &mut Local) -> CaseRes {
    let case = || {
        let mut c = Case::new(ID, sub, g, toks);
        c.extra = serde_json::json!({"alphabet": alpha.iter().collect::<String>()});
        c
    };
    let vs = variants(g, toks);
    let refs: Vec<RefOut> = vs.iter().map(|o| reference::eval(g, toks, o.clone())).collect();
    if refs[0].stats.fuel_out {
        l.bump("skipped_fuel");
        return Ok(());
    }
    let has_recovery = g.any_node(&|n| matches!(n, G::Recover(..)));
    let si = StrIn::new(toks);
    let s: &str = &si.s;
    let p = build::<&str, RichS>(g, false);
    // raw ParseResult contract, parse and check
    let raw = quietly(|| {
        let a = result_contract(p.parse(s));
        let b = result_contract(Parser::check(&p, s));
        (a, b)
    });
    l.evals += 2;
    let (ra, rb) = match raw {
        Ok(x) => x,
        Err(_) => {
            if has_recovery {
                // "can't fail" unwraps in recovery strategies are C20's business (F8/F9)
                l.bump("panics_left_to_C20");
                return Ok(());
            }
            return fail(case, "C03/panic", "parse/check panicked".into());
        }
    };
    let (ho, ne) = match ra {
        Ok(x) => x,
        Err(m) => return fail(case, "C03/contract-parse", format!("parse(): {}", m)),
    };
    let (hoc, nec) = match rb {
        Ok(x) => x,
        Err(m) => return fail(case, "C03/contract-check", format!("check(): {}", m)),
    };
    let impl_clean = ho && ne == 0;
    let impl_clean_c = hoc && nec == 0;
    // the same implications with the zero-sized error type (separate fast paths)
    let pe = build::<&str, chumsky::error::EmptyErr>(g, false);
    let rawe = quietly(|| {
        let a = result_contract(pe.parse(s));
        let b = result_contract(Parser::check(&pe, s));
        (a, b)
    });
    l.evals += 2;
    match rawe {
        Err(_) => l.bump("emptyerr_panics_left_to_C20"),
        Ok((a, b)) => {
            for (what, r) in [("parse", a), ("check", b)] {
                match r {
                    Err(m) => return fail(case, &format!("C03/contract-{}-emptyerr", what), format!("{}() with EmptyErr: {}", what, m)),
                    Ok((ho_e, ne_e)) => {
                        if (ho_e && ne_e == 0) != impl_clean {
                            return fail(case, "C03/emptyerr-vs-rich", format!("{}() with EmptyErr clean={} but with Rich clean={}", what, ho_e && ne_e == 0, impl_clean));
                        }
                    }
                }
            }
        }
    }
    // an error-free result with output <=> the grammar matches the entire input
    let all_clean = refs.iter().all(clean);
    let any_accepted = refs.iter().any(|r| r.accepted);
    if impl_clean && !any_accepted && !has_recovery {
        return fail(
            case,
            "C03/accepted-without-full-match",
            format!("parse() returned an error-free output but the grammar does not match the entire input (reference prefix {:?})", refs[0].prefix),
        );
    }
    if impl_clean && has_recovery && !refs.iter().any(|r| r.accepted) {
        return fail(case, "C03/accepted-without-full-match", format!("error-free output although the grammar does not match the entire input (reference prefix {:?})", refs[0].prefix));
    }
    if !impl_clean && all_clean && !has_recovery {
        return fail(case, "C03/rejected-full-match", format!("parse() rejected (output {}, {} errors) an input the grammar matches entirely", ho, ne));
    }
    if impl_clean_c != impl_clean {
        return fail(case, "C03/check-vs-parse", format!("check() clean={} but parse() clean={}", impl_clean_c, impl_clean));
    }
    let r0 = &refs[0];
    let proper_prefix = r0.prefix.as_ref().map(|p| p.1 > 0 && p.1 < toks.len()).unwrap_or(false);
    let nontrivial = proper_prefix || (ho && ne > 0);
    if proper_prefix {
        l.bump("reference_matched_proper_prefix");
    }
    if ho && ne > 0 {
        l.bump("output_and_errors");
    }
    l.bump(if impl_clean { "clean_accept" } else if ho { "recovered" } else { "rejected" });
    l.note(g, toks, sub, nontrivial, || format!("has_output={} errors={} reference prefix={:?}", ho, ne, r0.prefix.as_ref().map(|p| p.1)));
    // every extension of an accepted input by one token
    if impl_clean && !has_recovery {
        let mut syms: Vec<char> = alpha.to_vec();
        syms.push(FOREIGN);
        for c in syms {
            let mut w: Vec<char> = toks.to_vec();
            w.push(c);
            let sw: String = w.iter().collect();
            let sref: &str = &sw;
            let pw = build::<&str, RichS>(g, false);
            let o = run_parse(&pw, sref);
            l.evals += 1;
            l.bump("extensions_tried");
            if is_clean_accept(&o) {
                let wrefs: Vec<RefOut> = variants(g, &w).iter().map(|op| reference::eval(g, &w, op.clone())).collect();
                if wrefs.iter().any(|r| r.stats.fuel_out) {
                    l.bump("extension_unspecified_skipped");
                    continue;
                }
                let ok = wrefs.iter().any(|r| r.accepted);
                if !ok {
                    let mut cs = case();
                    cs.input = sw.clone();
                    return Err((cs, Fail::new("C03/extension-accepted", format!("{:?} is accepted and so is its extension {:?}, which the grammar does not match entirely", si.s, sw))));
                }
                l.bump("extensions_legitimately_accepted");
            }
        }
    }
    // lazy(): the only way to accept a proper prefix
    if !has_recovery {
        let gl = G::Lazy(b(g.clone()));
        let pl = build::<&str, RichS>(&gl, false);
        let ol = run_parse(&pl, s);
        l.evals += 1;
        if ol.panic.is_some() {
            return fail(case, "C03/panic", format!("lazy parse panicked: {:?}", ol.panic));
        }
        let want_any = refs.iter().any(|r| r.prefix.is_some());
        let want_all = refs.iter().all(|r| r.prefix.is_some());
        let got = ol.has_output;
        if (got && !want_any) || (!got && want_all) {
            return fail(case, "C03/lazy", format!("g.lazy() has_output={} but the grammar {} a prefix (reference prefix {:?})", got, if want_any { "matches" } else { "does not match" }, r0.prefix));
        }
        if got {
            let ok = refs.iter().any(|r| match &r.prefix {
                Some((v, _)) => cmp_val(v, ol.out.as_ref().unwrap(), &si.sm, si.base()).is_ok(),
                None => false,
            });
            if !ok {
                return fail(case, "C03/lazy-value", format!("g.lazy() output {:?} differs from the prefix match {:?}", ol.out, r0.prefix));
            }
            if proper_prefix {
                l.bump("lazy_accepted_proper_prefix");
            }
        }
    }
    Ok(())
}

// ---- regex leaves: the contract over grammars whose tokens are consumed by regex() ----

/// chars matched by an anchored search for `re` on the suffix alone (the specification of regex(), see C14)
fn anchored(re: &regex_automata::meta::Regex, s: &str, from: usize) -> Option<usize> {
    let suffix = &s[from..];
    let inp = regex_automata::Input::new(suffix).anchored(regex_automata::Anchored::Yes);
    re.find(inp).map(|m| from + m.end())
}

/// `regex(r1).then(regex(r2))` and `regex(r1).lazy()` / `regex(r1).then(regex(r2)).lazy()`: an error-free result
/// means that the two anchored matches tile the ENTIRE input (resp. a prefix of it, for lazy)
fn regex_case(r1: &super::c14::Re, r2: &super::c14::Re, s: &str, l: &mut Local) -> Result<(), Fail> {
    use chumsky::prelude::*;
    type E<'a> = extra::Err<Rich<'a, char>>;
    let (p1, p2) = (r1.render(), r2.render());
    let (x1, x2) = (regex_automata::meta::Regex::new(&p1).expect("pattern compiles"), regex_automata::meta::Regex::new(&p2).expect("pattern compiles"));
    let seq_end = anchored(&x1, s, 0).and_then(|e| anchored(&x2, s, e));
    let whole = seq_end == Some(s.len());
    let r = quietly(|| {
        let p = chumsky::regex::regex::<&str, E>(&p1).then(chumsky::regex::regex::<&str, E>(&p2));
        let a = result_contract(p.parse(s));
        let c = result_contract(p.check(s));
        let pl = chumsky::regex::regex::<&str, E>(&p1).then(chumsky::regex::regex::<&str, E>(&p2)).lazy();
        let (lo, le) = pl.parse(s).into_output_errors();
        let lazy_out = lo.map(|(a, b2): (&str, &str)| a.len() + b2.len());
        (a, c, lazy_out, le.len())
    });
    l.evals += 3;
    let (a, c, lazy_out, lazy_errs) = match r {
        Ok(x) => x,
        Err(_) => return Err(Fail::new("C03/panic", format!("regex({:?}).then(regex({:?})) panicked on {:?}: {:?}", p1, p2, s, LAST_PANIC.with(|p| p.borrow_mut().take())))),
    };
    for (what, res) in [("parse", a), ("check", c)] {
        let (ho, ne) = res.map_err(|m| Fail::new("C03/contract", format!("{}: {}", what, m)))?;
        let clean = ho && ne == 0;
        if clean != whole {
            let sig = if clean { "C03/accepted-partial-match" } else { "C03/rejected-full-match" };
            return Err(Fail::new(sig, format!("{}() of regex({:?}).then(regex({:?})) on {:?}: error-free output = {}, but the two anchored matches {} the entire input (they end at {:?})", what, p1, p2, s, clean, if whole { "tile" } else { "do not tile" }, seq_end)));
        }
    }
    let lazy_clean = lazy_out.is_some() && lazy_errs == 0;
    if lazy_clean != seq_end.is_some() || (lazy_clean && lazy_out != seq_end) {
        return Err(Fail::new("C03/lazy", format!("regex({:?}).then(regex({:?})).lazy() on {:?}: error-free output = {} (matched {:?} bytes), the anchored matches end at {:?}", p1, p2, s, lazy_clean, lazy_out, seq_end)));
    }
    l.bump("regex_cases");
    if whole {
        l.bump("regex_clean_accept");
    }
    if seq_end.is_some() && !whole {
        l.bump("regex_matched_proper_prefix");
    }
    Ok(())
}

pub fn check_case(case: &Case, l: &mut Local) -> Result<(), Fail> {
    if case.sub == "kinds" {
        let seed = case.extra.get("gap_seed").and_then(|p| p.as_u64()).unwrap_or(1);
        return kinds_case(ID, &case.g, &case.toks(), seed, l).map_err(|(_, f)| f);
    }
    if case.sub == "long-stream" {
        let n = case.extra.get("n").and_then(|x| x.as_u64()).unwrap_or(512) as usize;
        return stream_long_case(n, l);
    }
    if case.sub == "regex" {
        let re = |k: &str| serde_json::from_value::<super::c14::Re>(case.extra.get(k).cloned().unwrap_or(serde_json::Value::Null)).map_err(|e| Fail::new("C03/replay", format!("bad pattern: {}", e)));
        return regex_case(&re("r1")?, &re("r2")?, &case.input, l);
    }
    let alpha: Vec<char> = case.extra.get("alphabet").and_then(|a| a.as_str()).unwrap_or("abc").chars().collect();
    check_inner(&case.sub, &case.g, &case.toks(), &alpha, l).map_err(|(_, f)| f)
}

pub fn cfg() -> GenCfg {
    let mut c = GenCfg::c02();
    c.validate = true;
    c.recover = true;
    c.nested_delims = false;
    c.memo = true;
    c.label = true;
    c
}

pub fn decode(tape: &[u32]) -> (G, Vec<char>, Vec<char>) {
    let mut t = Tape::new(tape);
    let (g, alpha) = {
        let mut c = cfg();
        if t.chance(1, 2) {
            c.recover = false;
        }
        let mut gg = GGen::new(&mut t, c);
        let d = 1 + gg.t.pick(4) as u32;
        let g = gg.gen(d, false);
        (g, gg.alpha.clone())
    };
    let input = gen_input(&g, &mut t, &alpha, 12);
    (g, input, alpha)
}


// ---------------------------------------------------------------------------------------------
// "every token was consumed" on a LONG Stream input: 512-token batches, iterators that (like a lexer) cannot say how many
// items are left (size_hint lower bound 0), plain / boxed streams. a^n is accepted by just('a').repeated(), a^n b is not.

fn stream_long_case(n: usize, l: &mut Local) -> Result<(), Fail> {
    use chumsky::input::Stream;
    use chumsky::prelude::*;
    type E<'a> = extra::Err<Rich<'a, char>>;
    let mk = |extra: bool| -> Vec<char> {
        let mut v = vec!['a'; n];
        if extra {
            v.push('b');
        }
        v
    };
    for extra in [false, true] {
        let toks = mk(extra);
        let want_clean = !extra;
        macro_rules! run {
            ($name:expr, $mkinput:expr) => {{
                let p = just::<_, _, E>('a').repeated().collect::<Vec<char>>();
                let mkf = || $mkinput;
                let r = crate::run::quietly(|| {
                    let a = p.parse(mkf());
                    let clean_a = a.has_output() && !a.has_errors();
                    let len = a.output().map(|o| o.len());
                    let c = p.check(mkf());
                    (clean_a, len, c.has_output() && !c.has_errors())
                });
                l.evals += 2;
                match r {
                    Ok((ca, len, cc)) if ca == want_clean && cc == want_clean && (!want_clean || len == Some(n)) => l.bump("long_stream_runs"),
                    other => {
                        return Err(Fail::new("C03/long-stream", format!("just('a').repeated().collect() over {} with {} 'a's{}: (parse error-free, items, check error-free) = {:?}, but the grammar {} the entire input", $name, n, if extra { " followed by 'b'" } else { "" }, other.ok(), if want_clean { "matches" } else { "does not match" })));
                    }
                }
            }};
        }
        run!("Stream::from_iter(Vec::into_iter())", Stream::from_iter(toks.clone().into_iter()));
        run!("Stream::from_iter(iter.filter(..)) [size_hint lower bound 0]", Stream::from_iter(toks.clone().into_iter().filter(|_| true)));
        run!("Stream::from_iter(from_fn(..)) [size_hint (0, None)]", {
            let mut it = toks.clone().into_iter();
            Stream::from_iter(std::iter::from_fn(move || it.next()))
        });
        run!("Stream::from_iter(iter.filter(..)).boxed()", Stream::from_iter(toks.clone().into_iter().filter(|_| true)).boxed());
    }
    Ok(())
}

pub fn run(tier: Tier, seed: u64) -> i32 {
    let ctx = Ctx::new(ID, tier, seed);
    ctx.replay_corpus(&check_case);
    let mut gs = small_grammars(true);
    {
        // fixed-size collections whose item source ENDS SHORT without any parser having failed (a cap below N, a spent
        // or_not, an into_iter() over too few items): "a result without output always carries at least one error"
        let j = |s: &str| G::Just(s.into());
        let rep = |item: G, lo: u8, hi: Option<u8>, sink: Sink| G::Rep(Rep { item: b(item), sep: None, leading: false, trailing: false, lo, hi, sink, cfg: false, ctxb: 0 });
        for n in 1..=3u8 {
            for k in 0..n {
                gs.push(rep(j("a"), 0, Some(k), Sink::Exactly(n)));
                gs.push(G::Then(b(rep(j("a"), k, Some(k), Sink::Exactly(n))), b(G::OrNot(b(j("b"))))));
                gs.push(G::Rep(Rep { item: b(j("a")), sep: Some(b(j("b"))), leading: false, trailing: false, lo: 0, hi: Some(k), sink: Sink::Exactly(n), cfg: false, ctxb: 0 }));
            }
            gs.push(G::IntoIter(b(rep(G::Any, 0, None, Sink::Vec)), 2 + n));
            gs.push(G::IntoIter(b(G::OrNot(b(j("a")))), 2 + n.min(2)));
        }
        gs.retain(wf);
    }
    let strings = all_strings(&['a', 'b', 'c'], ctx.pick(4, 5));
    ctx.with_local(|l| {
        l.add("exhaustive_grammars", gs.len() as u64);
        l.add("exhaustive_strings_per_grammar", strings.len() as u64);
    });
    let abc = ['a', 'b', 'c'];
    ctx.par_jobs(&gs, |g, l| {
        for s in &strings {
            check_inner("exh", g, s, &abc, l)?;
        }
        Ok(())
    });
    // long Stream inputs around the 512-token batch boundaries
    {
        let ns: Vec<usize> = vec![0, 1, 2, 510, 511, 512, 513, 514, 1023, 1024, 1025, 1536, 2049];
        ctx.par_jobs(&ns, |n, l| {
            stream_long_case(*n, l).map_err(|f| {
                let mut c = Case::new(ID, "long-stream", &G::Empty, &[]);
                c.extra = serde_json::json!({ "n": n });
                (c, f)
            })
        });
    }
    // regex leaves (feature regex): every pair of pattern templates x every short string
    {
        let res = super::c14::regex_templates();
        let pairs: Vec<(super::c14::Re, super::c14::Re)> = res.iter().flat_map(|a| res.iter().map(move |c| (a.clone(), c.clone()))).collect();
        let rstrings = all_strings(&['a', 'b', '0', 'e', 'é'], ctx.pick(4, 5));
        ctx.par_jobs(&pairs, |(r1, r2), l| {
            for cs in &rstrings {
                let s: String = cs.iter().collect();
                regex_case(r1, r2, &s, l).map_err(|f| {
                    let mut c = Case::new(ID, "regex", &G::Empty, cs);
                    c.extra = serde_json::json!({ "r1": r1, "r2": r2 });
                    (c, f)
                })?;
            }
            Ok(())
        });
    }
    let n = ctx.pick(1_000_000, 6_000_000);
    ctx.par_random(n, 180, 3, |tape, l| {
        let (g, input, alpha) = decode(tape);
        debug_assert!(wf(&g), "ill-formed: {}", render(&g));
        check_inner("rand", &g, &input, &alpha, l)?;
        // one case in sixteen (grammars without memoized / labelled / map_err nodes): every other input representation
        // too (C10's comparison against the slice baseline) -- "every token was consumed" on Streams, IoInput, mapped inputs
        if tape.first().copied().unwrap_or(0) % 16 == 0 && !g.any_node(&|n| matches!(n, G::Memo(_) | G::Labelled(..) | G::MapErr(..) | G::Lazy(_))) {
            kinds_case(ID, &g, &input, 1 + (tape.len() as u64 % 5), l)?;
        }
        Ok(())
    });
    ctx.finish(&check_case, RULE, ASSUMPTIONS, &|l| {
        for k in ["reference_matched_proper_prefix", "clean_accept", "extensions_tried", "lazy_accepted_proper_prefix", "regex_clean_accept", "regex_matched_proper_prefix"] {
            if l.counters.get(k).copied().unwrap_or(0) == 0 {
                return Err(format!("class '{}' is empty", k));
            }
        }
        Ok(())
    })
}

/// one generated case from a raw choice tape (the coverage-guided tier feeds tapes decoded from bytes)
pub fn fuzz_one(tape: &[u32], l: &mut Local) -> CaseRes {
    let (g, input, alpha) = decode(tape);
    if !wf(&g) {
        return Ok(());
    }
    check_inner("rand", &g, &input, &alpha, l)
}
