//! C15 -- context-sensitive parsing delivers the nearest context and honours configuration.
use super::common::*;
use crate::build::*;
use crate::compare::*;
use crate::driver::*;
use crate::gen::*;
use crate::grammar::*;
use crate::reference::{self, RefOut};
use crate::run::*;
use crate::val::Val;

pub const ID: &str = "C15";

pub const RULE: &str = "cases = (grammar, input). Families with generated parameters: length-prefixed (digit.ignore_with_ctx / then_with_ctx(item.repeated().configure(|c, n| c.exactly(n)).collect()), nested two levels, also at_most(n) and try_configure(Err on odd n)), delimiter-echo (open.then_with_ctx(body.then(just(..).configure(|c, ctx| c.seq(ctx)))), raw-string-like), indentation-like (with_ctx inside repeated inside with_ctx, map_ctx in between), each on every string over a 4-symbol alphabet up to length L; plus random C01/C02-class grammars with providers (with_ctx(v), ignore_with_ctx, then_with_ctx, map_ctx(f)) and consumers (map_with(ctx), just.configure(seq = ctx), repeated().configure(exactly / at_most from ctx), try_configure(Err on odd)) inserted at random nodes (providers nested up to 3 deep, inside repetitions, choices, lookahead, recursion). Oracles: (1) the reference threads an explicit context value: a consumer sees the value of the nearest enclosing provider on the current path for this very attempt; configured parsers behave as the statically configured parser with the same settings; a try_configure error is a failure of that parser at its position; compared on acceptance, output (which embeds every observed context) and the final error position; (2) metamorphic, reference-free: wherever the nearest provider of a consumer is a with_ctx(constant) (through map_ctx), replacing the consumer by its static equivalent (just(v), repeated().exactly(n) / at_most(n)) must not change acceptance or output. A statically typed family compares run-time configuration with the statically configured parser for every (at_least, at_most) pair in 0..3 (also at_least > at_most), both setter orders, configure / try_configure, zero-sized and data-carrying contexts, collected and used directly, and configuration through a reference, on every string over {a b} up to length 6 / 8. just(placeholder).configure(seq) with empty, shorter, equal and longer sequences against the static just(seq). NON-TRIVIAL = two DIFFERENT context values reached the same consumer node within one parse (the only situation in which a stale context is observable), or a try_configure error occurred; distinct = distinct (sub-check, grammar, input).";

pub const ASSUMPTIONS: &[&str] = &[
    "reference semantics: context = value of the nearest enclosing provider on the current path; a repetition configured from context uses the context visible where the repetition starts",
    "ctx_num(ctx) = first token of the context value if it is an ASCII digit, else its token count mod 5 (shared by builder and reference; it is test scaffolding, not library behaviour)",
];

/// Replace consumers whose nearest provider is a constant by their static equivalents.
fn staticize(g: &G, ctx: Option<Val>, changed: &mut u32) -> G {
    use G::*;
    let rec = |x: &G, c: Option<Val>, ch: &mut u32| b(staticize(x, c, ch));
    match g {
        WithCtx(a, s) => WithCtx(rec(a, Some(Val::Str(s.clone())), changed), s.clone()),
        ThenWithCtx(a, c) => ThenWithCtx(rec(a, ctx.clone(), changed), rec(c, None, changed)),
        IgnoreWithCtx(a, c) => IgnoreWithCtx(rec(a, ctx.clone(), changed), rec(c, None, changed)),
        MapCtx(a, k) => MapCtx(rec(a, ctx.as_ref().map(|c| ctx_op(*k, c)), changed), *k),
        // recursion: the context at a reference may differ from the one at the definition
        Rec(..) | RecRef(_) => g.clone(),
        JustCfg(s) => match &ctx {
            Some(c) => {
                let mut t = Vec::new();
                c.tokens(&mut t);
                *changed += 1;
                Just(if t.is_empty() { s.clone() } else { t.into_iter().collect() })
            }
            None => g.clone(),
        },
        G::Rep(r) => {
            let mut r2 = r.clone();
            r2.item = rec(&r.item, ctx.clone(), changed);
            r2.sep = r.sep.as_ref().map(|s| rec(s, ctx.clone(), changed));
            r2.sink = match &r.sink {
                Sink::Foldl(x) => Sink::Foldl(rec(x, ctx.clone(), changed)),
                Sink::Foldr(x) => Sink::Foldr(rec(x, ctx.clone(), changed)),
                Sink::FoldlWith(x) => Sink::FoldlWith(rec(x, ctx.clone(), changed)),
                Sink::FoldrWith(x) => Sink::FoldrWith(rec(x, ctx.clone(), changed)),
                o => o.clone(),
            };
            if let (Some(c), true) = (&ctx, r.ctxb == 1 || r.ctxb == 2) {
                let n = ctx_num(c) as u8;
                if r.ctxb == 1 {
                    r2.lo = n;
                }
                r2.hi = Some(n);
                r2.ctxb = 0;
                *changed += 1;
            }
            G::Rep(r2)
        }
        _ => {
            let mut out = g.clone();
            let kids: Vec<G> = g.children().iter().map(|c| staticize(c, ctx.clone(), changed)).collect();
            for (slot, k) in out.children_mut().into_iter().zip(kids) {
                *slot = k;
            }
            out
        }
    }
}

fn check_inner(sub: &str, g: &G, toks: &[char], l: &mut Local) -> CaseRes {
    let case = || Case::new(ID, sub, g, toks);
    if too_expensive(g, toks, 8_000, l) {
        return Ok(());
    }
    let vs = variants(g, toks);
    let refs: Vec<RefOut> = vs.iter().map(|o| reference::eval(g, toks, o.clone())).collect();
    if refs.iter().any(|r| r.stats.fuel_out) {
        l.bump("skipped_fuel");
        return Ok(());
    }
    if refs.iter().any(|r| r.stats.lo_gt_hi) {
        // a context value made [at_least, at_most] empty: C02's known finding KF-b, not this property
        l.steered += 1;
        return Ok(());
    }
    let si = StrIn::new(toks);
    let s: &str = &si.s;
    let p = build::<&str, RichS>(g, false);
    let o = run_parse(&p, s);
    let c = run_check(&p, s);
    l.evals += 2;
    if o.panic.is_some() || c.panic.is_some() {
        return fail(case, "C15/panic", format!("panicked: {:?} {:?}", o.panic, c.panic));
    }
    let mut first = None;
    let mut matched = None;
    for (i, r) in refs.iter().enumerate() {
        let res: Result<(), (String, String)> = (|| {
            if o.has_output != r.accepted {
                return Err(("C15/accept".to_string(), format!("parse has_output={} but the reference accepts={} (errors {:?}; reference prefix {:?})", o.has_output, r.accepted, o.errs, r.prefix)));
            }
            if r.accepted && o.errs.len() != r.emitted.len() {
                // validate emitters inside configured parsers: only the surviving path's emissions are reported
                return Err(("C15/emitted".to_string(), format!("{} error(s) reported {:?} but the surviving path emits {}", o.errs.len(), o.errs, r.emitted.len())));
            }
            if r.accepted {
                let rv = &r.prefix.as_ref().unwrap().0;
                if let Err(m) = cmp_val(rv, o.out.as_ref().unwrap(), &si.sm, si.base()) {
                    let sig = if m.starts_with("context") { "C15/context-value" } else { "C15/output" };
                    return Err((sig.to_string(), format!("{} (impl {:?}; reference {:?})", m, o.out, rv)));
                }
            } else if let (Some(a), Some(d)) = (&r.alt, o.errs.last()) {
                if !a.fuzzy && !r.stats.trymap_inner_events {
                    if let Err(m) = cmp_err(a, d, &si.sm, true) {
                        return Err(("C15/error".to_string(), format!("{} (reported {:?}; reference {:?})", m, d, a)));
                    }
                }
            }
            Ok(())
        })();
        match res {
            Ok(()) => {
                matched = Some(i);
                break;
            }
            Err(e) => {
                first.get_or_insert(e);
            }
        }
    }
    let Some(mi) = matched else {
        let (sig, msg) = first.unwrap();
        return fail(case, &sig, msg);
    };
    if c.has_output != o.has_output || c.errs != o.errs {
        return fail(case, "C15/check", format!("check: has_output={} errors {:?}; parse: has_output={} errors {:?}", c.has_output, c.errs, o.has_output, o.errs));
    }
    // metamorphic: static equivalents under constant providers
    let mut changed = 0;
    let gs = staticize(g, None, &mut changed);
    if changed > 0 && wf(&gs) {
        let ps = build::<&str, RichS>(&gs, false);
        let os = run_parse(&ps, s);
        l.evals += 1;
        l.bump("static_equivalent_pairs");
        if os.panic.is_some() {
            return fail(case, "C15/panic", format!("the statically configured equivalent panicked: {:?}", os.panic));
        }
        if os.has_output != o.has_output || (o.has_output && (os.out != o.out || os.errs != o.errs)) {
            return fail(
                case,
                "C15/static-equivalent",
                format!("configured from context: has_output={} output {:?} errors {:?}; statically configured equivalent {}: has_output={} output {:?} errors {:?}", o.has_output, o.out, o.errs, render(&gs), os.has_output, os.out, os.errs),
            );
        }
    }
    let st = &refs[mi].stats;
    let nontrivial = st.ctx_multi > 0 || st.try_cfg_errs > 0;
    l.bump(if refs[mi].accepted { "accepted" } else { "rejected" });
    if st.ctx_multi > 0 {
        l.bump("two_different_contexts_reached_one_consumer");
        if refs[mi].accepted {
            l.bump("two_different_contexts_reached_one_consumer_and_accepted");
        }
    }
    if st.try_cfg_errs > 0 {
        l.bump("try_configure_error");
    }
    if st.ctx_values_seen > 0 {
        l.bump("consumer_reached");
    }
    l.note(g, toks, sub, nontrivial, || format!("accepted={} output={:?}", refs[mi].accepted, o.out));
    Ok(())
}

pub fn check_case(case: &Case, l: &mut Local) -> Result<(), Fail> {
    if case.sub == "static-iter" {
        let want = case.extra.get("template").and_then(|x| x.as_str()).unwrap_or("");
        for (name, outside, inside) in iter_provider_family(&case.input) {
            l.evals += 4;
            if name == want && outside != inside {
                return Err(Fail::new("C15/provider-as-item-source", format!("{}: collected outside the provider: {} -- collected inside: {}", name, outside, inside)));
            }
        }
        return Ok(());
    }
    if case.sub == "static-cfg" {
        let want = case.extra.get("template").and_then(|x| x.as_str()).unwrap_or("");
        for (name, configured, stat) in cfg_static_family(&case.input) {
            l.evals += 4;
            if name == want && configured != stat {
                return Err(Fail::new("C15/configured-vs-static", format!("{}: configured: {} -- statically configured: {}", name, configured, stat)));
            }
        }
        return Ok(());
    }
    check_inner(&case.sub, &case.g, &case.toks(), l).map_err(|(_, f)| f)
}

fn rep(item: G, lo: u8, hi: Option<u8>, sink: Sink, ctxb: u8) -> G {
    G::Rep(Rep { item: b(item), sep: None, leading: false, trailing: false, lo, hi, sink, cfg: false, ctxb })
}

pub fn families() -> Vec<G> {
    let j = |s: &str| G::Just(s.into());
    let digit = || G::OneOf("012".into());
    let mut out = vec![];
    for mode in [1u8, 2, 3] {
        for (si, sink) in [Sink::Vec, Sink::Count, Sink::Bare, Sink::Foldl(b(G::Empty))].into_iter().enumerate() {
            // length-prefixed (with a static lower bound next to the configured upper bound for mode 2)
            let body = rep(j("a"), if mode == 2 { (si % 3) as u8 } else { 0 }, None, sink.clone(), mode);
            out.push(G::IgnoreWithCtx(b(digit()), b(body.clone())));
            out.push(G::ThenWithCtx(b(digit()), b(G::Then(b(body.clone()), b(any_rest())))));
            // a list of length-prefixed lists: the consumer sees a different context per item
            out.push(rep(G::IgnoreWithCtx(b(digit()), b(body.clone())), 0, None, Sink::Vec, 0));
            // nested two levels: outer count of inner length-prefixed lists
            out.push(G::IgnoreWithCtx(b(digit()), b(rep(G::IgnoreWithCtx(b(digit()), b(rep(j("a"), 0, None, Sink::Vec, mode))), 0, None, Sink::Vec, mode))));
            // a provider in a first alternative that is abandoned, another one in the second
            let first = G::Then(b(G::IgnoreWithCtx(b(digit()), b(body.clone()))), b(j("a0")));
            let second_inner = G::IgnoreWithCtx(b(digit()), b(G::Then(b(body.clone()), b(any_rest()))));
            out.push(G::Or(b(first), b(G::Then(b(G::Any), b(second_inner)))));
        }
    }
    // delimiter echo: the closing delimiter is whatever the opening one was
    let body = || rep(G::NoneOf("12".into()), 0, None, Sink::Vec, 0);
    let close = || G::CxObs(b(G::JustCfg("x".into())));
    let echo = || G::ThenWithCtx(b(G::OneOf("12".into())), b(G::Then(b(body()), b(G::JustCfg("x".into())))));
    out.push(echo());
    out.push(rep(echo(), 0, None, Sink::Vec, 0));
    out.push(G::ThenWithCtx(b(rep(G::OneOf("12".into()), 1, Some(2), Sink::Vec, 0)), b(G::Then(b(rep(j("a"), 0, None, Sink::Vec, 0)), b(close())))));
    let inner_opt = G::OrNot(b(G::ThenWithCtx(b(j("a")), b(close()))));
    out.push(G::ThenWithCtx(b(G::OneOf("12".into())), b(G::Then(b(inner_opt), b(close())))));
    // indentation-like: with_ctx inside repeated inside with_ctx, map_ctx in between
    let inner_ctx = G::WithCtx(b(G::CxObs(b(G::JustCfg("y".into())))), "2".into());
    out.push(G::WithCtx(b(rep(G::Then(b(close()), b(inner_ctx)), 0, None, Sink::Vec, 0)), "1".into()));
    out.push(G::WithCtx(b(G::MapCtx(b(rep(close(), 0, None, Sink::Vec, 0)), 1)), "1a".into()));
    let mapped = G::MapCtx(b(G::Then(b(close()), b(any_rest()))), 0);
    out.push(G::WithCtx(b(G::Then(b(rep(j("a"), 0, None, Sink::Vec, 1)), b(mapped))), "2a".into()));
    // context and lookahead / recursion
    let la = G::AndIs(b(rep(j("a"), 0, None, Sink::Vec, 2)), b(G::CxObs(b(G::Any))));
    out.push(G::IgnoreWithCtx(b(digit()), b(G::Then(b(la), b(any_rest())))));
    let rec_body = G::Or(b(G::IgnoreWithCtx(b(digit()), b(G::Then(b(G::CxObs(b(G::JustCfg("a".into())))), b(G::RecRef(0)))))), b(G::CxObs(b(j("a")))));
    out.push(G::Rec(0, b(rec_body)));
    out.retain(wf);
    out
}

// ---- context providers used as ITEM SOURCES (statically typed; the grammar AST has no such node) ----
//
// `hdr.ignore_with_ctx(items)` / `hdr.then_with_ctx(items)` are IterParsers when `items` is one: the items are then
// collected OUTSIDE the provider. Metamorphic oracle: collecting outside must equal collecting inside
// (`hdr.ignore_with_ctx(items.collect())`), where the consumer sees the provider's output for this very attempt.
// Shapes whose inner item source consumes input while it is set up (a nested provider, `into_iter()`) are included.

/// (name, outside formulation, inside formulation) rendered results for parse and check
pub fn iter_provider_family(s: &str) -> Vec<(&'static str, String, String)> {
    use chumsky::prelude::*;
    use chumsky::IterParser;
    type E0<'a> = extra::Err<Rich<'a, char>>;
    type E1<'a> = extra::Full<Rich<'a, char>, (), usize>;
    fn show<T: std::fmt::Debug>(r: ParseResult<T, Rich<'_, char>>) -> String {
        let (o, e) = r.into_output_errors();
        format!("{:?} / {:?}", o, e.iter().map(|e| format!("{:?}@{:?}", e.reason(), e.span())).collect::<Vec<_>>())
    }
    macro_rules! both {
        ($name:expr, $out:expr, $ins:expr, $acc:ident) => {{
            let (po, pi) = ($out, $ins);
            let a = format!("parse: {} | check: {:?}", show(po.parse(s)), { let r = po.check(s); let n = r.errors().len(); (r.has_output(), n) });
            let b = format!("parse: {} | check: {:?}", show(pi.parse(s)), { let r = pi.check(s); let n = r.errors().len(); (r.has_output(), n) });
            $acc.push(($name, a, b));
        }};
    }
    let digit = || one_of::<_, &str, E0>("012").map(|c: char| c as usize - '0' as usize);
    let digit1 = || one_of::<_, &str, E1>("012").map(|c: char| c as usize - '0' as usize);
    let items = || just::<_, &str, E1>('a').repeated().configure(|c, n: &usize| c.exactly(*n));
    let rest0 = || any::<&str, E0>().repeated().collect::<String>();
    let mut acc = vec![];
    // the plain provider: nothing is consumed while the inner item source is set up
    both!(
        "ignore_with_ctx(configured repeated)",
        digit().ignore_with_ctx(items()).collect::<Vec<char>>().then(rest0()),
        digit().ignore_with_ctx(items().collect::<Vec<char>>()).then(rest0()),
        acc
    );
    both!(
        "then_with_ctx(configured repeated)",
        digit().then_with_ctx(items()).collect::<Vec<char>>().then(rest0()),
        digit().ignore_with_ctx(items().collect::<Vec<char>>()).then(rest0()),
        acc
    );
    // a nested provider: setting up the inner item source runs the inner header (consumes a token)
    both!(
        "ignore_with_ctx(ignore_with_ctx(configured repeated))",
        digit().ignore_with_ctx(digit1().ignore_with_ctx(items())).collect::<Vec<char>>().then(rest0()),
        digit().ignore_with_ctx(digit1().ignore_with_ctx(items().collect::<Vec<char>>())).then(rest0()),
        acc
    );
    both!(
        "then_with_ctx(then_with_ctx(configured repeated))",
        digit().then_with_ctx(digit1().then_with_ctx(items())).collect::<Vec<char>>().then(rest0()),
        digit().ignore_with_ctx(digit1().ignore_with_ctx(items().collect::<Vec<char>>())).then(rest0()),
        acc
    );
    // into_iter(): the word is parsed while the item source is set up
    let word = || just::<_, &str, E1>('a').repeated().configure(|c, n: &usize| c.at_most(*n)).collect::<Vec<char>>();
    both!(
        "ignore_with_ctx(word.into_iter())",
        digit().ignore_with_ctx(word().into_iter()).collect::<Vec<char>>().then(rest0()),
        digit().ignore_with_ctx(word()).then(rest0()),
        acc
    );
    // inside a repetition: a different context per outer item
    both!(
        "repeated(ignore_with_ctx(..).count())",
        digit().ignore_with_ctx(digit1().ignore_with_ctx(items())).count().repeated().collect::<Vec<usize>>().then(rest0()),
        digit().ignore_with_ctx(digit1().ignore_with_ctx(items().count())).repeated().collect::<Vec<usize>>().then(rest0()),
        acc
    );
    acc
}


// ---- run-time configuration vs the statically configured parser (statically typed) ----
//
// "A parser configured from context matches exactly as the statically configured parser with those settings would":
// every (at_least, at_most) pair -- also at_least > at_most, where the two must still agree with EACH OTHER -- set
// through configure / try_configure in both setter orders, under a zero-sized context (the top-level `()`, with_ctx(()),
// a unit header), under a data-carrying context, collected and used directly as a parser; and configurable parsers
// that are configured THROUGH A REFERENCE (`(&p).configure(..)`).

/// (name, configured result, static result) rendered for parse and check
pub fn cfg_static_family(s: &str) -> Vec<(String, String, String)> {
    use chumsky::prelude::*;
    use chumsky::{ConfigIterParser, ConfigParser};
    type E0<'a> = extra::Err<Rich<'a, char>>;
    type EP<'a> = extra::Full<Rich<'a, char>, (), (usize, usize)>;
    type EC<'a> = extra::Full<Rich<'a, char>, (), char>;
    fn show<T: std::fmt::Debug>(r: ParseResult<T, Rich<'_, char>>) -> String {
        let (o, e) = r.into_output_errors();
        format!("{:?} / {:?}", o, e.iter().map(|e| format!("{:?}@{:?}", e.reason(), e.span())).collect::<Vec<_>>())
    }
    macro_rules! both {
        ($name:expr, $cfg:expr, $stat:expr, $acc:ident) => {{
            let (pc, ps) = ($cfg, $stat);
            let a = format!("parse: {} | check: {:?}", show(pc.parse(s)), { let r = pc.check(s); let n = r.errors().len(); (r.has_output(), n) });
            let b = format!("parse: {} | check: {:?}", show(ps.parse(s)), { let r = ps.check(s); let n = r.errors().len(); (r.has_output(), n) });
            $acc.push(($name, a, b));
        }};
    }
    let rest = || any::<&str, E0>().repeated().collect::<String>();
    let mut acc: Vec<(String, String, String)> = vec![];
    for lo in 0..=3usize {
        for hi in [None, Some(0usize), Some(1), Some(2), Some(3)] {
            let stat = || {
                let r = just::<_, &str, E0>('a').repeated().at_least(lo);
                match hi {
                    Some(h) => r.at_most(h),
                    None => r,
                }
            };
            let tag = format!("at_least({}) at_most({:?})", lo, hi);
            // zero-sized context, lower bound first / upper bound first
            let c1 = || {
                just::<_, &str, E0>('a').repeated().configure(move |c, _: &()| {
                    let c = c.at_least(lo);
                    match hi {
                        Some(h) => c.at_most(h),
                        None => c,
                    }
                })
            };
            let c2 = || {
                just::<_, &str, E0>('a').repeated().configure(move |c, _: &()| {
                    let c = match hi {
                        Some(h) => c.at_most(h),
                        None => c,
                    };
                    c.at_least(lo)
                })
            };
            both!(format!("() context, configure {} collected", tag), c1().collect::<Vec<char>>().then(rest()), stat().collect::<Vec<char>>().then(rest()), acc);
            both!(format!("() context, configure {} (upper bound set first) collected", tag), c2().collect::<Vec<char>>().then(rest()), stat().collect::<Vec<char>>().then(rest()), acc);
            both!(format!("() context, configure {} used directly", tag), c1().to_slice().then(rest()), stat().to_slice().then(rest()), acc);
            both!(format!("with_ctx(()) configure {} count", tag), c2().count().with_ctx(()).then(rest()), stat().count().then(rest()), acc);
            both!(
                format!("unit header .ignore_with_ctx(configure {})", tag),
                just::<_, &str, E0>('a').rewind().or_not().ignored().ignore_with_ctx(c1().collect::<Vec<char>>()).then(rest()),
                stat().collect::<Vec<char>>().then(rest()),
                acc
            );
            let c3 = || {
                just::<_, &str, E0>('a').repeated().try_configure(move |c, _: &(), _span| {
                    let c = c.at_least(lo);
                    Ok(match hi {
                        Some(h) => c.at_most(h),
                        None => c,
                    })
                })
            };
            both!(format!("() context, try_configure {} collected", tag), c3().collect::<Vec<char>>().then(rest()), stat().collect::<Vec<char>>().then(rest()), acc);
            if let Some(h) = hi {
                // data-carrying context
                let c4 = || just::<_, &str, EP>('a').repeated().configure(|c, b: &(usize, usize)| c.at_most(b.1).at_least(b.0));
                both!(format!("with_ctx(({}, {})) configure both bounds collected", lo, h), c4().collect::<Vec<char>>().with_ctx((lo, h)).then(rest()), stat().collect::<Vec<char>>().then(rest()), acc);
                both!(format!("with_ctx(({}, {})) configure both bounds used directly", lo, h), c4().to_slice().with_ctx((lo, h)).then(rest()), stat().to_slice().then(rest()), acc);
            }
        }
        // exactly(n) under the zero-sized context
        let ce = || just::<_, &str, E0>('a').repeated().configure(move |c, _: &()| c.exactly(lo));
        both!(format!("() context, configure exactly({}) collected", lo), ce().collect::<Vec<char>>().then(rest()), just::<_, &str, E0>('a').repeated().exactly(lo).collect::<Vec<char>>().then(rest()), acc);
    }
    acc.extend(byref_cfg_family(s));
    acc
}


/// a configurable parser configured THROUGH A REFERENCE: `(&p).configure(..)` must behave as `p.configure(..)`
/// (name, by-reference result, by-value result), parse and check, collected and in value-free positions
pub fn byref_cfg_family(s: &str) -> Vec<(String, String, String)> {
    use chumsky::prelude::*;
    use chumsky::{ConfigIterParser, ConfigParser};
    type E0<'a> = extra::Err<Rich<'a, char>>;
    type EP<'a> = extra::Full<Rich<'a, char>, (), (usize, usize)>;
    type EC<'a> = extra::Full<Rich<'a, char>, (), char>;
    fn show<T: std::fmt::Debug>(r: ParseResult<T, Rich<'_, char>>) -> String {
        let (o, e) = r.into_output_errors();
        format!("{:?} / {:?}", o, e.iter().map(|e| format!("{:?}@{:?}", e.reason(), e.span())).collect::<Vec<_>>())
    }
    macro_rules! both {
        ($name:expr, $cfg:expr, $stat:expr, $acc:ident) => {{
            let (pc, ps) = ($cfg, $stat);
            let a = format!("parse: {} | check: {:?}", show(pc.parse(s)), { let r = pc.check(s); let n = r.errors().len(); (r.has_output(), n) });
            let b = format!("parse: {} | check: {:?}", show(ps.parse(s)), { let r = ps.check(s); let n = r.errors().len(); (r.has_output(), n) });
            $acc.push(($name, a, b));
        }};
    }
    let rest = || any::<&str, E0>().repeated().collect::<String>();
    let mut acc: Vec<(String, String, String)> = vec![];
    let ja = just::<_, &str, EC>('a');
    let hdr = || any::<&str, E0>().rewind();
    both!(
        "(&just).configure(seq from ctx) vs just.configure".to_string(),
        hdr().ignore_with_ctx((&ja).configure(|c, ctx: &char| c.seq(*ctx)).then(any().repeated().collect::<String>())),
        hdr().ignore_with_ctx(ja.clone().configure(|c, ctx: &char| c.seq(*ctx)).then(any().repeated().collect::<String>())),
        acc
    );
    both!(
        "(&just).configure(seq from ctx).to_slice() vs just.configure".to_string(),
        hdr().ignore_with_ctx((&ja).configure(|c, ctx: &char| c.seq(*ctx)).repeated().to_slice().then(any().repeated().collect::<String>())),
        hdr().ignore_with_ctx(ja.clone().configure(|c, ctx: &char| c.seq(*ctx)).repeated().to_slice().then(any().repeated().collect::<String>())),
        acc
    );
    // just(placeholder).configure(seq): the configured sequence replaces the placeholder, also when it is EMPTY or longer
    {
        type ES<'a> = extra::Full<Rich<'a, char>, (), String>;
        for seq in ["", "a", "ab", "ba"] {
            let cfgd = just::<_, &str, ES>(String::from("b")).configure(|c, ctx: &String| c.seq(ctx.clone())).to_slice().with_ctx(seq.to_string()).then(rest());
            let stat = just::<_, &str, E0>(seq.to_string()).to_slice().then(rest());
            both!(format!("just(\"b\").configure(seq = {:?}) vs just({:?})", seq, seq), cfgd, stat, acc);
        }
    }
    let ra = just::<_, &str, EP>('a').repeated();
    both!(
        "(&repeated).configure(bounds from ctx) vs repeated.configure".to_string(),
        (&ra).configure(|c, b: &(usize, usize)| c.at_least(b.0).at_most(b.1)).to_slice().with_ctx((1, 2)).then(rest()),
        ra.clone().configure(|c, b: &(usize, usize)| c.at_least(b.0).at_most(b.1)).to_slice().with_ctx((1, 2)).then(rest()),
        acc
    );
    acc
}

pub fn decode(tape: &[u32]) -> (G, Vec<char>) {
    let mut t = Tape::new(tape);
    let (g, alpha) = {
        let mut c = GenCfg::c02();
        c.ctx = true;
        c.rec = true;
        // validate emitters in a third of the cases (configured parsers backtrack like their static equivalents)
        c.validate = t.chance(1, 3);
        let mut gg = GGen::new(&mut t, c);
        gg.alpha = match gg.t.pick(3) {
            0 => vec!['1', '2', 'a'],
            1 => vec!['0', '3', 'a', 'b'],
            _ => vec!['2', 'a', 'é', '1'],
        };
        let d = 2 + gg.t.pick(4) as u32;
        let g = gg.gen(d, false);
        (g, gg.alpha.clone())
    };
    let input = gen_input(&g, &mut t, &alpha, 12);
    (g, input)
}

pub fn run(tier: Tier, seed: u64) -> i32 {
    let ctx = Ctx::new(ID, tier, seed);
    ctx.replay_corpus(&check_case);
    let fs = families();
    let strings = all_strings(&['0', '1', '2', 'a'], ctx.pick(6, 8));
    ctx.with_local(|l| {
        l.add("family_members", fs.len() as u64);
        l.add("strings_per_family_member", strings.len() as u64);
    });
    ctx.par_jobs(&fs, |g, l| {
        for s in &strings {
            check_inner("family", g, s, l)?;
        }
        Ok(())
    });
    // context providers used as item sources: collecting outside == collecting inside, on every short string
    {
        let chunks: Vec<&[Vec<char>]> = strings.chunks(512).collect();
        ctx.par_jobs(&chunks, |chunk, l| {
            for cs in chunk.iter() {
                let s: String = cs.iter().collect();
                for (name, outside, inside) in iter_provider_family(&s) {
                    l.evals += 4;
                    l.bump("provider_as_item_source_comparisons");
                    if outside != inside {
                        let mut c = Case::new(ID, "static-iter", &G::Empty, cs);
                        c.extra = serde_json::json!({ "template": name });
                        return Err((c, Fail::new("C15/provider-as-item-source", format!("{}: collected outside the provider: {} -- collected inside: {}", name, outside, inside))));
                    }
                }
            }
            Ok(())
        });
    }
    // run-time configuration (zero-sized and data-carrying contexts, both setter orders, through references) vs the
    // statically configured parser, on every short string
    {
        let cstrings = all_strings(&['a', 'b'], ctx.pick(6, 8));
        let chunks: Vec<&[Vec<char>]> = cstrings.chunks(16).collect();
        ctx.par_jobs(&chunks, |chunk, l| {
            for cs in chunk.iter() {
                let s: String = cs.iter().collect();
                for (name, configured, stat) in cfg_static_family(&s) {
                    l.evals += 4;
                    l.bump("configured_vs_static_comparisons");
                    if configured != stat {
                        let mut c = Case::new(ID, "static-cfg", &G::Empty, cs);
                        c.extra = serde_json::json!({ "template": name });
                        return Err((c, Fail::new("C15/configured-vs-static", format!("{}: configured: {} -- statically configured: {}", name, configured, stat))));
                    }
                }
            }
            Ok(())
        });
    }
    let n = ctx.pick(3_000_000, 16_000_000);
    ctx.par_random(n, 200, 15, |tape, l| {
        let (g, input) = decode(tape);
        debug_assert!(wf(&g), "ill-formed: {}", render(&g));
        check_inner("rand", &g, &input, l)
    });
    ctx.finish(&check_case, RULE, ASSUMPTIONS, &|l| {
        for k in ["configured_vs_static_comparisons", "provider_as_item_source_comparisons", "two_different_contexts_reached_one_consumer_and_accepted", "try_configure_error", "static_equivalent_pairs", "accepted", "rejected"] {
            if l.counters.get(k).copied().unwrap_or(0) == 0 {
                return Err(format!("class '{}' is empty", k));
            }
        }
        Ok(())
    })
}

/// one generated case from a raw choice tape (the coverage-guided tier feeds tapes decoded from bytes)
pub fn fuzz_one(tape: &[u32], l: &mut Local) -> CaseRes {
    let (g, input) = decode(tape);
    if !wf(&g) {
        return Ok(());
    }
    check_inner("rand", &g, &input, l)
}
