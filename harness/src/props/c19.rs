//! C19 -- every produced value is dropped exactly once or handed to the caller.
use super::common::*;
use crate::build::*;
use crate::driver::*;
use crate::gen::*;
use crate::grammar::*;
use crate::run::*;
use crate::val::*;
use chumsky::prelude::*;
use std::collections::BTreeSet;

pub const ID: &str = "C19";

pub const RULE: &str = "cases = (grammar, input, mode): C01/C02-class grammars extended with group([..; N]), group((..)), collect_exactly::<[T; N]>, folds, or_not, validate and recover_with, whose mapper closures (inserted at random nodes, with extra weight inside group arrays, repetition items and choice alternatives) create drop-tracked values (unique id, registered in a per-thread ledger of live ids; Clone registers a new id; Drop of an unknown id is recorded as a double drop); inputs derived (+edits, so that the k-th of N elements fails for every k) and random; templates (each fixed-size collection x every failing position) on all strings over {a,b,c} up to length L; parse and check. Oracle (no reference needed): while the ParseResult is alive, live ids == ids reachable from the output; after dropping it, no live id remains; no double drop at any time. Token sub-check: the same with a drop-tracked TOKEN type on &[T] and Stream inputs: after the parse, the result, the errors and the parser have been dropped, exactly the caller's tokens are live, each once. A statically typed family with a zero-sized droppable output type (13 parsers: array / tuple groups, collect_exactly into [Z; N] and Box<[Z; N]>, Vec, folds; parse, check and a forced-Emit position) on every string over {a b c} up to length 5 / 7: creations minus drops must equal what the result holds, and zero after it is dropped. Unbounded right folds (foldr / foldr_with, five and more items, also abandoned) over tracked values. NON-TRIVIAL = values were created and a fixed-size collection or group was abandoned part-way (>= 1 tracked value existed when the parse of that node failed), or values were built inside a path that was then backtracked (created > reachable), or the parse failed after creating values; distinct = distinct (sub-check, grammar, input).";

pub const ASSUMPTIONS: &[&str] = &[
    "the ledger is thread-local and reset before every case; parsers are built and dropped inside the case",
    "mapper closures may be skipped (check mode) or run for values that are later discarded: only the balance of creations and drops is judged",
];

struct Outcome {
    created: u64,
    has_output: bool,
}

fn ledger_check(when: &str, expect_live: &BTreeSet<u64>) -> Result<(), (String, String)> {
    let (live, created, dropped, dd) = ledger_snapshot();
    if !dd.is_empty() {
        return Err(("C19/double-drop".into(), format!("{}: {} value(s) dropped twice (ids {:?}); created {}, dropped {}", when, dd.len(), dd, created, dropped)));
    }
    if &live != expect_live {
        let leaked: Vec<&u64> = live.difference(expect_live).collect();
        let missing: Vec<&u64> = expect_live.difference(&live).collect();
        if !leaked.is_empty() {
            return Err(("C19/leak".into(), format!("{}: {} value(s) are neither part of the output nor dropped (ids {:?}); created {}, dropped {}", when, leaked.len(), leaked, created, dropped)));
        }
        return Err(("C19/dropped-while-reachable".into(), format!("{}: ids {:?} are reachable from the output but already dropped", when, missing)));
    }
    Ok(())
}

fn one_run<'s, I: Kind<'s>>(g: &G, mk: &dyn Fn() -> I, check_mode: bool, baseline: &BTreeSet<u64>) -> Result<Outcome, (String, String)> {
    let p = build::<I, chumsky::error::Rich<'s, I::Tok, I::Spn>>(g, false);
    // tokens held by the parser itself (just(..) sequences) are live as long as it is
    let (with_parser, _, _, _) = ledger_snapshot();
    let res = quietly(|| {
        let mut st = Insp::default();
        if check_mode {
            let r = p.check_with_state(mk(), &mut st);
            let ho = r.has_output();
            let (_, errs) = r.into_output_errors();
            (None, errs, ho)
        } else {
            let (o, errs) = p.parse_with_state(mk(), &mut st).into_output_errors();
            let ho = o.is_some();
            (o, errs, ho)
        }
    });
    let (out, errs, has_output) = match res {
        Ok(x) => x,
        Err(_) => return Err(("C19/panic".into(), format!("panicked: {:?}", LAST_PANIC.with(|p| p.borrow_mut().take())))),
    };
    let created = ledger_snapshot().1;
    // errors may hold clones of the caller's tokens (found / expected): release them first
    drop(errs);
    let mut reach = vec![];
    if let Some(v) = &out {
        v.tracked_ids(&mut reach);
    }
    let mut expect: BTreeSet<u64> = with_parser.clone();
    let n_reach = reach.len();
    expect.extend(reach);
    if expect.len() != with_parser.len() + n_reach {
        return Err(("C19/aliased-output".into(), "the same tracked value occurs twice in the output".into()));
    }
    ledger_check(if check_mode { "after check(), result alive" } else { "after parse(), result alive" }, &expect)?;
    drop(out);
    ledger_check("after dropping the result", &with_parser)?;
    drop(p);
    ledger_check("after dropping the parser", baseline)?;
    Ok(Outcome { created: created - with_parser.len() as u64, has_output })
}

fn check_inner(sub: &str, g: &G, toks: &[char], l: &mut Local) -> CaseRes {
    let case = || Case::new(ID, sub, g, toks);
    let recov = g.any_node(&|n| matches!(n, G::Recover(..)));
    let mut outcomes = vec![];
    for check_mode in [false, true] {
        ledger_reset();
        let r = if sub.starts_with("tok-slice") {
            let tv: Vec<TTok> = toks.iter().map(|c| TTok::from_char(*c)).collect();
            let baseline = ledger_snapshot().0;
            let sl: &[TTok] = &tv;
            let r = one_run::<&[TTok]>(g, &|| sl, check_mode, &baseline);
            drop(tv);
            r
        } else if sub.starts_with("tok-stream") {
            let tv: Vec<TTok> = toks.iter().map(|c| TTok::from_char(*c)).collect();
            let baseline = ledger_snapshot().0;
            // the stream owns clones of the caller's tokens; they must all be gone afterwards
            let r = one_run::<TokStream<TTok>>(g, &|| chumsky::input::Stream::from_iter(tv.clone().into_iter()), check_mode, &baseline);
            drop(tv);
            r
        } else {
            let si = StrIn::new(toks);
            let s: &str = &si.s;
            one_run::<&str>(g, &|| s, check_mode, &BTreeSet::new())
        };
        l.evals += 1;
        match r {
            Ok(o) => outcomes.push(o),
            Err((sig, msg)) => {
                if sig == "C19/panic" && recov {
                    l.bump("panics_left_to_C20");
                    return Ok(());
                }
                return fail(case, &sig, format!("{} mode: {}", if check_mode { "check" } else { "parse" }, msg));
            }
        }
        let (live, _, _, _) = ledger_snapshot();
        if !live.is_empty() {
            return fail(case, "C19/leak", format!("{} value(s) still alive after everything was dropped (ids {:?})", live.len(), live));
        }
    }
    let o = &outcomes[0];
    let fixed = g.any_node(&|n| matches!(n, G::GroupArr(_) | G::Group(_)) || matches!(n, G::Rep(r) if matches!(r.sink, Sink::Exactly(_))));
    let nontrivial = o.created > 0 && (!o.has_output || fixed);
    l.bump(if o.has_output { "with_output" } else { "no_output" });
    l.add("tracked_values_created", o.created);
    if o.created > 0 && !o.has_output {
        l.bump("values_created_then_parse_failed");
    }
    if o.created > 0 && fixed {
        l.bump("values_created_in_grammar_with_fixed_size_collection");
    }
    if outcomes[1].created > 0 {
        l.bump("values_created_in_check_mode");
    }
    l.note(g, toks, sub, nontrivial, || format!("has_output={} created={}", o.has_output, o.created));
    Ok(())
}

pub fn check_case(case: &Case, l: &mut Local) -> Result<(), Fail> {
    if case.sub == "zst-static" {
        return zst_case(&case.input, l).map_err(|(_, f)| f);
    }
    check_inner(&case.sub, &case.g, &case.toks(), l).map_err(|(_, f)| f)
}

pub fn templates() -> Vec<G> {
    let tr = |c: &str, t: u32| G::Track(b(G::Just(c.into())), t);
    let rep = |item: G, sep: Option<G>, lo: u8, hi: Option<u8>, sink: Sink| G::Rep(Rep { item: b(item), sep: sep.map(b), leading: false, trailing: false, lo, hi, sink, cfg: false, ctxb: 0 });
    let rest = || rep(G::Any, None, 0, None, Sink::Bare);
    let mut out = vec![];
    for n in 1..=4usize {
        let elems: Vec<G> = (0..n).map(|i| tr(["a", "b", "c", "a"][i], i as u32 + 1)).collect();
        out.push(G::GroupArr(elems.clone()));
        out.push(G::Or(b(G::GroupArr(elems.clone())), b(G::Then(b(tr("a", 9)), b(rest())))));
        out.push(G::Then(b(G::OrNot(b(G::GroupArr(elems.clone())))), b(rest())));
        if n >= 2 {
            out.push(G::Group(elems.clone()));
            out.push(G::Or(b(G::Group(elems.clone())), b(G::Then(b(tr("a", 9)), b(rest())))));
        }
        for (lo, hi) in [(0u8, Some(n as u8)), (n as u8, Some(n as u8)), (0, Some((n as u8).saturating_sub(1))), (1, None)] {
            if hi.is_none() && n == 4 {
                continue;
            }
            let r = rep(tr("a", 1), None, lo.min(n as u8), hi.or(Some(n as u8)), Sink::Exactly(n as u8));
            out.push(G::Then(b(r.clone()), b(rest())));
            out.push(G::Or(b(G::Then(b(r), b(G::Just("c".into())))), b(rest())));
            let rs = rep(tr("a", 1), Some(G::Just("b".into())), lo.min(n as u8), hi.or(Some(n as u8)), Sink::Exactly(n as u8));
            out.push(G::Then(b(rs), b(rest())));
        }
    }
    // into_iter() over a collected Vec of tracked values, into a fixed-size array (too few / exact / too many)
    for n in 0..=4u8 {
        let v = rep(tr("a", 1), None, 0, None, Sink::Vec);
        out.push(G::Then(b(G::IntoIter(b(v.clone()), 2 + n)), b(rest())));
        out.push(G::Or(b(G::Then(b(G::IntoIter(b(v.clone()), 2 + n)), b(G::Just("c".into())))), b(rest())));
        out.push(G::Then(b(G::IntoIter(b(G::OrNot(b(tr("a", 1)))), 2 + n.min(2))), b(rest())));
    }
    // folds, collect, recovery, validate with tracked values
    out.push(G::Then(b(rep(G::Then(b(tr("a", 1)), b(G::Just("b".into()))), None, 0, None, Sink::Vec)), b(rest())));
    out.push(rep(tr("a", 1), None, 0, None, Sink::Foldl(b(tr("b", 2)))));
    out.push(rep(tr("a", 1), None, 0, Some(3), Sink::Foldr(b(tr("b", 2)))));
    // right folds gather their items before folding: unbounded runs (five and more items), also abandoned ones
    out.push(rep(tr("a", 1), None, 0, None, Sink::Foldr(b(tr("b", 2)))));
    out.push(rep(tr("a", 1), None, 0, None, Sink::FoldrWith(b(tr("b", 2)))));
    out.push(rep(tr("a", 1), None, 0, None, Sink::FoldlWith(b(tr("b", 2)))));
    out.push(G::Or(b(G::Then(b(rep(tr("a", 1), None, 0, None, Sink::Foldr(b(tr("b", 2))))), b(G::Just("c".into())))), b(rest())));
    out.push(G::Or(b(G::Then(b(rep(tr("a", 1), None, 1, None, Sink::FoldrWith(b(G::Empty)))), b(G::Just("c".into())))), b(rest())));
    out.push(G::Then(b(G::Recover(b(G::Then(b(tr("a", 1)), b(G::Just("b".into())))), Strat::Via(b(G::To(b(G::Any), 901))))), b(rest())));
    out.push(G::Then(b(G::Recover(b(G::Then(b(tr("a", 1)), b(G::Just("b".into())))), Strat::SkipRetry { skip: b(G::Any), until: b(G::End) })), b(rest())));
    out.push(G::Then(b(G::Validate(b(tr("a", 1)), 3, 1)), b(G::Then(b(G::Filter(b(tr("b", 2)), Pred::Never)), b(rest())))));
    out.push(G::Then(b(G::AndIs(b(tr("a", 1)), b(tr("a", 2)))), b(G::Then(b(G::Rewind(b(tr("b", 3)))), b(rest())))));
    out.retain(wf);
    out
}


// ---------------------------------------------------------------------------------------------
// zero-sized output values with a destructor (statically typed: the builder's value type is not zero-sized). A
// zero-sized droppable value is where pointer arithmetic over `MaybeUninit` slots and "is this check mode?" tests by
// size go wrong without any memory error, so the balance of creations and drops is the only witness.

thread_local! {
    static Z_CREATED: std::cell::Cell<i64> = std::cell::Cell::new(0);
    static Z_DROPPED: std::cell::Cell<i64> = std::cell::Cell::new(0);
}
#[derive(Debug)]
struct Z;
impl Z {
    fn make(_: char) -> Z {
        Z_CREATED.with(|c| c.set(c.get() + 1));
        Z
    }
}
impl Drop for Z {
    fn drop(&mut self) {
        Z_DROPPED.with(|c| c.set(c.get() + 1));
    }
}
fn z_live() -> i64 {
    Z_CREATED.with(|c| c.get()) - Z_DROPPED.with(|c| c.get())
}

fn zst_case(s: &str, l: &mut Local) -> CaseRes {
    type EZ<'a> = extra::Err<Rich<'a, char>>;
    let toks: Vec<char> = s.chars().collect();
    let case = |name: &str| {
        let mut c = Case::new(ID, "zst-static", &G::Empty, &toks);
        c.extra = serde_json::json!({ "parser": name });
        c
    };
    fn zp<'a>(c: char) -> chumsky::combinator::Map<chumsky::primitive::Just<char, &'a str, EZ<'a>>, char, fn(char) -> Z> {
        just::<_, &'a str, EZ<'a>>(c).map(Z::make as fn(char) -> Z)
    }
    macro_rules! run {
        ($name:expr, $p:expr, $count:expr) => {{
            let name: &str = $name;
            let p = $p;
            for mode in 0..3 {
                Z_CREATED.with(|c| c.set(0));
                Z_DROPPED.with(|c| c.set(0));
                let r = quietly(|| {
                    let held: usize;
                    match mode {
                        0 => {
                            let res = p.parse(s);
                            held = res.output().map($count).unwrap_or(0);
                            let live = z_live();
                            drop(res);
                            (held, live, z_live())
                        }
                        1 => {
                            let res = p.check(s);
                            let live = z_live();
                            drop(res);
                            (0, live, z_live())
                        }
                        _ => {
                            // a Check-mode position below a combinator that needs its child's value (forces Emit)
                            let q = p.clone().try_map(|x, _| Ok(x)).ignored();
                            let res = q.parse(s);
                            let live = z_live();
                            drop(res);
                            (0, live, z_live())
                        }
                    }
                });
                l.evals += 1;
                let Ok((held, live, after)) = r else {
                    return Err((case(name), Fail::new("C19/panic", format!("{} panicked on {:?}", name, s))));
                };
                let what = ["parse", "check", "try_map(..).ignored()"][mode];
                if live != held as i64 {
                    let sig = if live > held as i64 { "C19/leak" } else { "C19/double-drop" };
                    return Err((case(name), Fail::new(sig, format!("{} on {:?} ({}): {} zero-sized values were created, {} dropped, while the result holds {}", name, s, what, Z_CREATED.with(|c| c.get()), Z_DROPPED.with(|c| c.get()), held))));
                }
                if after != 0 {
                    let sig = if after > 0 { "C19/leak" } else { "C19/double-drop" };
                    return Err((case(name), Fail::new(sig, format!("{} on {:?} ({}): after the result was dropped, created - dropped = {}", name, s, what, after))));
                }
                l.bump("zero_sized_value_runs");
                if Z_CREATED.with(|c| c.get()) > 0 && held == 0 {
                    l.bump("zero_sized_values_created_and_none_returned");
                }
            }
        }};
    }
    let rest = || any::<&str, EZ>().repeated();
    run!("group([a]).then_ignore(rest)", group([zp('a')]).then_ignore(rest()), |o: &[Z; 1]| o.len());
    run!("group([a, b]).then_ignore(rest)", group([zp('a'), zp('b')]).then_ignore(rest()), |o: &[Z; 2]| o.len());
    run!("group([a, b, a]).then_ignore(rest)", group([zp('a'), zp('b'), zp('a')]).then_ignore(rest()), |o: &[Z; 3]| o.len());
    run!("group([a, b, c]).or_not().then_ignore(rest)", group([zp('a'), zp('b'), zp('c')]).or_not().then_ignore(rest()), |o: &Option<[Z; 3]>| o.as_ref().map(|a| a.len()).unwrap_or(0));
    run!("group([a, b]).map(Some).or(a.then(rest).to(None))", group([zp('a'), zp('b')]).map(Some).or(zp('a').then(rest()).to(()).map(|()| None)).then_ignore(rest()), |o: &Option<[Z; 2]>| o.as_ref().map(|a| a.len()).unwrap_or(0));
    run!("group((a, b)).then_ignore(rest)", group((zp('a'), zp('b'))).then_ignore(rest()), |_o: &(Z, Z)| 2usize);
    run!("a.repeated().collect_exactly::<[Z; 2]>()", zp('a').repeated().collect_exactly::<[Z; 2]>().then_ignore(rest()), |o: &[Z; 2]| o.len());
    run!("a.repeated().at_most(3).collect_exactly::<[Z; 3]>()", zp('a').repeated().at_most(3).collect_exactly::<[Z; 3]>().then_ignore(rest()), |o: &[Z; 3]| o.len());
    run!("a.separated_by(b).collect_exactly::<[Z; 3]>().or_not()", zp('a').separated_by(just('b')).collect_exactly::<[Z; 3]>().or_not().then_ignore(rest()), |o: &Option<[Z; 3]>| o.as_ref().map(|a| a.len()).unwrap_or(0));
    run!("a.repeated().exactly(2).collect_exactly::<Box<[Z; 2]>>()", zp('a').repeated().exactly(2).collect_exactly::<Box<[Z; 2]>>().then_ignore(rest()), |o: &Box<[Z; 2]>| o.len());
    run!("a.repeated().collect::<Vec<Z>>()", zp('a').repeated().collect::<Vec<Z>>().then_ignore(rest()), |o: &Vec<Z>| o.len());
    run!("a.foldl(b.repeated(), keep left)", zp('a').foldl(zp('b').repeated(), |a, _b| a).then_ignore(rest()), |_o: &Z| 1usize);
    run!("a.then(b.or_not()).repeated().collect()", zp('a').then(zp('b').or_not()).repeated().collect::<Vec<(Z, Option<Z>)>>().then_ignore(rest()), |o: &Vec<(Z, Option<Z>)>| o.iter().map(|(_, b)| 1 + b.is_some() as usize).sum::<usize>());
    Ok(())
}

pub fn decode(tape: &[u32]) -> (G, Vec<char>, &'static str) {
    let mut t = Tape::new(tape);
    let sub = ["str", "str", "tok-slice", "tok-stream"][t.pick(4)];
    let (g, alpha) = {
        let mut c = GenCfg::c02();
        c.track = true;
        c.validate = true;
        c.recover = t.chance(1, 3);
        let mut gg = GGen::new(&mut t, c);
        let d = 2 + gg.t.pick(4) as u32;
        let mut g = gg.gen(d, false);
        if !g.any_node(&|n| matches!(n, G::Track(..))) {
            g = G::Track(b(g), 77);
        }
        (g, gg.alpha.clone())
    };
    let input = gen_input(&g, &mut t, &alpha, 12);
    (g, input, sub)
}

pub fn run(tier: Tier, seed: u64) -> i32 {
    let ctx = Ctx::new(ID, tier, seed);
    ctx.replay_corpus(&check_case);
    let ts = templates();
    let strings = all_strings(&['a', 'b', 'c'], ctx.pick(6, 8));
    ctx.with_local(|l| {
        l.add("templates", ts.len() as u64);
        l.add("strings_per_template", strings.len() as u64);
    });
    ctx.par_jobs(&ts, |g, l| {
        for (i, s) in strings.iter().enumerate() {
            check_inner(["template-str", "template-tok-slice", "template-tok-stream"][i % 3].trim_start_matches("template-"), g, s, l)?;
        }
        Ok(())
    });
    // zero-sized droppable outputs (statically typed), every short string
    let zstrings: Vec<String> = all_strings(&['a', 'b', 'c'], ctx.pick(5, 7)).into_iter().map(|v| v.into_iter().collect()).collect();
    let zchunks: Vec<&[String]> = zstrings.chunks(64).collect();
    ctx.par_jobs(&zchunks, |ch, l| {
        for s in ch.iter() {
            zst_case(s, l)?;
        }
        Ok(())
    });
    let n = ctx.pick(3_000_000, 18_000_000);
    ctx.par_random(n, 200, 19, |tape, l| {
        let (g, input, sub) = decode(tape);
        debug_assert!(wf(&g), "ill-formed: {}", render(&g));
        check_inner(sub, &g, &input, l)
    });
    ctx.finish(&check_case, RULE, ASSUMPTIONS, &|l| {
        for k in ["zero_sized_value_runs", "values_created_then_parse_failed", "values_created_in_grammar_with_fixed_size_collection", "with_output", "tracked_values_created"] {
            if l.counters.get(k).copied().unwrap_or(0) == 0 {
                return Err(format!("class '{}' is empty", k));
            }
        }
        Ok(())
    })
}

/// one generated case from a raw choice tape (the coverage-guided tier feeds tapes decoded from bytes)
pub fn fuzz_one(tape: &[u32], l: &mut Local) -> CaseRes {
    let (g, input, sub) = decode(tape);
    if !wf(&g) {
        return Ok(());
    }
    check_inner(sub, &g, &input, l)
}
