//! C11 -- memoization is transparent and makes left recursion terminate.
use super::common::*;
use crate::build::*;
use crate::driver::*;
use crate::gen::*;
use crate::grammar::*;
use crate::reference::{self, RefOpts};
use crate::run::*;
use chumsky::prelude::*;

pub const ID: &str = "C11";

pub const RULE: &str = "cases = (grammar with memoized() at a random subset of nodes, input). Transparency: C01/C02-class grammars g (with validate emitters in half of the cases, no context / state) and a random subset S of their nodes wrapped in .memoized(), placement weights favouring nested placements (x.memoized() directly inside a memoized node and at its first position), both operands of then / or, memoized nodes inside repetition items, under lookahead and inside recursion; plus templates (each placement shape) x all strings over {a,b,c} up to length L, plus statically typed (non-boxed) templates incl. nested memoized().memoized(), a memoized parser at the first position of another memoized parser, and distinct zero-sized memoized parsers. Oracle (differential): memo(g, S) and g must agree on has_output, output, the number of errors and every error (span, found, expected set, message, contexts), for parse and check. Left recursion: the families expr = expr op atom | atom, expr = expr op expr | atom and the indirect a = b x | y ; b = a z | w with the recursive step memoized (two placements), on all strings over (atom, op, foreign) up to length 7 (quick 6) and random ones up to 200, each batch in a child process with a 4 GiB address-space limit and a watchdog: the property is that parse returns and that the result obeys the ParseResult contract; no claim about which tree. Distinct memoized parsers stored next to each other (elements of a Vec / array / tuple handed to choice, neighbours in a sequence) on 600 / 6000 strings of 8..48 tokens. NON-TRIVIAL = a memoized node was entered at least twice at one position, or two distinct memoized nodes were entered at one position, or a memoized node failed; distinct = distinct (sub-check, grammar, input).";

pub const ASSUMPTIONS: &[&str] = &[
    "the undecorated grammar g is tied to the reference by C01/C05/C06; here only memo(g) == g is compared",
    "children are boxed in generated grammars, so parser addresses never coincide there; address aliasing of inline parsers is probed by the static templates (finding KF-a)",
    "left-recursion termination is judged by the child process exiting normally within the watchdog (120 s per batch of tiny inputs); an expiry is reported as inconclusive, a signal-killed child as a violation",
];

fn unmemo(g: &G) -> G {
    let mut g = g.clone();
    g.transform(&mut |n| {
        if let G::Memo(a) = n {
            let inner = (**a).clone();
            *n = inner;
        }
    });
    g
}

fn check_inner(sub: &str, gm: &G, toks: &[char], l: &mut Local) -> CaseRes {
    let case = || Case::new(ID, sub, gm, toks);
    if too_expensive(gm, toks, 8_000, l) {
        return Ok(());
    }
    let g0 = unmemo(gm);
    let si = StrIn::new(toks);
    let s: &str = &si.s;
    let pm = build::<&str, RichS>(gm, false);
    let p0 = build::<&str, RichS>(&g0, false);
    let (om, cm) = (run_parse(&pm, s), run_check(&pm, s));
    let (o0, c0) = (run_parse(&p0, s), run_check(&p0, s));
    l.evals += 4;
    if o0.panic.is_some() || c0.panic.is_some() {
        l.bump("plain_grammar_panics_left_to_C20");
        return Ok(());
    }
    if om.panic.is_some() || cm.panic.is_some() {
        return fail(case, "C11/panic", format!("the memoized grammar panicked ({:?} / {:?}), the plain one did not", om.panic, cm.panic));
    }
    for (what, m, p) in [("parse", &om, &o0), ("check", &cm, &c0)] {
        if m.has_output != p.has_output {
            return fail(case, "C11/accept", format!("{}: memoized has_output={} but plain has_output={} (memoized errors {:?}; plain errors {:?})", what, m.has_output, p.has_output, m.errs, p.errs));
        }
        if m.out != p.out {
            return fail(case, "C11/output", format!("{}: memoized output {:?} but plain output {:?}", what, m.out, p.out));
        }
        if m.errs.len() != p.errs.len() {
            return fail(case, "C11/error-count", format!("{}: memoized reports {} errors {:?}, plain {} {:?}", what, m.errs.len(), m.errs, p.errs.len(), p.errs));
        }
        // a failed `not` records a `found` token that does not sit at its error position (its bookkeeping is
        // pinned, not specified, see C06): where such an error merges with others, `found` depends on the merge
        // order, which memoization legitimately changes
        let has_not = gm.any_node(&|n| matches!(n, G::Not(_)));
        for (k, (a, c)) in m.errs.iter().zip(&p.errs).enumerate() {
            let same = if has_not {
                let (mut a2, mut c2) = (a.clone(), c.clone());
                a2.found = None;
                c2.found = None;
                a2 == c2
            } else {
                a == c
            };
            if !same {
                let sig = if a.span != c.span { "C11/error-span" } else { "C11/error-content" };
                return fail(case, sig, format!("{}: error #{}: memoized {:?} but plain {:?}", what, k, a, c));
            }
        }
    }
    // the same memoized parser VALUE cloned into every place where the same (closed) memoized sub-grammar occurs:
    // the second visit at one position then hits the memo table instead of a second instance's own entry
    let shared = shared_memo_subtrees(gm);
    if shared > 0 {
        let mut bld = Bld::<&str, RichS>::new(gm, false);
        bld.share_memo = true;
        let ps = bld.build(gm);
        let (os, cs) = (run_parse(&ps, s), run_check(&ps, s));
        l.evals += 2;
        l.bump("one_memoized_value_cloned_into_several_places");
        if os.panic.is_some() || cs.panic.is_some() {
            return fail(case, "C11/panic", format!("the grammar with a shared memoized value panicked ({:?} / {:?})", os.panic, cs.panic));
        }
        for (what, m, p) in [("parse", &os, &o0), ("check", &cs, &c0)] {
            if m.has_output != p.has_output {
                return fail(case, "C11/accept", format!("{} (one memoized value cloned into {} places): memoized has_output={} but plain has_output={} (memoized errors {:?}; plain errors {:?})", what, shared + 1, m.has_output, p.has_output, m.errs, p.errs));
            }
            if m.out != p.out {
                return fail(case, "C11/output", format!("{} (shared memoized value): memoized output {:?} but plain output {:?}", what, m.out, p.out));
            }
            if m.errs.len() != p.errs.len() || m.errs.iter().zip(&p.errs).any(|(a, c)| a.span != c.span) {
                return fail(case, "C11/error-span", format!("{} (shared memoized value): memoized errors {:?} but plain errors {:?}", what, m.errs, p.errs));
            }
        }
        if om.has_output && toks.len() >= 2 {
            l.bump("shared_memoized_value_on_an_accepted_input");
        }
    }
    let r = reference::eval(gm, toks, RefOpts::default());
    let st = &r.stats;
    let nontrivial = st.memo_revisits > 0 || shared > 0 || st.memo_two_at_one_pos > 0 || st.memo_failures > 0;
    l.bump(if om.has_output { "with_output" } else { "rejected" });
    if st.memo_revisits > 0 {
        l.bump("memoized_node_entered_twice_at_one_position");
    }
    if st.memo_two_at_one_pos > 0 {
        l.bump("two_memoized_nodes_at_one_position");
    }
    if st.memo_failures > 0 {
        l.bump("memoized_node_failed");
    }
    if gm.any_node(&|n| matches!(n, G::Memo(a) if matches!(**a, G::Memo(_)))) {
        l.bump("directly_nested_memoized");
    }
    l.note(gm, toks, sub, nontrivial, || format!("has_output={} errors={:?}", om.has_output, om.errs));
    Ok(())
}

pub fn check_case(case: &Case, l: &mut Local) -> Result<(), Fail> {
    if case.sub.starts_with("static") {
        let want = case.extra.get("template").and_then(|x| x.as_str()).unwrap_or("");
        for (name, memo, plain) in static_templates(&case.input) {
            l.evals += 2;
            if name == want && memo != plain {
                let sig = if name.starts_with("KF-a") { format!("C11/memo-key-aliasing/{}", &name[5..]) } else { "C11/static".to_string() };
                return Err(Fail::new(sig, format!("static template {}: memoized {:?} but plain {:?}", name, memo, plain)));
            }
        }
        return Ok(());
    }
    if case.sub.starts_with("leftrec") {
        return match crate::worker::run_child(&["leftrec", "6", "2000", "1"], 120, 4_000_000) {
            crate::worker::ChildResult::Ok(_) => Ok(()),
            crate::worker::ChildResult::Violation(m) => Err(Fail::new("C11/left-recursion", m)),
            crate::worker::ChildResult::Inconclusive(m) => Err(Fail::new("C11/inconclusive", m)),
        };
    }
    check_inner(&case.sub, &case.g, &case.toks(), l).map_err(|(_, f)| f)
}

/// number of closed memoized sub-grammars that occur more than once (counted per extra occurrence)
fn shared_memo_subtrees(g: &G) -> usize {
    let mut seen: Vec<&G> = vec![];
    let mut dup = 0;
    fn walk<'a>(g: &'a G, seen: &mut Vec<&'a G>, dup: &mut usize) {
        if let G::Memo(a) = g {
            if !a.any_node(&|n| matches!(n, G::RecRef(_))) {
                if seen.iter().any(|x| **x == **a) {
                    *dup += 1;
                } else {
                    seen.push(a);
                }
            }
        }
        for c in g.children() {
            walk(c, seen, dup)
        }
    }
    walk(g, &mut seen, &mut dup);
    dup
}

pub fn templates() -> Vec<G> {
    let j = |s: &str| G::Just(s.into());
    let m = |g: G| G::Memo(b(g));
    let rep = |item: G, lo: u8, hi: Option<u8>| G::Rep(Rep { item: b(item), sep: None, leading: false, trailing: false, lo, hi, sink: Sink::Vec, cfg: false, ctxb: 0 });
    let mut out = vec![
        // a failing memoized parser next to alternatives that left / will leave a pending error
        G::Or(b(m(j("a"))), b(j("b"))),
        G::Or(b(j("b")), b(m(j("a")))),
        G::Choice(vec![G::Then(b(j("ab")), b(j("c"))), m(j("b")), m(G::Then(b(j("a")), b(j("a"))))]),
        G::Then(b(G::OrNot(b(m(G::Then(b(j("a")), b(j("b"))))))), b(j("c"))),
        // the same memoized sub-parser retried at the same position by a second alternative
        G::Or(b(G::Then(b(m(j("a"))), b(j("b")))), b(G::Then(b(m(j("a"))), b(j("c"))))),
        G::Or(b(G::Then(b(m(rep(j("a"), 0, None))), b(j("b")))), b(G::Then(b(m(rep(j("a"), 0, None))), b(j("c"))))),
        // nested and adjacent placements
        m(m(j("a"))),
        m(G::Then(b(m(j("a"))), b(j("b")))),
        G::Then(b(m(j("a"))), b(m(j("b")))),
        G::Or(b(m(m(G::Then(b(j("a")), b(j("b")))))), b(m(j("a")))),
        // inside repetitions, lookahead, with emissions
        G::Then(b(rep(m(G::Then(b(j("a")), b(G::OrNot(b(j("b")))))), 0, None)), b(j("c"))),
        G::Then(b(G::AndIs(b(m(G::Any)), b(m(G::NoneOf("c".into()))))), b(rep(G::Any, 0, None))),
        G::Then(b(G::Not(b(m(j("ab"))))), b(rep(m(G::Any), 0, None))),
        G::Or(b(G::Then(b(m(G::Validate(b(j("a")), 1, 1))), b(j("b")))), b(G::Then(b(m(G::Validate(b(j("a")), 1, 1))), b(rep(G::Any, 0, None))))),
        m(G::TryMap(b(m(G::Any)), Pred::FirstIn("a".into()), 1)),
        G::Or(b(m(G::Custom { take: 1, ok: false, tag: 2 })), b(m(j("b")))),
    ];
    // one memoized VALUE (built once, cloned) that emits and then fails, visited three and four times at one position:
    // twice inside abandoned alternatives, then outside any backtracking combinator (every replay of the remembered
    // failure must re-emit the non-fatal errors of the first attempt, not only the first replay)
    for head in [G::Then(b(G::Validate(b(G::Any), 1, 1)), b(j("b"))), G::Then(b(G::Validate(b(j("a")), 2, 2)), b(G::Then(b(G::Validate(b(G::Any), 3, 1)), b(j("c")))))] {
        let h = m(head);
        let two = G::Or(b(G::Then(b(h.clone()), b(j("c")))), b(G::Then(b(h.clone()), b(j("a")))));
        let three = G::Choice(vec![G::Then(b(h.clone()), b(j("c"))), G::Then(b(h.clone()), b(j("a"))), G::Then(b(h.clone()), b(j("bb")))]);
        out.push(G::Then(b(G::OrNot(b(two.clone()))), b(h.clone())));
        out.push(G::Then(b(G::OrNot(b(three.clone()))), b(h.clone())));
        out.push(G::Then(b(G::OrNot(b(two.clone()))), b(G::Then(b(h.clone()), b(rep(G::Any, 0, None))))));
        out.push(G::Then(b(G::Not(b(two))), b(G::Then(b(G::Rewind(b(G::OrNot(b(h.clone()))))), b(h.clone())))));
    }
    out.retain(wf);
    out
}

pub fn decode(tape: &[u32]) -> (G, Vec<char>) {
    let mut t = Tape::new(tape);
    let (g, alpha) = {
        let mut c = GenCfg::c02();
        c.memo = true;
        c.rec = true;
        if t.chance(1, 2) {
            c.validate = true;
        }
        let mut gg = GGen::new(&mut t, c);
        let d = 2 + gg.t.pick(4) as u32;
        let mut g = gg.gen(d, false);
        // extra nested / adjacent placements
        match gg.t.pick(4) {
            0 => g = G::Memo(b(g)),
            1 => g = G::Memo(b(G::Memo(b(g)))),
            _ => {}
        }
        if !g.any_node(&|n| matches!(n, G::Memo(_))) {
            g = G::Memo(b(g));
        }
        // the same memoized sub-grammar in a second place (one parser value, cloned)
        if gg.t.chance(2, 5) {
            let n = g.size();
            let memos: Vec<usize> = (0..n).filter(|i| matches!(node_at(&g, *i), Some(G::Memo(a)) if a.size() <= 8 && !a.any_node(&|x| matches!(x, G::RecRef(_))))).collect();
            if !memos.is_empty() {
                let src = node_at(&g, memos[gg.t.pick(memos.len())]).unwrap().clone();
                let at = gg.t.pick(n);
                let z = |s: &str| G::Just(s.into());
                let partner = match gg.t.pick(5) {
                    // three visits at one position: two inside abandoned alternatives, the third outside any backtracking
                    3 => G::Then(b(G::OrNot(b(G::Or(b(G::Then(b(src.clone()), b(z("z")))), b(G::Then(b(src.clone()), b(z("y")))))))), b(G::Then(b(src.clone()), b(G::OrNot(b(g.clone())))))),
                    4 => G::Then(b(G::Not(b(G::Then(b(src.clone()), b(z("z")))))), b(G::Then(b(G::OrNot(b(G::Then(b(src.clone()), b(z("y")))))), b(G::Then(b(src.clone()), b(G::OrNot(b(g.clone())))))))),
                    // an alternative that retries the same memoized parser at the same position
                    0 => G::Or(b(G::Then(b(src.clone()), b(G::Just("z".into())))), b(g.clone())),
                    1 => G::Then(b(G::OrNot(b(G::Then(b(src.clone()), b(G::Just("z".into())))))), b(g.clone())),
                    _ => replace_at(&g, at, &src),
                };
                if wf(&partner) && partner.size() <= 45 {
                    g = partner;
                }
            }
        }
        (g, gg.alpha.clone())
    };
    let input = gen_input(&g, &mut t, &alpha, 12);
    (g, input)
}

// ---- statically typed templates: inline (non-boxed) parsers whose addresses can coincide ----

type E<'a> = extra::Err<Rich<'a, char>>;

fn canon(r: ParseResult<String, Rich<'_, char>>) -> (Option<String>, Vec<String>) {
    let (o, e) = r.into_output_errors();
    (o, e.iter().map(|e| format!("{:?}@{:?}", e.reason(), e.span())).collect())
}

/// (name, memoized result, plain result) for every input
fn static_templates(input: &str) -> Vec<(&'static str, (Option<String>, Vec<String>), (Option<String>, Vec<String>))> {
    fn is_x(c: &char) -> bool {
        *c == 'a'
    }
    let mut out = vec![];
    // nested memoized().memoized()
    let plain = just::<_, &str, E>('a').then(just('b')).to_slice().map(|s: &str| s.to_string());
    let memo = just::<_, &str, E>('a').memoized().memoized().then(just('b')).to_slice().map(|s: &str| s.to_string());
    out.push(("KF-a/nested-memoized-memoized", canon(memo.parse(input)), canon(plain.parse(input))));
    // a memoized parser at the first position of another memoized parser
    let memo = just::<_, &str, E>('a').memoized().then(just('b')).memoized().to_slice().map(|s: &str| s.to_string());
    out.push(("KF-a/memoized-first-field-of-memoized", canon(memo.parse(input)), canon(plain.parse(input))));
    // distinct zero-sized memoized parsers tried at one position
    let plain = any::<&str, E>().filter(is_x as fn(&char) -> bool).or(any()).then(any().repeated()).to_slice().map(|s: &str| s.to_string());
    let memo = any::<&str, E>().filter(is_x as fn(&char) -> bool).memoized().or(any().memoized()).then(any().repeated()).to_slice().map(|s: &str| s.to_string());
    out.push(("KF-a/distinct-zero-sized-memoized", canon(memo.parse(input)), canon(plain.parse(input))));
    // controls that must agree: memoized inline parsers with distinct addresses
    let plain = just::<_, &str, E>("ab").or(just("ac")).then(just('c').or_not()).to_slice().map(|s: &str| s.to_string());
    let memo = just::<_, &str, E>("ab").memoized().or(just("ac").memoized()).then(just('c').memoized().or_not()).to_slice().map(|s: &str| s.to_string());
    out.push(("static/inline-distinct", canon(memo.parse(input)), canon(plain.parse(input))));
    let plain = just::<_, &str, E>('a').repeated().at_least(1).to_slice().then(just('b').or(just('c'))).to_slice().map(|s: &str| s.to_string());
    let memo = just::<_, &str, E>('a').memoized().repeated().at_least(1).to_slice().memoized().then(just('b').memoized().or(just('c'))).to_slice().map(|s: &str| s.to_string());
    out.push(("static/inline-repeated", canon(memo.parse(input)), canon(plain.parse(input))));
    // distinct memoized parsers stored NEXT TO EACH OTHER (elements of a Vec / an array / a tuple handed to choice): their
    // addresses differ by a small stride, and they meet at positions that differ by small amounts
    let tail = || any::<&str, E>().to_slice();
    let plain = choice(vec![just::<_, &str, E>("a"), just("b")]).or(tail()).repeated().collect::<Vec<&str>>().map(|v| v.join("|"));
    let memo = choice(vec![just::<_, &str, E>("a").memoized(), just("b").memoized()]).or(tail()).repeated().collect::<Vec<&str>>().map(|v| v.join("|"));
    out.push(("static/adjacent-in-vec", canon(memo.parse(input)), canon(plain.parse(input))));
    let plain = choice([just::<_, &str, E>("ab"), just("b"), just("a"), just("ba")]).or(tail()).repeated().collect::<Vec<&str>>().map(|v| v.join("|"));
    let memo = choice([just::<_, &str, E>("ab").memoized(), just("b").memoized(), just("a").memoized(), just("ba").memoized()]).or(tail()).repeated().collect::<Vec<&str>>().map(|v| v.join("|"));
    out.push(("static/adjacent-in-array", canon(memo.parse(input)), canon(plain.parse(input))));
    let plain = choice((just::<_, &str, E>('a'), just('b'), just('c'))).or(any()).repeated().collect::<String>();
    let memo = choice((just::<_, &str, E>('a').memoized(), just('b').memoized(), just('c').memoized())).or(any()).repeated().collect::<String>();
    out.push(("static/adjacent-in-tuple", canon(memo.parse(input)), canon(plain.parse(input))));
    let plain = just::<_, &str, E>('a').or_not().then(just('b').or_not()).then(just('x').or_not()).to_slice().filter(|s: &&str| !s.is_empty()).repeated().at_most(64).collect::<Vec<&str>>().then_ignore(any().repeated()).map(|v| v.join("|"));
    let memo = just::<_, &str, E>('a').memoized().or_not().then(just('b').memoized().or_not()).then(just('x').memoized().or_not()).to_slice().filter(|s: &&str| !s.is_empty()).repeated().at_most(64).collect::<Vec<&str>>().then_ignore(any().repeated()).map(|v| v.join("|"));
    out.push(("static/adjacent-in-sequence", canon(memo.parse(input)), canon(plain.parse(input))));
    out
}

// ---- left recursion (runs in a child process) ----

pub fn leftrec_grammars() -> Vec<(&'static str, G)> {
    let j = |s: &str| G::Just(s.into());
    let m = |g: G| G::Memo(b(g));
    let atom = || G::OneOf("xy".into());
    let then = |x: G, y: G| G::Then(b(x), b(y));
    let or = |x: G, y: G| G::Or(b(x), b(y));
    let e = || G::RecRef(0);
    let g1 = G::Rec(0, b(m(or(then(e(), then(j("+"), atom())), atom()))));
    let g2 = G::Rec(0, b(or(then(m(e()), then(j("+"), atom())), atom())));
    let g3 = G::Rec(0, b(m(or(then(e(), then(j("+"), e())), atom()))));
    let inner_b = G::Rec(1, b(m(or(then(e(), j("+")), j("x")))));
    let g4 = G::Rec(0, b(m(or(then(inner_b, j("x")), j("y")))));
    // the cycle passes through a wrapper that hands the sub-parse a different view of the parse
    // state (context, user state, boxing, labels, mapping): the in-progress marker must still be seen
    let deco = |d: &dyn Fn(G) -> G| G::Rec(0, b(m(or(then(d(e()), then(j("+"), atom())), atom()))));
    let g5 = deco(&|x| G::WithCtx(b(x), "k".into()));
    let g6 = deco(&|x| G::MapCtx(b(x), 1));
    let g7 = deco(&|x| G::Labelled(b(G::Map(b(x), 7)), "L".into(), true));
    let g8 = deco(&|x| G::Wrapped(b(G::Wrapped(b(x), Wrap::Boxed)), Wrap::ArcW));
    let g9 = deco(&|x| G::IgnoreWithCtx(b(G::Empty), b(x)));
    let g10 = deco(&|x| G::Validate(b(G::MapErr(b(x), 3, false)), 9, 1));
    vec![
        ("expr = (expr.with_ctx(k) op atom | atom).memoized()", g5),
        ("expr = (map_ctx(f, expr) op atom | atom).memoized()", g6),
        ("expr = (expr.map(f).labelled(L).as_context() op atom | atom).memoized()", g7),
        ("expr = (Arc(expr.boxed()) op atom | atom).memoized()", g8),
        ("expr = (empty().ignore_with_ctx(expr) op atom | atom).memoized()", g9),
        ("expr = (expr.map_err(f).validate(v) op atom | atom).memoized()", g10),
        ("expr = (expr op atom | atom).memoized()", g1),
        ("expr = expr.memoized() op atom | atom", g2),
        ("expr = (expr op expr | atom).memoized()", g3),
        ("a = (b x | y).memoized(); b = (a + | x).memoized()", g4),
    ]
}

/// child entry point: runs every left-recursive grammar on every input of the batch, prints one line per violation
pub fn leftrec_worker(max_len: usize, random: u64, seed: u64) -> i32 {
    let gs = leftrec_grammars();
    let mut inputs = all_strings(&['x', 'y', '+', 'z'], max_len);
    // random longer inputs (deterministic xorshift from the seed; generation only, not part of a property)
    let mut x = seed | 1;
    for _ in 0..random {
        x ^= x << 13;
        x ^= x >> 7;
        x ^= x << 17;
        let len = 8 + (x % 193) as usize;
        let mut v = vec![];
        for i in 0..len {
            x ^= x << 13;
            x ^= x >> 7;
            x ^= x << 17;
            v.push(if i % 2 == 0 { ['x', 'y'][(x % 2) as usize] } else { ['+', '+', '+', 'z'][(x % 4) as usize] });
        }
        inputs.push(v);
    }
    let mut n = 0u64;
    let mut returned_with_output = 0u64;
    let strs: Vec<String> = inputs.iter().map(|i| i.iter().collect()).collect();
    for (name, g) in &gs {
        let p = build::<&str, RichS>(g, false);
        for s in &strs {
            let o = run_parse(&p, s.as_str());
            let c = run_check(&p, s.as_str());
            n += 2;
            for (what, r) in [("parse", &o), ("check", &c)] {
                if let Some(m) = &r.panic {
                    println!("LEFTREC-VIOLATION grammar={:?} input={:?} {} panicked: {}", name, s, what, m);
                    return 1;
                }
                if !r.has_output && r.errs.is_empty() {
                    println!("LEFTREC-VIOLATION grammar={:?} input={:?} {} returned neither output nor error", name, s, what);
                    return 1;
                }
            }
            if o.has_output {
                returned_with_output += 1;
            }
        }
    }
    println!("LEFTREC-OK parses={} with_output={}", n, returned_with_output);
    0
}

pub fn run(tier: Tier, seed: u64) -> i32 {
    let ctx = Ctx::new(ID, tier, seed);
    ctx.replay_corpus(&check_case);
    let ts = templates();
    let strings = all_strings(&['a', 'b', 'c'], ctx.pick(6, 8));
    ctx.with_local(|l| {
        l.add("templates", ts.len() as u64);
        l.add("strings_per_template", strings.len() as u64);
    });
    ctx.par_jobs(&ts, |g, l| {
        for s in &strings {
            check_inner("template", g, s, l)?;
        }
        Ok(())
    });
    // statically typed templates
    let mut sstrings = all_strings(&['a', 'b', 'c'], ctx.pick(4, 6));
    {
        // longer strings for the templates whose parsers sit a few bytes apart (generation only: a fixed xorshift stream)
        let mut x: u64 = 0x9e3779b97f4a7c15;
        for _ in 0..ctx.pick(600, 6000) {
            x ^= x << 13;
            x ^= x >> 7;
            x ^= x << 17;
            let len = 8 + (x % 41) as usize;
            let mut v = vec![];
            for _ in 0..len {
                x ^= x << 13;
                x ^= x >> 7;
                x ^= x << 17;
                v.push(['a', 'b', 'x', 'x', 'c', 'a'][(x % 6) as usize]);
            }
            sstrings.push(v);
        }
    }
    ctx.par_jobs(&sstrings, |toks, l| {
        let s: String = toks.iter().collect();
        for (name, memo, plain) in static_templates(&s) {
            l.evals += 2;
            l.bump("static_template_runs");
            if memo != plain {
                let known = name.starts_with("KF-a");
                let sub = if known { "static-aliasing" } else { "static" };
                let sig = if known { format!("C11/memo-key-aliasing/{}", &name[5..]) } else { "C11/static".to_string() };
                let mut c = Case::new(ID, sub, &G::Empty, toks);
                c.extra = serde_json::json!({ "template": name });
                let r = Err((c, Fail::new(sig, format!("static template {}: memoized {:?} but plain {:?}", name, memo, plain))));
                if known {
                    // the listed aliasing templates: attributed (counted) one by one, so that the templates after them
                    // are still run on this string
                    ctx.judge(l, r);
                    continue;
                }
                return r;
            }
        }
        Ok(())
    });
    let n = ctx.pick(600_000, 4_000_000);
    ctx.par_random(n, 200, 11, |tape, l| {
        let (g, input) = decode(tape);
        debug_assert!(wf(&g), "ill-formed: {}", render(&g));
        check_inner("rand", &g, &input, l)
    });
    // left recursion in a child process
    let (max_len, random) = ctx.pick((6usize, 2_000u64), (7usize, 40_000u64));
    match crate::worker::run_child(&["leftrec", &max_len.to_string(), &random.to_string(), &seed.to_string()], 120, 4_000_000) {
        crate::worker::ChildResult::Ok(out) => {
            let line = out.lines().find(|l| l.starts_with("LEFTREC-OK")).unwrap_or("").to_string();
            let parses: u64 = line.split("parses=").nth(1).and_then(|x| x.split(' ').next()).and_then(|x| x.parse().ok()).unwrap_or(0);
            ctx.with_local(|l| {
                l.evals += parses;
                l.add("left_recursive_parses_that_returned", parses);
            });
        }
        crate::worker::ChildResult::Violation(msg) => {
            let c = Case::new(ID, "leftrec", &G::Empty, &[]);
            let mut l = Local::default();
            ctx.judge(&mut l, Err((c, Fail::new("C11/left-recursion", msg))));
        }
        crate::worker::ChildResult::Inconclusive(msg) => {
            *ctx.inconclusive.lock().unwrap() = Some(format!("left-recursion worker: {}", msg));
        }
    }
    ctx.finish(&check_case, RULE, ASSUMPTIONS, &|l| {
        for k in ["memoized_node_entered_twice_at_one_position", "two_memoized_nodes_at_one_position", "memoized_node_failed", "directly_nested_memoized", "left_recursive_parses_that_returned", "static_template_runs"] {
            if l.counters.get(k).copied().unwrap_or(0) == 0 {
                return Err(format!("class '{}' is empty", k));
            }
        }
        Ok(())
    })
}

/// one generated case from a raw choice tape (the coverage-guided tier feeds tapes decoded from bytes)
pub fn fuzz_one(tape: &[u32], l: &mut Local) -> CaseRes {
    let (g, input) = decode(tape);
    if !wf(&g) {
        return Ok(());
    }
    check_inner("rand", &g, &input, l)
}
