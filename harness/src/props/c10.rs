//! C10 -- the result does not depend on how the input is represented.
//!
//! Differential: every input kind against the `&[char]` baseline (which C01/C05/C06 tie to the
//! reference semantics). Stream kinds sit on a counting iterator whose clones share one log.
use super::common::*;
use crate::build::*;
use crate::compare::*;
use crate::driver::*;
use crate::gen::*;
use crate::grammar::*;
use crate::reference::{self, RefOpts};
use crate::run::*;
use chumsky::error::Rich;
use chumsky::input::{Input, Stream};
use chumsky::prelude::*;
use chumsky::span::SimpleSpan;
use serde_json::json;
use std::cell::RefCell;
use std::rc::Rc;

pub const ID: &str = "C10";

pub const RULE: &str = "cases = (grammar, token sequence); each case is parsed (parse and check, Rich errors, every node wrapped in a span-recording map_with, try_map / validate / select closures recording their spans) through the &[char] baseline and through every other input kind the grammar can run on: &str, &[char; N] (N = 0..=6, 8), Stream over a counting iterator, Stream::boxed(), Stream::exact_size_boxed(), slice.map(eoi, ..) and Stream.map(eoi, ..) over (token, span) pairs with generated GAPPED spans, IterInput over such pairs (Input-only grammars: just / end / empty and combinators), IoInput over a Cursor<Vec<u8>> (ASCII cases; at offset 0 and handed over at a non-zero offset behind an already-read header), &str.with_context(ctx), slice.map_span(shift by 1000). Grammars: C01/C02/C08 classes (recovery incl. nested_delimiters, validate emitters, span captures), half of them over ASCII alphabets. Oracle: same has_output, same output value with every embedded span equal after the documented re-basing (byte offsets for text, the tokens' own spans for mapped inputs -- first.start..last.end, an empty match an empty span between its neighbours --, +1000 for map_span, the context attached for with_context), same number of errors, and for every error the same found / expected set / message / label contexts and the re-based span. Every Stream: the log shared by all clones of the iterator must read 0,1,2,.. (each item pulled at most once, in order, never more than the input holds) after parse and after check. Long family: 7 grammar shapes that backtrack from the far end to the start (choice of two long alternatives differing at the end, repetition then a failing tail, and_is over the whole input, rewind, recovery skipping to a late token, separated list, or_not prefix) with run lengths around 512, 1024 and (IoInput's BufReader) 8192. Graphemes: random strings over combining marks, ZWJ emoji sequences, regional indicators, CRLF, Hangul jamo, variation selectors: any().map_with(span).repeated().collect() over Graphemes::new(s), also behind a backtracking first alternative, must equal unicode_segmentation::graphemes(s, true) with byte-offset spans. A statically typed family runs slice captures, by-reference tokens (any_ref) and custom parsers using span_since / span_from / slice_since / slice_from / slice THROUGH with_context and map_span over &str and &[char] on every string over {a b e-acute G-clef} up to length 5 / 6: equal to the bare input after undoing the re-basing, slices being the caller's memory. The plain Stream (and half of the boxed ones) sits over an iterator whose size_hint is (0, None), like a lexer's. NON-TRIVIAL = the reference backtracked over at least one consumed token on that input (the cursor moved backwards in the representation), or (long family) the backtrack crossed a 512-token batch boundary / the IoInput had to seek backwards, or (graphemes) the string has a multi-code-point cluster; distinct by (grammar, input).";

pub const ASSUMPTIONS: &[&str] = &[
    "the &[char] baseline (tied to the reference PEG / error semantics by C01, C05, C06, C08)",
    "span re-basing tables (byte offsets, generated gapped token spans, +1000 shift, context tag)",
    "for an empty match on a token-span input any empty span between the neighbouring tokens is admissible; an error at the end of such an input may carry the eoi span",
    "unicode-segmentation as the definition of extended grapheme clusters (chumsky uses the same crate, but on suffixes of the string; the comparison is against one pass over the whole string)",
];

pub struct Base {
    pub parse: ImplOut,
    pub check: ImplOut,
}

fn err_span_ok(sm: &SpanMap, s: usize, e: usize, got: (usize, usize)) -> Result<(), String> {
    if s < e {
        return sm.check_span(s, e, got);
    }
    let n = sm.n();
    if s >= n && got == (sm.eoi.0 + sm.shift, sm.eoi.1 + sm.shift) {
        return Ok(());
    }
    sm.check_span(s, e, got)
}

fn cmp_errs(base: &[ErrDesc], got: &[ErrDesc], sm: &SpanMap, tag: u32) -> Result<(), (String, String)> {
    if base.len() != got.len() {
        return Err(("errors-count".into(), format!("{} errors but the slice baseline reports {} ({:?} vs {:?})", got.len(), base.len(), got, base)));
    }
    for (b, g) in base.iter().zip(got) {
        if b.found != g.found || b.expected != g.expected || b.custom != g.custom {
            return Err(("error-content".into(), format!("error {:?} but the slice baseline reports {:?}", g, b)));
        }
        if let Err(m) = err_span_ok(sm, b.span.0, b.span.1, g.span) {
            return Err(("error-span".into(), format!("error position differs: {} (error {:?}, baseline in token indices {:?})", m, g, b)));
        }
        if g.span_tag != tag {
            return Err(("error-span".into(), format!("error span carries context/tag {} instead of {}", g.span_tag, tag)));
        }
        if b.contexts.len() != g.contexts.len() {
            return Err(("error-content".into(), format!("label contexts {:?} vs baseline {:?}", g.contexts, b.contexts)));
        }
        for ((bl, bs), (gl, gs)) in b.contexts.iter().zip(&g.contexts) {
            if bl != gl {
                return Err(("error-content".into(), format!("label context {:?} vs baseline {:?}", gl, bl)));
            }
            if let Err(m) = err_span_ok(sm, bs.0, bs.1, *gs) {
                return Err(("error-span".into(), format!("label context span differs: {}", m)));
            }
        }
    }
    Ok(())
}

/// one input kind against the baseline; `after` is called after each run (stream pull logs)
fn one_kind<'s, I: Kind<'s>>(g: &G, mk: &dyn Fn() -> I, sm: &SpanMap, tag: u32, base: &Base, after: &dyn Fn(&str) -> Result<(), String>, l: &mut Local) -> Result<(), (String, String)> {
    let mut bld = Bld::<I, Rich<'s, I::Tok, I::Spn>>::new(g, true);
    bld.cap_spans = true;
    // BorrowInput kinds: half of the cases go through any_ref / select_ref! (the baseline uses any / select!)
    bld.borrow_prims = I::BORROW && g.size() % 2 == 1;
    let p = bld.build(g);
    BAD_CTX.with(|b| b.set(false));
    for (mode, b) in [("parse", &base.parse), ("check", &base.check)] {
        let o = if mode == "parse" { run_parse(&p, mk()) } else { run_check(&p, mk()) };
        l.evals += 1;
        if let Some(m) = &o.panic {
            return Err(("panic".into(), format!("{} panicked: {}", mode, m)));
        }
        if o.has_output != b.has_output {
            return Err(("accept".into(), format!("{}: has_output = {} but {} on the slice baseline (errors {:?} vs {:?})", mode, o.has_output, b.has_output, o.errs, b.errs)));
        }
        if let (Some(bv), Some(ov)) = (&b.out, &o.out) {
            if let Err(m) = cmp_val(bv, ov, sm, 0) {
                let sig = if m.contains("span") { "span" } else { "output" };
                return Err((sig.into(), format!("{}: output differs from the slice baseline: {} (this kind {:?}; baseline, spans in token indices, {:?})", mode, m, ov, bv)));
            }
        }
        cmp_errs(&b.errs, &o.errs, sm, tag).map_err(|(s, m)| (s, format!("{}: {}", mode, m)))?;
        after(mode).map_err(|m| ("stream-pulls".to_string(), format!("{}: {}", mode, m)))?;
    }
    if BAD_CTX.with(|b| b.get()) {
        return Err(("span".into(), "a span produced by the with_context input does not carry the context".into()));
    }
    Ok(())
}

fn pulls_ok(log: &RefCell<Option<Rc<RefCell<Vec<u32>>>>>, n: usize) -> Result<(), String> {
    let lg = log.borrow_mut().take();
    let Some(lg) = lg else { return Ok(()) };
    let v = lg.borrow();
    if v.len() > n {
        return Err(format!("the Stream pulled {} items from an iterator over {} tokens", v.len(), n));
    }
    for (i, x) in v.iter().enumerate() {
        if *x as usize != i {
            return Err(format!("the Stream's iterator (all clones) yielded item #{} as its {}-th item: items must be pulled once each, in order (log {:?})", x, i, &v[..v.len().min(20)]));
        }
    }
    Ok(())
}

pub fn gapped(n: usize, seed: u64) -> (Vec<(usize, usize)>, (usize, usize)) {
    let mut x = seed.wrapping_mul(0x9e3779b97f4a7c15) | 1;
    let mut next = |m: u64| {
        x ^= x << 13;
        x ^= x >> 7;
        x ^= x << 17;
        (x % m) as usize
    };
    let mut spans = vec![];
    let mut pos = next(3);
    for _ in 0..n {
        let w = 1 + next(2);
        spans.push((pos, pos + w));
        pos += w + [0, 0, 1, 2, 3][next(5)];
    }
    let last_end = spans.last().map(|s| s.1).unwrap_or(pos);
    let es = last_end.max(pos.min(last_end + 2));
    let eoi = match next(3) {
        0 => (last_end, last_end),
        1 => (es, es),
        _ => (es, es + 2),
    };
    (spans, eoi)
}

fn value_only(g: &G) -> bool {
    g.any_node(&|n| matches!(n, G::Any | G::OneOf(_) | G::NoneOf(_) | G::Select(_) | G::Custom { .. } | G::Ext { .. } | G::Not(_) | G::Lazy(_) | G::Recover(_, Strat::Nested { .. })))
}

pub fn check_inner(sub: &str, g: &G, toks: &[char], gap_seed: u64, l: &mut Local) -> CaseRes {
    let extra = json!({ "gap_seed": gap_seed });
    let case = || {
        let mut c = Case::new(ID, sub, g, toks);
        c.extra = extra.clone();
        c
    };
    let long = sub.starts_with("long");
    let n = toks.len();
    let v: Vec<char> = toks.to_vec();
    let sl: &[char] = &v;
    let base = {
        let mut bld = Bld::<&[char], Rich<char>>::new(g, true);
        bld.cap_spans = true;
        let p = bld.build(g);
        Base { parse: run_parse(&p, sl), check: run_check(&p, sl) }
    };
    l.evals += 2;
    if base.parse.panic.is_some() || base.check.panic.is_some() {
        l.bump("baseline_panics_left_to_C20");
        return Ok(());
    }
    let ascii = toks.iter().all(|c| c.is_ascii()) && {
        let mut a = vec![];
        g.alphabet(&mut a);
        a.iter().all(|c| c.is_ascii())
    };
    let value = value_only(g);
    let none = |_: &str| -> Result<(), String> { Ok(()) };
    let mut kinds = 0u64;
    macro_rules! kind {
        ($name:expr, $res:expr) => {{
            kinds += 1;
            if let Err((what, msg)) = $res {
                return fail(case, &format!("C10/{}/{}", $name, what), format!("input kind {}: {}", $name, msg));
            }
            l.bump(&format!("kind:{}", $name));
        }};
    }
    // &str
    let s: String = toks.iter().collect();
    let sr: &str = &s;
    let sm_str = SpanMap::for_str(toks);
    kind!("str", one_kind::<&str>(g, &|| sr, &sm_str, 0, &base, &none, l));
    // &str.with_context(ctx)
    kind!("with_context", one_kind::<WithCtxStr>(g, &|| sr.with_context::<CtxSpan>(CTX_TAG), &sm_str, CTX_TAG, &base, &none, l));
    // slice.map_span(+1000)
    let mut sm_shift = SpanMap::for_index(n, 1);
    sm_shift.shift = SHIFT;
    kind!("map_span", one_kind::<MapSpanSlice>(g, &|| map_span_slice(sl), &sm_shift, 7, &base, &none, l));
    // &[char; N]
    let sm_idx = SpanMap::for_index(n, 1);
    macro_rules! arr {
        ($($n:literal),*) => {
            match n {
                $($n => {
                    let a: &[char; $n] = sl.try_into().unwrap();
                    kind!("array", one_kind::<&[char; $n]>(g, &|| a, &sm_idx, 0, &base, &none, l));
                })*
                _ => {}
            }
        };
    }
    arr!(0, 1, 2, 3, 4, 5, 6, 8);
    // streams over the counting iterator
    let log: RefCell<Option<Rc<RefCell<Vec<u32>>>>> = RefCell::new(None);
    let mk_iter = || {
        let it = CountIter::new(toks);
        *log.borrow_mut() = Some(it.log.clone());
        it
    };
    // the plain (and the boxed) Stream over an iterator that, like a lexer, cannot say how many items are left
    let mk_loose = || {
        let it = CountIter::loose(toks);
        *log.borrow_mut() = Some(it.log.clone());
        it
    };
    let after = |_: &str| pulls_ok(&log, n);
    kind!("stream", one_kind::<CountStream>(g, &|| Stream::from_iter(mk_loose()), &sm_idx, 0, &base, &after, l));
    kind!("stream_boxed", one_kind::<BoxStream>(g, &|| if n % 2 == 0 { Stream::from_iter(mk_loose()).boxed() } else { Stream::from_iter(mk_iter()).boxed() }, &sm_idx, 0, &base, &after, l));
    kind!("stream_exact_size_boxed", one_kind::<BoxExactStream>(g, &|| Stream::from_iter(mk_iter()).exact_size_boxed(), &sm_idx, 0, &base, &after, l));
    // token-with-span inputs (gapped spans)
    {
        let (spans, eoi) = gapped(n, gap_seed);
        let tv: Vec<SpTok> = toks.iter().zip(&spans).map(|(c, s)| (*c, SimpleSpan::from(s.0..s.1))).collect();
        let sm = SpanMap::gapped(&spans, eoi, 1);
        let tsl: &[SpTok] = &tv;
        kind!("slice_map", one_kind::<SpSlice>(g, &|| sp_slice(tsl, eoi), &sm, 0, &base, &none, l));
        kind!("stream_map", one_kind::<SpStream>(g, &|| sp_stream(&tv, eoi), &sm, 0, &base, &none, l));
        if !value {
            kind!("iter_input", one_kind::<SpIter>(g, &|| sp_iter(&tv, eoi), &sm, 0, &base, &none, l));
        }
    }
    // IoInput over a Cursor
    if ascii {
        let bytes: Vec<u8> = toks.iter().map(|c| *c as u8).collect();
        kind!("io_input", one_kind::<IoIn>(g, &|| chumsky::input::IoInput::new(std::io::Cursor::new(bytes.clone())), &sm_idx, 0, &base, &none, l));
        // the same bytes behind a header that the caller has already read: the reader is handed over at a non-zero
        // offset (a file whose magic number was consumed), so stream position != parse position
        let hdr = 1 + (gap_seed as usize % 7) * 3;
        let mut with_hdr: Vec<u8> = (0..hdr).map(|i| b"ab,()"[i % 5]).collect();
        with_hdr.extend_from_slice(&bytes);
        kind!(
            "io_input_after_header",
            one_kind::<IoIn>(
                g,
                &|| {
                    let mut c = std::io::Cursor::new(with_hdr.clone());
                    c.set_position(hdr as u64);
                    chumsky::input::IoInput::new(c)
                },
                &sm_idx,
                0,
                &base,
                &none,
                l
            )
        );
    }
    l.add("kind_comparisons", kinds);
    // classification
    let acc = base.parse.has_output && base.parse.errs.is_empty();
    l.bump(if acc { "accepted" } else if base.parse.has_output { "recovered" } else { "rejected" });
    let nontrivial = if long {
        l.bump("long_backtrack_across_batch_boundary");
        if n > 8192 && ascii {
            l.bump("long_io_seek_back_beyond_bufreader");
        }
        true
    } else {
        let r = reference::eval(g, toks, RefOpts::default());
        let bt = !r.stats.fuel_out && r.stats.partial_backtracks > 0;
        if bt {
            l.bump("backtracked_over_consumed_tokens");
        }
        if !value {
            l.bump("input_only_grammar");
        }
        if ascii {
            l.bump("ascii_case");
        }
        bt
    };
    l.note(g, toks, sub, nontrivial, || format!("kinds compared: {}; baseline has_output={} errors={}", kinds, base.parse.has_output, base.parse.errs.len()));
    Ok(())
}

// ---------------------------------------------------------------------------------------------
// Graphemes

const GR_POOL: &[&str] = &[
    "a", "b", " ", "\r", "\n", "\r\n", "e\u{301}", "\u{301}", "🇦", "🇧", "🇨", "👩", "\u{200d}", "👩\u{200d}👧", "🏽", "👍🏽", "\u{1100}", "\u{1161}", "\u{11a8}", "가", "\u{fe0f}", "❤\u{fe0f}", "\u{0903}", "\u{093e}", "\u{093f}", "\u{0e33}", "ก", "क", "\u{094d}", "ष", "\u{0600}", "é", "𝄞", "\u{1f3f4}\u{e0067}\u{e0062}\u{e007f}", "x",
];

pub fn graphemes_case(sub: &str, s: &str, l: &mut Local) -> CaseRes {
    use chumsky::text::{Grapheme, Graphemes};
    use unicode_segmentation::UnicodeSegmentation;
    let toks: Vec<char> = s.chars().collect();
    let case = || Case::new(ID, sub, &G::Empty, &toks);
    let want: Vec<(usize, usize, &str)> = s.grapheme_indices(true).map(|(i, g)| (i, i + g.len(), g)).collect();
    type E<'a> = extra::Err<Rich<'a, &'a Grapheme>>;
    let item = || any::<&Graphemes, E>().map_with(|g: &Grapheme, e| (e.span().start, e.span().end, g.as_str()));
    let plain = item().repeated().collect::<Vec<_>>();
    // the same behind a first alternative that consumes everything and then fails
    let back = item().repeated().collect::<Vec<_>>().then_ignore(any().filter(|_| false)).or(item().repeated().collect::<Vec<_>>());
    // and item by item with lookahead rewinding over each cluster
    let look = item().rewind().ignore_then(item()).repeated().collect::<Vec<_>>();
    for (name, got) in [
        ("plain", quietly(|| plain.parse(Graphemes::new(s)).into_output_errors())),
        ("after-backtrack", quietly(|| back.parse(Graphemes::new(s)).into_output_errors())),
        ("under-rewind", quietly(|| look.parse(Graphemes::new(s)).into_output_errors())),
    ] {
        l.evals += 1;
        match got {
            Err(_) => return fail(case, "C10/graphemes/panic", format!("Graphemes input ({}) panicked on {:?}", name, s)),
            Ok((out, errs)) => {
                if !errs.is_empty() || out.as_ref() != Some(&want) {
                    return fail(case, "C10/graphemes/clusters", format!("Graphemes input ({}) on {:?} yields {:?} (errors: {}) but the extended grapheme clusters are {:?}", name, s, out, errs.len(), want));
                }
            }
        }
    }
    let multi = want.iter().any(|(_, _, g)| g.chars().count() > 1);
    l.bump("graphemes_cases");
    if multi {
        l.bump("graphemes_multi_code_point_cluster");
    }
    l.note(&G::Empty, &toks, sub, multi, || format!("{} clusters", want.len()));
    Ok(())
}

// ---------------------------------------------------------------------------------------------


// ---------------------------------------------------------------------------------------------
// wrapped inputs, statically typed: slices, by-reference tokens and the InputRef span / slice methods THROUGH
// with_context / map_span / Input::map. The wrappers forward SliceInput, BorrowInput and ExactSizeInput to the wrapped
// input; results must equal those on the bare input up to the documented re-basing of spans.

trait SliceLike {
    fn ptr_len(&self) -> (usize, usize);
}
impl SliceLike for &str {
    fn ptr_len(&self) -> (usize, usize) {
        (self.as_ptr() as usize, self.len())
    }
}
impl<T> SliceLike for &[T] {
    fn ptr_len(&self) -> (usize, usize) {
        (self.as_ptr() as usize, self.len())
    }
}
/// one observation: (what, span start, span end, slice address - buffer address, slice length)
type WObs = (u8, usize, usize, usize, usize);

fn wrap_family<'a, I>(base: usize, unspan: fn(I::Span) -> (usize, usize)) -> Vec<(&'static str, chumsky::Boxed<'a, 'a, I, Vec<WObs>, chumsky::extra::Err<chumsky::error::Cheap<I::Span>>>)>
where
    I: chumsky::input::ValueInput<'a, Token = char> + chumsky::input::SliceInput<'a> + chumsky::input::ExactSizeInput<'a> + 'a,
    I::Slice: SliceLike + 'a,
    I::Span: 'a,
{
    use chumsky::prelude::*;
    type E<'a, I> = chumsky::extra::Err<chumsky::error::Cheap<<I as chumsky::input::Input<'a>>::Span>>;
    let ob = move |k: u8, sp: I::Span, sl: I::Slice| -> WObs {
        let (a, b) = unspan(sp);
        let (p, n) = sl.ptr_len();
        (k, a, b, p.wrapping_sub(base), n)
    };
    vec![
        (
            "any().then(any().or_not()).to_slice() per item",
            any::<I, E<'a, I>>().then(any().or_not()).to_slice().map_with(move |sl: I::Slice, e| ob(1, e.span(), sl)).repeated().collect::<Vec<WObs>>().boxed(),
        ),
        (
            "a-run.to_slice(), rest.to_slice(), map_with(e.slice()) around both",
            just::<_, I, E<'a, I>>('a')
                .repeated()
                .to_slice()
                .map_with(move |sl: I::Slice, e| ob(2, e.span(), sl))
                .then(any().repeated().to_slice().map_with(move |sl: I::Slice, e| ob(3, e.span(), sl)))
                .map_with(move |(x, y), e| vec![x, y, ob(4, e.span(), e.slice())])
                .boxed(),
        ),
        (
            "custom: next(), then slice_since / slice_from / span_since / span_from",
            custom::<_, I, Vec<WObs>, E<'a, I>>(move |inp| {
                let c0 = inp.cursor();
                let _ = inp.next();
                let c1 = inp.cursor();
                let _ = inp.next();
                let s01 = inp.span_since(&c0);
                let s1e = inp.span_from(&c1..);
                let s0e = inp.span_from(&c0..);
                let a = inp.slice_since(&c0..);
                let b = inp.slice_from(&c1..);
                let c = inp.slice(&c0..&c1);
                Ok(vec![ob(5, s01, a), ob(6, s1e, b), ob(7, s0e, c)])
            })
            .then_ignore(any().repeated())
            .boxed(),
        ),
    ]
}

fn wrappers_case(s: &str, l: &mut Local) -> CaseRes {
    use chumsky::input::Input as _;
    use chumsky::Parser;
    let toks: Vec<char> = s.chars().collect();
    let case = |name: &str, kind: &str| {
        let mut c = Case::new(ID, "wrappers-static", &G::Empty, &toks);
        c.extra = serde_json::json!({ "parser": name, "kind": kind });
        c
    };
    fn plain(sp: SimpleSpan) -> (usize, usize) {
        (sp.start, sp.end)
    }
    fn ctxd(sp: CtxSpan) -> (usize, usize) {
        assert_eq!(sp.context, CTX_TAG, "the span of a with_context input carries the context");
        (sp.start, sp.end)
    }
    fn shifted(sp: Shifted) -> (usize, usize) {
        (sp.0.wrapping_sub(SHIFT), sp.1.wrapping_sub(SHIFT))
    }
    fn shift_s(sp: SimpleSpan) -> Shifted {
        Shifted(sp.start + SHIFT, sp.end + SHIFT)
    }
    macro_rules! runfam {
        ($fam:expr, $mk:expr) => {{
            let fam = $fam;
            let mut outs = vec![];
            for (name, p) in fam.iter() {
                let r = quietly(|| (p.parse($mk).into_output(), p.check($mk).has_output()));
                l.evals += 2;
                outs.push((*name, r.ok()));
            }
            outs
        }};
    }
    macro_rules! compare {
        ($kind:expr, $base:expr, $got:expr) => {{
            for ((name, b), (_, g)) in $base.iter().zip($got.iter()) {
                if b != g || b.is_none() {
                    return Err((case(name, $kind), Fail::new(&format!("C10/{}/wrapped-slices", $kind), format!("{} over {} on {:?}: (parse output, check accepts) = {:?}; on the bare input {:?} [observations: (site, span start, span end, slice offset in the caller's buffer, slice length), spans after undoing the documented re-basing]", name, $kind, s, g, b))));
                }
                l.bump("wrapped_input_comparisons");
            }
        }};
    }
    // text
    let sp = s.as_ptr() as usize;
    let b_str = runfam!(wrap_family::<&str>(sp, plain), s);
    let g1 = runfam!(wrap_family::<WithCtxStr>(sp, ctxd), s.with_context::<CtxSpan>(CTX_TAG));
    compare!("str.with_context", b_str, g1);
    let g2 = runfam!(wrap_family::<chumsky::input::MappedSpan<Shifted, &str, fn(SimpleSpan) -> Shifted>>(sp, shifted), s.map_span(shift_s as fn(SimpleSpan) -> Shifted));
    compare!("str.map_span", b_str, g2);
    // slices of tokens
    let sl: &[char] = &toks;
    let bp = sl.as_ptr() as usize;
    let b_sl = runfam!(wrap_family::<&[char]>(bp, plain), sl);
    let g3 = runfam!(wrap_family::<chumsky::input::WithContext<CtxSpan, &[char]>>(bp, ctxd), sl.with_context::<CtxSpan>(CTX_TAG));
    compare!("slice.with_context", b_sl, g3);
    let g4 = runfam!(wrap_family::<MapSpanSlice>(bp, shifted), map_span_slice(sl));
    compare!("slice.map_span", b_sl, g4);
    // by-reference tokens through the wrappers
    {
        use chumsky::prelude::*;
        type EW<'a> = chumsky::extra::Err<chumsky::error::Cheap<CtxSpan>>;
        type EM<'a> = chumsky::extra::Err<chumsky::error::Cheap<Shifted>>;
        type EP<'a> = chumsky::extra::Err<chumsky::error::Cheap<SimpleSpan>>;
        let want: Vec<(char, usize, usize)> = toks.iter().enumerate().map(|(i, c)| (*c, i, i + 1)).collect();
        let p0 = any_ref::<&[char], EP>().map_with(|t: &char, e| { let sp: SimpleSpan = e.span(); (*t, sp.start, sp.end) }).repeated().collect::<Vec<_>>();
        let p1 = any_ref::<chumsky::input::WithContext<CtxSpan, &[char]>, EW>().map_with(|t: &char, e| { let sp = ctxd(e.span()); (*t, sp.0, sp.1) }).repeated().collect::<Vec<_>>();
        let p2 = any_ref::<MapSpanSlice, EM>().map_with(|t: &char, e| { let sp = shifted(e.span()); (*t, sp.0, sp.1) }).repeated().collect::<Vec<_>>();
        let r = quietly(|| (p0.parse(sl).into_output(), p1.parse(sl.with_context::<CtxSpan>(CTX_TAG)).into_output(), p2.parse(map_span_slice(sl)).into_output()));
        l.evals += 3;
        match r {
            Ok((a, b, c)) if a.as_ref() == Some(&want) && b.as_ref() == Some(&want) && c.as_ref() == Some(&want) => l.bump("wrapped_input_comparisons"),
            other => return Err((case("any_ref().map_with(span).repeated()", "slice wrappers"), Fail::new("C10/wrapped-borrow", format!("tokens by reference on {:?}: bare / with_context / map_span give {:?}, expected {:?} three times", s, other.ok(), want)))),
        }
    }
    Ok(())
}

pub fn check_case(case: &Case, l: &mut Local) -> Result<(), Fail> {
    if case.sub.starts_with("graphemes") {
        return graphemes_case(&case.sub, &case.input, l).map_err(|(_, f)| f);
    }
    if case.sub == "wrappers-static" {
        return wrappers_case(&case.input, l).map_err(|(_, f)| f);
    }
    let seed = case.extra.get("gap_seed").and_then(|p| p.as_u64()).unwrap_or(1);
    check_inner(&case.sub, &case.g, &case.toks(), seed, l).map_err(|(_, f)| f)
}

pub fn cfg(value: bool, ascii: bool) -> GenCfg {
    let mut c = GenCfg::c02();
    c.recover = true;
    c.nested_delims = true;
    c.validate = true;
    c.spans = true;
    c.fold_with = true;
    c.ascii_only = ascii;
    if !value {
        c.value_input = false;
        c.custom = false;
        c.not = false;
        c.nested_delims = false;
    }
    c
}

pub fn decode(tape: &[u32]) -> (G, Vec<char>, u64) {
    let mut t = Tape::new(tape);
    let value = !t.chance(1, 4);
    let ascii = t.chance(1, 2);
    let seed = t.raw() as u64 + 1;
    let (g, alpha) = {
        let mut gg = GGen::new(&mut t, cfg(value, ascii));
        let d = 2 + gg.t.pick(4) as u32;
        let g = gg.gen(d, false);
        (g, gg.alpha.clone())
    };
    let input = gen_input(&g, &mut t, &alpha, 10);
    (g, input, seed)
}

fn rep(item: G, lo: u8, hi: Option<u8>, sink: Sink) -> G {
    G::Rep(Rep { item: b(item), sep: None, leading: false, trailing: false, lo, hi, sink, cfg: false, ctxb: 0 })
}

/// grammar shapes that run to the far end of a long input and come back
pub fn long_templates() -> Vec<(&'static str, G)> {
    let j = |s: &str| G::Just(s.into());
    let run = |s: &str| rep(j(s), 0, None, Sink::Count);
    vec![
        // two long alternatives that differ only at the very end
        ("choice-of-two-long-alternatives", G::Or(b(G::Then(b(run("a")), b(j("x")))), b(G::Then(b(run("a")), b(G::ToSpan(b(j("y")))))))),
        // a repetition of two-token items, a failing tail, then the whole thing again item by item
        ("repetition-then-failing-tail", G::Or(b(G::Then(b(run("ab")), b(j("!")))), b(G::Then(b(rep(G::OneOf("ab".into()), 0, None, Sink::Count)), b(G::OrNot(b(j("y")))))))),
        // and_is: both sides walk the whole input
        ("and_is-over-the-whole-input", G::Then(b(G::AndIs(b(rep(G::Any, 0, None, Sink::Count)), b(G::Then(b(run("a")), b(j("y")))))), b(G::End))),
        // rewind over everything, then parse it
        ("rewind-over-everything", G::Then(b(G::Rewind(b(G::Then(b(run("a")), b(G::MapSpan(b(j("y")))))))), b(G::Then(b(run("a")), b(j("y")))))),
        // recovery that skips from the start to a late token
        ("recovery-skips-to-a-late-token", G::Then(b(G::Recover(b(G::Then(b(j("a")), b(j("x")))), Strat::SkipUntil { skip: b(G::Any), until: b(j("y")), tag: 5 })), b(G::End))),
        // separated list with a trailing failure
        ("separated-list", G::Or(b(G::Then(b(G::Rep(Rep { item: b(j("a")), sep: Some(b(j("a"))), leading: false, trailing: false, lo: 0, hi: None, sink: Sink::Count, cfg: false, ctxb: 0 })), b(j("x")))), b(G::Then(b(run("a")), b(j("y")))))),
        // optional long prefix that fails at its end
        ("or_not-long-prefix", G::Then(b(G::OrNot(b(G::Then(b(run("a")), b(j("x")))))), b(G::Then(b(run("a")), b(G::ToSpan(b(j("y")))))))),
    ]
}

fn long_input(k: usize, shape: usize) -> Vec<char> {
    let mut v: Vec<char> = match shape {
        1 => "ab".chars().cycle().take(k & !1).collect(),
        _ => std::iter::repeat('a').take(k).collect(),
    };
    v.push('y');
    v
}

pub fn run(tier: Tier, seed: u64) -> i32 {
    let ctx = Ctx::new(ID, tier, seed);
    ctx.replay_corpus(&check_case);
    // wrapped inputs (slices, by-reference tokens, span_from / slice_from through with_context / map_span): every short string
    {
        let wstrings: Vec<String> = all_strings(&['a', 'b', 'é', '𝄞'], ctx.pick(5, 6)).into_iter().map(|v| v.into_iter().collect()).collect();
        let wchunks: Vec<&[String]> = wstrings.chunks(64).collect();
        ctx.par_jobs(&wchunks, |ch, l| {
            for s in ch.iter() {
                wrappers_case(s, l)?;
            }
            Ok(())
        });
    }
    // exhaustive small tier: small grammars x all strings
    let strings = all_strings(&['a', 'b', 'c'], ctx.pick(4, 5));
    let smalls: Vec<G> = small_grammars(true).into_iter().step_by(ctx.pick(7, 2)).collect();
    ctx.with_local(|l| {
        l.add("small_grammars", smalls.len() as u64);
        l.add("strings_per_small_grammar", strings.len() as u64);
    });
    ctx.par_jobs(&smalls, |g, l| {
        for (i, s) in strings.iter().enumerate() {
            check_inner("short-small", g, s, 1 + (i as u64 % 5), l)?;
        }
        Ok(())
    });
    // random tier
    let n = ctx.pick(600_000, 5_000_000);
    ctx.par_random(n, 200, 10, |tape, l| {
        let (g, input, seed) = decode(tape);
        debug_assert!(wf(&g), "ill-formed: {}", render(&g));
        check_inner("short-random", &g, &input, seed, l)
    });
    // long family
    let ks: Vec<usize> = if ctx.quick() {
        vec![510, 511, 512, 513, 1023, 1024, 1025, 8191, 8193]
    } else {
        (505..520).chain(1018..1030).chain(1530..1540).chain([2047, 2048, 2049, 4096, 8190, 8191, 8192, 8193, 8194, 16384, 16385]).collect()
    };
    let lt = long_templates();
    let mut jobs: Vec<(usize, usize)> = vec![];
    for ti in 0..lt.len() {
        for k in &ks {
            jobs.push((ti, *k));
        }
    }
    ctx.par_jobs(&jobs, |&(ti, k), l| {
        let (name, g) = &lt[ti];
        let input = long_input(k, ti);
        l.bump(&format!("long:{}", name));
        check_inner(&format!("long-{}", name), g, &input, 1 + k as u64, l)
    });
    // graphemes
    let n = ctx.pick(40_000, 1_000_000);
    ctx.par_random(n, 16, 11, |tape, l| {
        let mut t = Tape::new(tape);
        let k = t.pick(9);
        let mut s = String::new();
        for _ in 0..k {
            s.push_str(GR_POOL[t.pick(GR_POOL.len())]);
        }
        graphemes_case("graphemes-random", &s, l)
    });
    ctx.finish(&check_case, RULE, ASSUMPTIONS, &|l| {
        for k in ["wrapped_input_comparisons", 
            "kind:str", "kind:with_context", "kind:map_span", "kind:array", "kind:stream", "kind:stream_boxed", "kind:stream_exact_size_boxed", "kind:slice_map", "kind:stream_map", "kind:iter_input", "kind:io_input", "kind:io_input_after_header",
            "backtracked_over_consumed_tokens", "long_backtrack_across_batch_boundary", "long_io_seek_back_beyond_bufreader", "graphemes_multi_code_point_cluster", "accepted", "rejected", "recovered",
        ] {
            if l.counters.get(k).copied().unwrap_or(0) == 0 {
                return Err(format!("class '{}' is empty", k));
            }
        }
        Ok(())
    })
}

/// one generated case from a raw choice tape (the coverage-guided tier feeds tapes decoded from bytes)
pub fn fuzz_one(tape: &[u32], l: &mut Local) -> CaseRes {
    let (g, input, seed) = decode(tape);
    if !wf(&g) {
        return Ok(());
    }
    check_inner("short-random", &g, &input, seed, l)
}
