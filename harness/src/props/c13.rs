//! C13 -- parsers are pure values: reusable, clonable, wrapper-transparent, shareable.
//!
//! Model = a stateless function input -> result. A history of parses through one parser value and
//! handles derived from it (clone, &, Box, Rc, Arc, boxed(), Either, Cache::get at fresh lifetimes)
//! must give, at every step, what a FRESH parser gives on that input.
use super::common::*;
use crate::build::*;
use crate::driver::*;
use crate::gen::*;
use crate::grammar::*;
use crate::reference::{self, RefOpts};
use crate::run::*;
use crate::val::Val;
use chumsky::cache::{Cache, Cached};
use chumsky::error::Rich;
use chumsky::prelude::*;
use serde_json::json;
use std::rc::Rc;
use std::sync::{Arc, Barrier};

pub const ID: &str = "C13";

pub const RULE: &str = "cases = (grammar, pool of 3 inputs, history). Grammars: C01/C02/C08/C11 classes (recovery, validate emitters, memoized, recursive, internal Box/Rc/Arc/Either/boxed wrappers) built by the dynamic builder, plus a hand-written catalogue of statically typed parsers (text::*, regex, pratt, memoized, recovery, labelled). Pool: 3 of 6 generated inputs, chosen to mix accepted, rejected and recovered ones. A history is a list of steps (handle, input, parse|check); handles are derived ONCE from one parser value and kept for the whole history: the original, p.clone(), &p, Box::new, Rc::new, Arc::new, .boxed(), .boxed().boxed(), Either::Left, Either::Right, a DEEP clone (the grammar rebuilt with every node's concrete combinator replaced by its own .clone(), so every combinator's hand-written Clone impl is on the path), and Cache::get() at a fresh lifetime per step where the input text is written into ONE reused buffer (same address for every step). Per (grammar, pool): all 3^3 (quick) / 3^4 (thorough) input orders with handle and mode cycling, plus random histories of 6 steps. Oracle: the result of every step (has_output, output, every error with span / found / expected / message, and the Inspector state) equals the result a FRESH parser built from the same grammar gives on that input. Threads: every Send + Sync catalogue parser behind one Arc<dyn Parser + Send + Sync>, and a Cache shared by reference, used by 2, 4 and 8 threads that each run a generated list of (input, parse|check) 50 (quick) / 400 (thorough) times behind a start barrier; every result must equal the sequential one (real threads: the schedule is the OS's, sampled not enumerated). Configurable parsers configured through a reference ((&just).configure, (&repeated).configure) against by-value use, parse / check / value-free positions, on every string over {a b} up to length 6 / 8. One inner parser held bare, as &p, Box, Rc, Arc, boxed(), boxed().boxed(), Either::Left / Right and clone() INSIDE five grammar shapes on every string over 8 symbols up to length 3 / 4: identical outputs and errors (reason, span, contexts), parse and check. NON-TRIVIAL = a failing or recovering parse precedes a succeeding one on the same handle, or two different handles are interleaved on the same input; distinct by (grammar, pool, history).";

pub const ASSUMPTIONS: &[&str] = &[
    "a parser freshly built from the same grammar is the model (C01..C12 tie it to the reference semantics)",
    "thread schedules are sampled by running real threads; the harness does not own the scheduler (stated in DESIGN.md, C13)",
    "generated grammars are built with Boxed children (Rc), which are not Send: the thread clause is exercised on the statically typed catalogue only",
];

type RS<'s> = Rich<'s, char, chumsky::span::SimpleSpan>;
type P<'s> = BP<'s, &'s str, RS<'s>>;

/// Cached factory for a generated grammar
pub struct GC(pub G);
impl Cached for GC {
    type Parser<'src> = P<'src>;
    fn make_parser<'src>(self) -> Self::Parser<'src> {
        build::<&'src str, RS<'src>>(&self.0, false)
    }
}

fn runp<'s, Q>(p: &Q, input: &'s str, check: bool) -> ImplOut
where
    Q: Parser<'s, &'s str, Val, Ex<RS<'s>>>,
{
    let mut st = Insp::default();
    let r = quietly(|| {
        if check {
            let (o, e) = p.check_with_state(input, &mut st).into_output_errors();
            (o.map(|()| Val::Unit), e)
        } else {
            p.parse_with_state(input, &mut st).into_output_errors()
        }
    });
    match r {
        Ok((out, errs)) => ImplOut { has_output: out.is_some(), out: if check { None } else { out }, errs: errs.iter().map(|e| <RS<'s> as Er<'s, &'s str>>::desc(e)).collect(), st, panic: None },
        Err(_) => ImplOut { out: None, has_output: false, errs: vec![], st, panic: Some(LAST_PANIC.with(|p| p.borrow_mut().take()).unwrap_or_default()) },
    }
}

pub const NH: usize = 13;
pub const HANDLES: [&str; NH] = ["original", "clone", "reference", "Box", "Rc", "Arc", "boxed", "boxed.boxed", "Either::Left", "Either::Right", "Cache::get", "Cache::get(2)", "deep clone (every combinator's own Clone impl)"];

#[derive(Clone, Debug, PartialEq, serde::Serialize, serde::Deserialize)]
pub struct Step {
    pub h: u8,
    pub i: u8,
    pub check: bool,
}

fn same(a: &ImplOut, b: &ImplOut) -> bool {
    // work / rewind counters are part of Insp: equal for equal parses
    a.has_output == b.has_output && a.out == b.out && a.errs == b.errs && a.st == b.st && a.panic.is_some() == b.panic.is_some()
}

/// run one history; Err = (step index, message)
pub fn run_history(g: &G, pool: &[String], steps: &[Step], l: &mut Local) -> Result<(), (usize, String, String)> {
    // the model: a fresh parser per (input, mode)
    let fresh = |i: usize, check: bool| -> ImplOut {
        let p: P = build::<&str, RS>(g, false);
        runp(&p, pool[i].as_str(), check)
    };
    let model: Vec<[ImplOut; 2]> = (0..pool.len()).map(|i| [fresh(i, false), fresh(i, true)]).collect();
    if model.iter().any(|m| m[0].panic.is_some() || m[1].panic.is_some()) {
        l.bump("fresh_parser_panics_left_to_C20");
        return Ok(());
    }
    // determinism of the model itself (two fresh parsers agree), otherwise nothing can be concluded
    for i in 0..pool.len() {
        if !same(&fresh(i, false), &model[i][0]) {
            return Err((0, "C13/fresh-nondeterministic".into(), format!("two freshly built parsers disagree on {:?}", pool[i])));
        }
    }
    // the handles, all derived from one value and kept for the whole history
    let orig: P = build::<&str, RS>(g, false);
    let cl = orig.clone();
    let bx: Box<P> = Box::new(orig.clone());
    let rc: Rc<P> = Rc::new(orig.clone());
    let ar: Arc<P> = Arc::new(orig.clone());
    let b1 = orig.clone().boxed();
    let b2 = orig.clone().boxed().boxed();
    let el: either::Either<P, P> = either::Either::Left(orig.clone());
    let er: either::Either<P, P> = either::Either::Right(cl.clone());
    // the same grammar with every node's concrete combinator replaced by its own .clone()
    DEEP_CLONE.with(|d| d.set(true));
    let deep: P = build::<&str, RS>(g, false);
    DEEP_CLONE.with(|d| d.set(false));
    let cache: Cache<GC> = Cache::new(GC(g.clone()));
    let cache2: Cache<GC> = Cache::new(GC(g.clone()));
    let mut buf = String::with_capacity(64);
    for (k, s) in steps.iter().enumerate() {
        let i = s.i as usize % pool.len();
        let inp: &str = pool[i].as_str();
        let got = match s.h as usize % NH {
            0 => runp(&orig, inp, s.check),
            1 => runp(&cl, inp, s.check),
            2 => runp(&&orig, inp, s.check),
            3 => runp(&bx, inp, s.check),
            4 => runp(&rc, inp, s.check),
            5 => runp(&ar, inp, s.check),
            6 => runp(&b1, inp, s.check),
            7 => runp(&b2, inp, s.check),
            8 => runp(&el, inp, s.check),
            9 => runp(&er, inp, s.check),
            12 => runp(&deep, inp, s.check),
            h => {
                // Cache::get at a fresh lifetime; the text lives in one reused buffer
                buf.clear();
                buf.push_str(inp);
                let c = if h == 10 { &cache } else { &cache2 };
                runp(c.get(), buf.as_str(), s.check)
            }
        };
        l.evals += 1;
        let want = &model[i][s.check as usize];
        if let Some(m) = &got.panic {
            return Err((k, "C13/panic".into(), format!("step {} ({} on {:?}, {}) panicked: {}", k, HANDLES[s.h as usize % NH], pool[i], if s.check { "check" } else { "parse" }, m)));
        }
        if !same(&got, want) {
            let what = if got.has_output != want.has_output {
                "accept"
            } else if got.out != want.out {
                "output"
            } else if got.errs != want.errs {
                "errors"
            } else {
                "state"
            };
            return Err((
                k,
                format!("C13/history/{}", what),
                format!(
                    "step {} of the history ({} through handle '{}' on {:?}) gives output {:?} errors {:?} but a fresh parser gives output {:?} errors {:?}",
                    k,
                    if s.check { "check" } else { "parse" },
                    HANDLES[s.h as usize % NH],
                    pool[i],
                    got.out,
                    got.errs,
                    want.out,
                    want.errs
                ),
            ));
        }
    }
    Ok(())
}

fn classify(g: &G, pool: &[String], steps: &[Step], l: &mut Local) -> bool {
    // non-trivial: a failing/recovering parse precedes a succeeding one on the same handle, or two
    // different handles are interleaved on the same input
    let p: P = build::<&str, RS>(g, false);
    let res: Vec<ImplOut> = pool.iter().map(|s| runp(&p, s.as_str(), false)).collect();
    let clean = |i: usize| res[i].has_output && res[i].errs.is_empty();
    let mut nt = false;
    for (a, sa) in steps.iter().enumerate() {
        for sb in &steps[a + 1..] {
            let (ia, ib) = (sa.i as usize % pool.len(), sb.i as usize % pool.len());
            if sa.h as usize % NH == sb.h as usize % NH && !clean(ia) && clean(ib) {
                nt = true;
                l.bump("failure_then_success_on_one_handle");
            }
            if sa.h as usize % NH != sb.h as usize % NH && ia == ib {
                nt = true;
            }
        }
    }
    if res.iter().any(|r| r.has_output && !r.errs.is_empty()) {
        l.bump("pool_with_recovered_input");
    }
    if res.iter().any(|r| clean_idx(r)) && res.iter().any(|r| !r.has_output) {
        l.bump("pool_with_accepted_and_rejected");
    }
    if g.any_node(&|n| matches!(n, G::Memo(_))) {
        l.bump("grammar_with_memoized");
    }
    if g.any_node(&|n| matches!(n, G::Rec(..))) {
        l.bump("grammar_with_recursive");
    }
    nt
}
fn clean_idx(r: &ImplOut) -> bool {
    r.has_output && r.errs.is_empty()
}

fn mk_case(sub: &str, g: &G, pool: &[String], steps: &[Step]) -> Case {
    let mut c = Case::new(ID, sub, g, &[]);
    c.extra = json!({ "pool": pool, "steps": steps });
    c
}


/// wrapper independence INSIDE a grammar (statically typed): one inner parser -- it emits a non-fatal error, can fail with a
/// user-supplied error, and leaves pending expectations -- is placed in a hole of four shapes (behind a failed alternative,
/// behind an optional, in front of a failing sequence, behind a repetition) as itself, as &p, Box, Rc, Arc, boxed(),
/// boxed().boxed(), Either::Left and Either::Right: every holder must give exactly the results of the bare parser (output,
/// every error with reason, span and contexts, in parse and in check).
fn holders_case(cs: &[char], l: &mut Local) -> CaseRes {
    use chumsky::prelude::*;
    type E<'a> = extra::Err<Rich<'a, char>>;
    let s: String = cs.iter().collect();
    let s: &str = &s;
    fn inner<'a>() -> impl Parser<'a, &'a str, (char, bool), E<'a>> + Clone {
        one_of::<_, &str, E>("0123456789")
            .validate(|c: char, e, em| {
                if c > '5' {
                    em.emit(Rich::custom(e.span(), format!("big digit {}", c)));
                }
                c
            })
            .then(just('!').or_not())
            .try_map(|(c, b): (char, Option<char>), sp| if c == '9' { Err(Rich::custom(sp, "nine is not allowed")) } else { Ok((c, b.is_some())) })
            .labelled("digit-item")
    }
    fn show<T: std::fmt::Debug>(r: ParseResult<T, Rich<'_, char>>) -> String {
        let (o, e) = r.into_output_errors();
        format!("{:?} / {:?}", o, e.iter().map(|e| format!("{:?}@{:?} ctx {:?}", e.reason(), e.span(), e.contexts().collect::<Vec<_>>())).collect::<Vec<_>>())
    }
    fn shapes<'a, P: Parser<'a, &'a str, (char, bool), E<'a>> + Clone>(h: P, s: &'a str) -> Vec<String> {
        let letter = || one_of::<_, &str, E>("ab").try_map(|c: char, sp| if c == 'b' { Err(Rich::custom(sp, "b is not a letter here")) } else { Ok((c, false)) });
        let mut out = vec![];
        macro_rules! run {
            ($p:expr) => {{
                let p = $p;
                out.push(format!("parse: {} | check: {:?}", show(p.parse(s)), { let r = p.check(s); let n = r.errors().len(); (r.has_output(), n) }));
            }};
        }
        run!(letter().or(h.clone()).then_ignore(any().repeated()));
        run!(just('a').or_not().then(h.clone()).then_ignore(just(';').or_not()));
        run!(h.clone().then(just(';')));
        run!(just('a').repeated().collect::<Vec<char>>().then(h.clone()).then_ignore(end()));
        run!(h.clone().separated_by(just(',')).at_least(1).collect::<Vec<_>>());
        out
    }
    fn left<P>(p: P) -> either::Either<P, P> {
        either::Either::Left(p)
    }
    fn right<P>(p: P) -> either::Either<P, P> {
        either::Either::Right(p)
    }
    let base = shapes(inner(), s);
    l.evals += 10;
    let x = inner();
    let holders: Vec<(&str, Vec<String>)> = vec![
        ("&p", shapes(&x, s)),
        ("Box::new(p)", shapes(Box::new(inner()), s)),
        ("Rc::new(p)", shapes(Rc::new(inner()), s)),
        ("Arc::new(p)", shapes(Arc::new(inner()), s)),
        ("p.boxed()", shapes(inner().boxed(), s)),
        ("p.boxed().boxed()", shapes(inner().boxed().boxed(), s)),
        ("Either::Left(p)", shapes(left(inner()), s)),
        ("Either::Right(p)", shapes(right(inner()), s)),
        ("p.clone()", shapes(x.clone(), s)),
    ];
    for (name, got) in holders {
        l.evals += 10;
        l.bump("holder_inside_grammar_comparisons");
        for (k, (b, g)) in base.iter().zip(got.iter()).enumerate() {
            if b != g {
                let mut c = Case::new(ID, "holders", &G::Empty, cs);
                c.extra = serde_json::json!({ "holder": name, "shape": k });
                return Err((c, Fail::new("C13/holder-inside-grammar", format!("shape #{} with the inner parser held as {}: {} -- held bare: {}", k, name, g, b))));
            }
        }
    }
    Ok(())
}

/// wrapper independence for CONFIGURABLE parsers: `(&p).configure(..)` (the ConfigParser / ConfigIterParser impls for
/// references) must give what `p.configure(..)` gives, in parse, check and value-free positions (C15's static family)
fn byref_cfg_case(cs: &[char], l: &mut Local) -> CaseRes {
    let s: String = cs.iter().collect();
    for (name, by_ref, by_value) in super::c15::byref_cfg_family(&s) {
        l.evals += 4;
        l.bump("configure_through_a_reference_comparisons");
        if by_ref != by_value {
            let mut c = Case::new(ID, "byref-configure", &G::Empty, cs);
            c.extra = serde_json::json!({ "template": name });
            return Err((c, Fail::new("C13/configure-through-a-reference", format!("{}: through the reference: {} -- by value: {}", name, by_ref, by_value))));
        }
    }
    Ok(())
}

pub fn check_case(case: &Case, l: &mut Local) -> Result<(), Fail> {
    if case.sub == "holders" {
        return holders_case(&case.toks(), l).map_err(|(_, f)| f);
    }
    if case.sub == "byref-configure" {
        return byref_cfg_case(&case.toks(), l).map_err(|(_, f)| f);
    }
    if case.sub.starts_with("catalogue") {
        let name = case.extra.get("parser").and_then(|v| v.as_str()).unwrap_or("").to_string();
        return catalogue_history(&name, &case.input, l).map_err(|(_, f)| f);
    }
    let pool: Vec<String> = serde_json::from_value(case.extra.get("pool").cloned().unwrap_or_default()).map_err(|e| Fail::new("C13/replay", e.to_string()))?;
    let steps: Vec<Step> = serde_json::from_value(case.extra.get("steps").cloned().unwrap_or_default()).map_err(|e| Fail::new("C13/replay", e.to_string()))?;
    if pool.is_empty() {
        return Ok(());
    }
    run_history(&case.g, &pool, &steps, l).map_err(|(_, sig, msg)| Fail::new(sig, msg))
}

pub fn cfg() -> GenCfg {
    let mut c = GenCfg::c02();
    c.recover = true;
    c.nested_delims = true;
    c.validate = true;
    c.memo = true;
    c.rec = true;
    c.wraps = true;
    c.label = true;
    c
}

fn one(sub: &str, g: &G, pool: &[String], steps: &[Step], l: &mut Local) -> CaseRes {
    match run_history(g, pool, steps, l) {
        Ok(()) => Ok(()),
        Err((k, sig, msg)) => {
            // shrink the history: keep only the steps up to the failing one
            let st = &steps[..=k.min(steps.len() - 1)];
            Err((mk_case(sub, g, pool, st), Fail::new(sig, msg)))
        }
    }
}

pub fn gen_case(tape: &[u32]) -> (G, Vec<String>, Vec<Step>) {
    let mut t = Tape::new(tape);
    let (g, alpha) = {
        let mut gg = GGen::new(&mut t, cfg());
        let d = 2 + gg.t.pick(4) as u32;
        let g = gg.gen(d, false);
        (g, gg.alpha.clone())
    };
    // six candidates, keep three with different outcomes where possible
    let cands: Vec<Vec<char>> = (0..6).map(|_| gen_input(&g, &mut t, &alpha, 10)).collect();
    let strs: Vec<String> = cands.iter().map(|c| c.iter().collect()).collect();
    let p: P = build::<&str, RS>(&g, false);
    // recursive grammars can backtrack exponentially: candidates on which the reference needs many evaluations are
    // never run (class 4: not picked below unless nothing else is left, and then the caller's guard skips the case)
    let has_rec = g.any_node(&|n| matches!(n, G::Rec(..)));
    let class: Vec<u8> = strs
        .iter()
        .zip(&cands)
        .map(|(s, c)| {
            if has_rec {
                let pre = reference::eval(&g, c, RefOpts::default());
                if pre.stats.evals > 4_000 || pre.stats.fuel_out {
                    return 4;
                }
            }
            let r = runp(&p, s.as_str(), false);
            if r.panic.is_some() {
                3
            } else if r.has_output && r.errs.is_empty() {
                0
            } else if r.has_output {
                1
            } else {
                2
            }
        })
        .collect();
    let mut pool: Vec<String> = vec![];
    for want in [2u8, 0, 1, 2, 0, 1] {
        if pool.len() == 3 {
            break;
        }
        if let Some(i) = (0..6).find(|&i| class[i] == want && !pool.contains(&strs[i])) {
            pool.push(strs[i].clone());
        }
    }
    for s in &strs {
        if pool.len() < 3 && !pool.contains(s) {
            pool.push(s.clone());
        }
    }
    while pool.len() < 3 {
        pool.push(format!("{}z", pool.last().cloned().unwrap_or_default()));
    }
    let steps: Vec<Step> = (0..6).map(|_| Step { h: t.pick(NH) as u8, i: t.pick(3) as u8, check: t.chance(1, 3) }).collect();
    (g, pool, steps)
}

// ---------------------------------------------------------------------------------------------
// statically typed catalogue (Send + Sync parsers; also text / regex / pratt which the grammar AST
// does not cover)

type CE<'a> = extra::Err<Rich<'a, char>>;
pub type ArcP<'a> = Arc<dyn Parser<'a, &'a str, String, CE<'a>> + Send + Sync + 'a>;

pub const CATALOGUE: [&str; 10] = ["idents-and-ints", "backtracking-choice", "memoized", "regex-assign", "pratt", "skip-then-retry", "validate", "nested-delimiters", "labelled-map_err", "separated-flags"];

pub fn catalogue<'a>(name: &str) -> ArcP<'a> {
    use chumsky::pratt::*;
    match name {
        "idents-and-ints" => Arc::new(
            text::ident::<&str, CE>()
                .or(text::int(10))
                .padded()
                .repeated()
                .collect::<Vec<&str>>()
                .map(|v| v.join("|")),
        ),
        "backtracking-choice" => Arc::new(
            choice((
                just::<_, &str, CE>("ab").then(just('c')).to_slice(),
                just("a").then(just("bd")).to_slice(),
                just("a").then(any().repeated().at_most(2)).to_slice(),
            ))
            .then(just('!').or_not())
            .map(|(s, b): (&str, Option<char>)| format!("{}{:?}", s, b)),
        ),
        "memoized" => {
            let run = just::<_, &str, CE>('a').repeated().at_least(1).collect::<String>().memoized();
            Arc::new(run.clone().then_ignore(just('b')).or(run.clone().then_ignore(just('c'))).or(run.then_ignore(end())).map(|s| format!("run:{}", s)))
        }
        "regex-assign" => Arc::new(
            chumsky::regex::regex::<&str, CE>("[a-z]+")
                .then_ignore(just('='))
                .then(chumsky::regex::regex("[0-9]+"))
                .map(|(k, v): (&str, &str)| format!("{}={}", k, v)),
        ),
        "pratt" => {
            let atom = text::int::<&str, CE>(10).map(|s: &str| s.to_string()).padded();
            Arc::new(atom.pratt((
                infix(left(1), just('+').padded(), |l: String, _, r: String, _| format!("({}+{})", l, r)),
                infix(left(2), just('*').padded(), |l: String, _, r: String, _| format!("({}*{})", l, r)),
                infix(right(3), just('^').padded(), |l: String, _, r: String, _| format!("({}^{})", l, r)),
                prefix(4, just('-').padded(), |_, r: String, _| format!("(-{})", r)),
                postfix(5, just('!').padded(), |l: String, _, _| format!("({}!)", l)),
            )))
        }
        "skip-then-retry" => Arc::new(
            just::<_, &str, CE>('a')
                .then(just('b'))
                .to_slice()
                .recover_with(skip_then_retry_until(any().ignored(), end()))
                .repeated()
                .collect::<Vec<&str>>()
                .map(|v| v.join(",")),
        ),
        "validate" => Arc::new(
            any::<&str, CE>()
                .validate(|c: char, e, em| {
                    if c == 'x' {
                        em.emit(Rich::custom(e.span(), "no x"))
                    }
                    c
                })
                .repeated()
                .collect::<String>(),
        ),
        "nested-delimiters" => Arc::new(
            // (nested_delimiters itself is built on Recursive, which is not Send without the `sync` feature)
            just::<_, &str, CE>('a')
                .repeated()
                .collect::<String>()
                .delimited_by(just('('), just(')'))
                .recover_with(skip_until(none_of(")").ignored(), just(')').ignored(), || "<recovered>".to_string()))
                .repeated()
                .collect::<Vec<String>>()
                .map(|v| v.join(";")),
        ),
        "labelled-map_err" => Arc::new(
            just::<_, &str, CE>("let")
                .labelled("keyword")
                .then(text::ident().padded().labelled("name").as_context())
                .then(just('=').map_err(|e: Rich<char>| Rich::custom(*e.span(), "missing =")))
                .to_slice()
                .map(|s: &str| s.to_string()),
        ),
        _ => Arc::new(
            text::int::<&str, CE>(10)
                .separated_by(just(','))
                .allow_trailing()
                .collect::<Vec<&str>>()
                .then(just(';').ignore_then(text::int(10).separated_by(just(',')).allow_leading().collect::<Vec<&str>>()).or_not())
                .map(|(a, b)| format!("{:?}{:?}", a, b)),
        ),
    }
}

fn catalogue_inputs(name: &str) -> Vec<String> {
    let v: &[&str] = match name {
        "idents-and-ints" => &["foo 12 bar", "0 x9 007", "", "a-b", " é1 2"],
        "backtracking-choice" => &["abc", "abd", "abx", "abc!", "a", "abxy", "b"],
        "memoized" => &["aab", "aac", "aaa", "aad", "b", ""],
        "regex-assign" => &["abc=123", "abc=12x", "ab=1234", "ab=cdef", "x=1", "=1", "abc123"],
        "pratt" => &["1+2*3", "-1^2^3!", "1+", "1 + 2 +", "2*(3)", "7", ""],
        "skip-then-retry" => &["abab", "abxab", "xxab", "abx", "", "ba"],
        "validate" => &["abc", "axbx", "", "x"],
        "nested-delimiters" => &["(aa)(a)", "(ab)(a)", "(a[b)]a)", "((a)", "", "(a)x"],
        "labelled-map_err" => &["let x=", "let  y1 =", "lt x=", "let 1=", "let x", "letx="],
        _ => &["1,2,", "1,2;,3", "1,2,;3,", ",1", "1;", "", "1,,2"],
    };
    v.iter().map(|s| s.to_string()).collect()
}

fn canon<'a>(r: chumsky::ParseResult<String, Rich<'a, char>>) -> (Option<String>, Vec<String>) {
    let (o, e) = r.into_output_errors();
    (o, e.iter().map(|e| format!("{:?}@{:?}", e.reason(), e.span())).collect())
}
fn canon_check<'a>(r: chumsky::ParseResult<(), Rich<'a, char>>) -> (Option<String>, Vec<String>) {
    let (o, e) = r.into_output_errors();
    (o.map(|()| String::new()), e.iter().map(|e| format!("{:?}@{:?}", e.reason(), e.span())).collect())
}

/// Cached factory for catalogue parsers
pub struct CatC(pub &'static str);
impl Cached for CatC {
    type Parser<'src> = ArcP<'src>;
    fn make_parser<'src>(self) -> Self::Parser<'src> {
        catalogue(self.0)
    }
}

/// single-threaded histories over a catalogue parser: every ordered pair / triple of inputs, through
/// the Arc, a clone of the Arc, a reference, and a Cache with one reused buffer
pub fn catalogue_history(name: &str, only_input: &str, l: &mut Local) -> CaseRes {
    let sname: &'static str = CATALOGUE.iter().find(|n| **n == name).copied().unwrap_or(CATALOGUE[9]);
    let inputs = catalogue_inputs(sname);
    let case = |a: &str| {
        let mut c = Case::new(ID, "catalogue-history", &G::Empty, &a.chars().collect::<Vec<_>>());
        c.extra = json!({ "parser": sname });
        c
    };
    let fresh: Vec<[(Option<String>, Vec<String>); 2]> = inputs
        .iter()
        .map(|s| {
            let p = catalogue(sname);
            let q = catalogue(sname);
            [canon(p.parse(s.as_str())), canon_check(Parser::check(&&*q, s.as_str()))]
        })
        .collect();
    let p = catalogue(sname);
    let p2 = p.clone();
    let cache: Cache<CatC> = Cache::new(CatC(sname));
    let mut buf = String::with_capacity(64);
    let n = inputs.len();
    for a in 0..n {
        for b in 0..n {
            for (hi, h) in ["arc", "arc-clone", "reference", "cache"].iter().enumerate() {
                for (k, &i) in [a, b, a].iter().enumerate() {
                    if !only_input.is_empty() && inputs[a] != only_input && inputs[b] != only_input {
                        continue;
                    }
                    let check = (k + hi) % 3 == 2;
                    let s = inputs[i].as_str();
                    let got = quietly(|| match (*h, check) {
                        ("arc", false) => canon(p.parse(s)),
                        ("arc", true) => canon_check(Parser::check(&&*p, s)),
                        ("arc-clone", false) => canon(p2.parse(s)),
                        ("arc-clone", true) => canon_check(Parser::check(&&*p2, s)),
                        ("reference", false) => canon((&p).parse(s)),
                        ("reference", true) => canon_check(Parser::check(&&*p, s)),
                        (_, c) => {
                            buf.clear();
                            buf.push_str(s);
                            let q = cache.get();
                            if c {
                                canon_check(Parser::check(&&**q, buf.as_str()))
                            } else {
                                canon(q.parse(buf.as_str()))
                            }
                        }
                    });
                    l.evals += 1;
                    let want = &fresh[i][check as usize];
                    match got {
                        Err(_) => return Err((case(&inputs[a]), Fail::new("C13/panic", format!("catalogue parser {} panicked on {:?}", sname, s)))),
                        Ok(g) => {
                            if &g != want {
                                return Err((
                                    case(&inputs[a]),
                                    Fail::new(
                                        "C13/catalogue-history",
                                        format!("catalogue parser '{}' through {}: after parsing {:?} then {:?}, step {} ({} of {:?}) gives {:?} but a fresh parser gives {:?}", sname, h, inputs[a], inputs[b], k, if check { "check" } else { "parse" }, s, g, want),
                                    ),
                                ));
                            }
                        }
                    }
                }
            }
        }
    }
    l.bump("catalogue_histories");
    Ok(())
}

/// real threads sharing one Arc<dyn Parser + Send + Sync> and one Cache
fn threads(ctx: &Ctx, name: &'static str, nthreads: usize, reps: usize, l: &mut Local) -> CaseRes {
    let inputs = catalogue_inputs(name);
    let fresh: Vec<[(Option<String>, Vec<String>); 2]> = inputs
        .iter()
        .map(|s| {
            let p = catalogue(name);
            [canon(p.parse(s.as_str())), canon_check(Parser::check(&&*p, s.as_str()))]
        })
        .collect();
    let shared: ArcP = catalogue(name);
    let cache: Cache<CatC> = Cache::new(CatC(name));
    let barrier = Barrier::new(nthreads);
    let bad: std::sync::Mutex<Option<String>> = std::sync::Mutex::new(None);
    let count = std::sync::atomic::AtomicU64::new(0);
    std::thread::scope(|sc| {
        for t in 0..nthreads {
            let (shared, cache, barrier, bad, fresh, inputs, count) = (&shared, &cache, &barrier, &bad, &fresh, &inputs, &count);
            let seed = ctx.seed;
            sc.spawn(move || {
                crate::run::install_panic_hook();
                let mine = shared.clone();
                let mut x = (seed ^ (t as u64 + 1).wrapping_mul(0x9e3779b97f4a7c15)) | 1;
                barrier.wait();
                let mut n = 0u64;
                for _ in 0..reps {
                    for _ in 0..inputs.len() {
                        x ^= x << 13;
                        x ^= x >> 7;
                        x ^= x << 17;
                        let i = (x % inputs.len() as u64) as usize;
                        let check = (x >> 20) % 3 == 0;
                        let via_cache = (x >> 24) % 4 == 0;
                        let s = inputs[i].as_str();
                        let got = quietly(|| {
                            if via_cache {
                                // a fresh lifetime per use: the text is this thread's own copy
                                let owned: String = inputs[i].clone();
                                let q = cache.get();
                                if check {
                                    canon_check(Parser::check(&&**q, owned.as_str()))
                                } else {
                                    canon(q.parse(owned.as_str()))
                                }
                            } else if check {
                                canon_check(Parser::check(&&*mine, s))
                            } else {
                                canon(mine.parse(s))
                            }
                        });
                        n += 1;
                        let ok = matches!(&got, Ok(g) if g == &fresh[i][check as usize]);
                        if !ok {
                            let mut b = bad.lock().unwrap();
                            if b.is_none() {
                                *b = Some(format!("thread {} of {}: {} of {:?} via {} gives {:?} but sequential use gives {:?}", t, nthreads, if check { "check" } else { "parse" }, inputs[i], if via_cache { "Cache::get" } else { "Arc clone" }, got.ok(), fresh[i][check as usize]));
                            }
                            return;
                        }
                    }
                }
                count.fetch_add(n, std::sync::atomic::Ordering::Relaxed);
            });
        }
    });
    l.evals += count.load(std::sync::atomic::Ordering::Relaxed);
    l.add("threaded_parses", count.load(std::sync::atomic::Ordering::Relaxed));
    l.bump(&format!("threads:{}", nthreads));
    if let Some(m) = bad.into_inner().unwrap() {
        let mut c = Case::new(ID, "catalogue-threads", &G::Empty, &[]);
        c.extra = json!({ "parser": name, "threads": nthreads });
        return Err((c, Fail::new("C13/threads", format!("catalogue parser '{}': {}", name, m))));
    }
    Ok(())
}

pub fn run(tier: Tier, seed: u64) -> i32 {
    let ctx = Ctx::new(ID, tier, seed);
    ctx.replay_corpus(&check_case);
    // generated grammars: exhaustive input orders + random histories
    let n = ctx.pick(100_000, 600_000);
    let olen = ctx.pick(3, 4);
    ctx.par_random(n, 260, 13, |tape, l| {
        let (g, pool, steps) = gen_case(tape);
        debug_assert!(wf(&g));
        if pool.iter().any(|s| too_expensive(&g, &s.chars().collect::<Vec<_>>(), 4_000, l)) {
            return Ok(());
        }
        // all orders of the pool, handle and mode cycling with the order index
        let total = 3usize.pow(olen as u32);
        for o in 0..total {
            let mut st = vec![];
            let mut x = o;
            for k in 0..olen {
                st.push(Step { h: ((o * 5 + k * 7) % NH) as u8, i: (x % 3) as u8, check: (o + k) % 4 == 3 });
                x /= 3;
            }
            one("orders", &g, &pool, &st, l)?;
        }
        l.add("exhaustive_order_histories", total as u64);
        one("random-history", &g, &pool, &steps, l)?;
        let nt = classify(&g, &pool, &steps, l);
        let toks: Vec<char> = pool.join("\u{1}").chars().collect();
        l.note(&g, &toks, "random-history", nt, || format!("pool {:?}, history {:?}", pool, steps.iter().map(|s| format!("{}:{}{}", HANDLES[s.h as usize % NH], s.i, if s.check { "c" } else { "p" })).collect::<Vec<_>>()));
        Ok(())
    });
    // configurable parsers configured through a reference, every short string
    {
        let strings = all_strings(&['a', 'b'], ctx.pick(6, 8));
        let chunks: Vec<&[Vec<char>]> = strings.chunks(32).collect();
        ctx.par_jobs(&chunks, |chunk, l| {
            for cs in chunk.iter() {
                byref_cfg_case(cs, l)?;
            }
            Ok(())
        });
    }
    // one inner parser held in every wrapper INSIDE four grammar shapes, every short string
    {
        let strings = all_strings(&['a', 'b', '3', '7', '9', '!', ';', ','], ctx.pick(3, 4));
        let chunks: Vec<&[Vec<char>]> = strings.chunks(16).collect();
        ctx.par_jobs(&chunks, |chunk, l| {
            for cs in chunk.iter() {
                holders_case(cs, l)?;
            }
            Ok(())
        });
    }
    // catalogue: single-threaded histories
    let names: Vec<&'static str> = CATALOGUE.to_vec();
    ctx.par_jobs(&names, |name, l| catalogue_history(name, "", l));
    // catalogue: real threads (sequential over parsers so that the thread counts are what they say)
    let reps = ctx.pick(50, 400);
    let mut l = Local::default();
    for name in &names {
        for nt in [2usize, 4, 8] {
            if ctx.stopped() {
                break;
            }
            let r = threads(&ctx, name, nt, reps, &mut l);
            ctx.judge(&mut l, r);
        }
    }
    ctx.with_local(|acc| {
        acc.evals += l.evals;
        for (k, v) in &l.counters {
            acc.add(k, *v);
        }
    });
    ctx.finish(&check_case, RULE, ASSUMPTIONS, &|l| {
        for k in ["configure_through_a_reference_comparisons", "failure_then_success_on_one_handle", "pool_with_recovered_input", "pool_with_accepted_and_rejected", "grammar_with_memoized", "grammar_with_recursive", "catalogue_histories", "threads:2", "threads:8", "threaded_parses"] {
            if l.counters.get(k).copied().unwrap_or(0) == 0 {
                return Err(format!("class '{}' is empty", k));
            }
        }
        Ok(())
    })
}
