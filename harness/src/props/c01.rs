//! C01 -- combinators implement PEG semantics (sequence, ordered choice, option, lookahead).
use super::common::*;
use crate::build::*;
use crate::compare::*;
use crate::driver::*;
use crate::gen::*;
use crate::grammar::*;
use crate::reference::RefOut;
use crate::run::*;
use chumsky::error::EmptyErr;

pub const ID: &str = "C01";

pub const RULE: &str = "cases = (grammar, input): (a) bounded-exhaustive tier: every tree of <= 3 combinator nodes over 5 primitives x every string over {a,b,c} up to length L (L=4 quick, 6 thorough); (b) random tier: grammars decoded from proptest choice tapes (C01 class: all primitives incl. select/custom/end/empty, then/ignore_then/then_ignore/group tuple+array, or/choice tuple+Vec+array, or_not, not, and_is, rewind, delimited_by, padded_by, map/to/ignored/unwrapped, filter/try_map/try_map_with; depth <= 5, <= 25 nodes, 2..4 symbols of {a b c , ( ) é → 𝄞}) with 60% derived sentences (+0..2 edits) and 40% random strings, on &str and &[char]. Each case runs parse+check with Rich and EmptyErr, the plain and the observed (every node wrapped in map_with(span)) build, and g.then(rest). NON-TRIVIAL = the reference abandoned or rewound at least one attempt (alternative, optional, lookahead, and_is) after it had consumed input, or a filter/try_map rejected; distinct = distinct (sub-check, grammar, input).";

pub const ASSUMPTIONS: &[&str] = &[
    "the reference PEG evaluator (harness/src/reference.rs) is the oracle; it was written from the PEG definitions, not from chumsky's code",
    "proptest's ChaCha RNG seeded from VERIF_SEED drives every random choice; shrinking is structural (harness/src/driver.rs)",
    "children of every node are reached through Boxed (dyn Parser); the statically typed catalogue (C01 sub-check 'static') covers non-boxed monomorphisations for ~40 templates only",
];

fn differential<'s, I: Kind<'s> + Clone>(
    sub: &str,
    g: &G,
    toks: &[char],
    mk: &dyn Fn() -> I,
    sm: &SpanMap,
    base: usize,
    r_plain: &RefOut,
    r_obs: &RefOut,
    l: &mut Local,
) -> CaseRes {
    let case = || Case::new(ID, sub, g, toks);
    macro_rules! bail {
        ($sig:expr, $($a:tt)*) => {
            return fail(case, $sig, format!($($a)*))
        };
    }
    // plain build, Rich
    let p = build::<I, chumsky::error::Rich<'s, I::Tok, I::Spn>>(g, false);
    let o = run_parse(&p, mk());
    l.evals += 1;
    if let Some(m) = &o.panic {
        bail!("C01/panic", "parse panicked: {}", m);
    }
    let acc = is_clean_accept(&o);
    if acc != r_plain.accepted {
        bail!(
            "C01/accept-parse",
            "parse {} the input but the PEG reading {} it (impl output {:?}, errors {:?}; reference prefix {:?})",
            if acc { "accepts" } else { "rejects" },
            if r_plain.accepted { "accepts" } else { "rejects" },
            o.out,
            o.errs,
            r_plain.prefix
        );
    }
    if !acc && (o.has_output || o.errs.is_empty()) {
        bail!("C01/result-shape", "rejected input: has_output={} errors={:?}", o.has_output, o.errs);
    }
    if acc {
        let rv = &r_plain.prefix.as_ref().unwrap().0;
        if let Err(m) = cmp_val(rv, o.out.as_ref().unwrap(), sm, base) {
            bail!("C01/value", "output differs from the PEG reading: {} (impl {:?}, reference {:?})", m, o.out, rv);
        }
    }
    let c = run_check(&p, mk());
    l.evals += 1;
    if let Some(m) = &c.panic {
        bail!("C01/panic", "check panicked: {}", m);
    }
    if is_clean_accept(&c) != r_plain.accepted {
        bail!("C01/accept-check", "check {} but the PEG reading {}", c.has_output, r_plain.accepted);
    }
    // zero-sized error type: separate fast paths in the failure bookkeeping
    let pe = build::<I, EmptyErr>(g, false);
    let oe = run_parse(&pe, mk());
    let ce = run_check(&pe, mk());
    l.evals += 2;
    if oe.panic.is_none() && ce.panic.is_none() {
        if is_clean_accept(&oe) != r_plain.accepted || is_clean_accept(&ce) != r_plain.accepted {
            bail!(
                "C01/accept-emptyerr",
                "with EmptyErr parse/check accept = {}/{} but the PEG reading = {}",
                is_clean_accept(&oe),
                is_clean_accept(&ce),
                r_plain.accepted
            );
        }
        if is_clean_accept(&oe) {
            let rv = &r_plain.prefix.as_ref().unwrap().0;
            if let Err(m) = cmp_val(rv, oe.out.as_ref().unwrap(), sm, base) {
                bail!("C01/value-emptyerr", "output with EmptyErr differs: {}", m);
            }
        }
    } else {
        // panics with zero-sized errors are C20's business (known finding F8); counted here
        l.bump("emptyerr_panics_left_to_C20");
    }
    // observed build: the consumed extent of every sub-parser on the successful path
    let po = build::<I, chumsky::error::Rich<'s, I::Tok, I::Spn>>(g, true);
    let oo = run_parse(&po, mk());
    l.evals += 1;
    if let Some(m) = &oo.panic {
        bail!("C01/panic", "observed parse panicked: {}", m);
    }
    if is_clean_accept(&oo) != r_obs.accepted {
        bail!("C01/accept-observed", "wrapping nodes in map_with changed acceptance: {} vs {}", is_clean_accept(&oo), r_obs.accepted);
    }
    if r_obs.accepted {
        let rv = &r_obs.prefix.as_ref().unwrap().0;
        let iv = oo.out.as_ref().unwrap();
        if let Err(m) = cmp_val(rv, iv, sm, base) {
            bail!("C01/extent", "consumed extent of a sub-parser differs from the PEG reading: {} (impl {:?}, reference {:?})", m, iv, rv);
        }
    }
    Ok(())
}

pub fn check_case(case: &Case, l: &mut Local) -> Result<(), Fail> {
    check_inner(&case.sub, &case.g, &case.toks(), l).map_err(|(_, f)| f)
}

fn check_inner(sub: &str, g: &G, toks: &[char], l: &mut Local) -> CaseRes {
    let r_plain = ref_plain(g, toks);
    if r_plain.stats.fuel_out {
        l.bump("skipped_fuel");
        return Ok(());
    }
    let r_obs = ref_obs(g, toks);
    let st = &r_plain.stats;
    let nontrivial = st.partial_backtracks > 0 || st.semantic_rejects > 0;
    l.bump(if r_plain.accepted { "accepted" } else { "rejected" });
    if st.partial_backtracks > 0 {
        l.bump("with_partial_match_backtrack");
    }
    if st.semantic_rejects > 0 {
        l.bump("with_filter_or_try_map_reject");
    }
    if toks.iter().any(|c| c.len_utf8() > 1) {
        l.bump("multi_byte_input");
    }
    l.note(g, toks, sub, nontrivial, || {
        format!("reference: accepted={} prefix={:?}", r_plain.accepted, r_plain.prefix.as_ref().map(|p| p.1))
    });
    match sub {
        "slice" | "exh-slice" => {
            let v: Vec<char> = toks.to_vec();
            let sm = SpanMap::for_index(v.len(), std::mem::size_of::<char>());
            let sl: &[char] = &v;
            differential::<&[char]>(sub, g, toks, &|| sl, &sm, sl.as_ptr() as usize, &r_plain, &r_obs, l)?;
        }
        _ => {
            let si = StrIn::new(toks);
            let s: &str = &si.s;
            differential::<&str>(sub, g, toks, &|| s, &si.sm, si.base(), &r_plain, &r_obs, l)?;
            // how much a successful prefix match consumed, observed through g.then(rest)
            let g2 = with_rest(g);
            let r2 = ref_plain(&g2, toks);
            let p2 = build::<&str, RichS>(&g2, false);
            let o2 = run_parse(&p2, s);
            l.evals += 1;
            if let Some(m) = &o2.panic {
                return fail(|| Case::new(ID, sub, g, toks), "C01/panic", format!("g.then(rest) panicked: {}", m));
            }
            if is_clean_accept(&o2) != r2.accepted {
                return fail(
                    || Case::new(ID, sub, g, toks),
                    "C01/prefix-accept",
                    format!("g.then(rest) accept={} but the PEG reading={} (errors {:?})", is_clean_accept(&o2), r2.accepted, o2.errs),
                );
            }
            if r2.accepted {
                let rv = &r2.prefix.as_ref().unwrap().0;
                if let Err(m) = cmp_val(rv, o2.out.as_ref().unwrap(), &si.sm, si.base()) {
                    return fail(
                        || Case::new(ID, sub, g, toks),
                        "C01/prefix-consumed",
                        format!("a successful prefix match consumed a different amount: {} (impl {:?}, reference {:?})", m, o2.out, rv),
                    );
                }
            }
        }
    }
    Ok(())
}

pub fn decode(tape: &[u32]) -> (G, Vec<char>, &'static str) {
    let mut t = Tape::new(tape);
    let sub = if t.chance(1, 4) { "slice" } else { "str" };
    let (g, alpha) = {
        let mut gg = GGen::new(&mut t, GenCfg::c01());
        let d = 1 + gg.t.pick(5) as u32;
        let g = gg.gen(d, false);
        (g, gg.alpha.clone())
    };
    let input = gen_input(&g, &mut t, &alpha, 12);
    (g, input, sub)
}

pub fn run(tier: Tier, seed: u64) -> i32 {
    let ctx = Ctx::new(ID, tier, seed);
    ctx.replay_corpus(&check_case);
    // bounded-exhaustive tier
    let gs = small_grammars(false);
    let strings = all_strings(&['a', 'b', 'c'], ctx.pick(4, 6));
    ctx.with_local(|l| {
        l.add("exhaustive_grammars", gs.len() as u64);
        l.add("exhaustive_strings_per_grammar", strings.len() as u64);
    });
    ctx.par_jobs(&gs, |g, l| {
        for s in &strings {
            check_inner("exh-str", g, s, l)?;
        }
        // the slice kind on a third of the strings
        for s in strings.iter().step_by(3) {
            check_inner("exh-slice", g, s, l)?;
        }
        Ok(())
    });
    ctx.exhaustive.store(false, std::sync::atomic::Ordering::Relaxed);
    // random tier
    let n = ctx.pick(40_000, 800_000);
    ctx.par_random(n, 160, 1, |tape, l| {
        let (g, input, sub) = decode(tape);
        debug_assert!(wf(&g), "generator produced an ill-formed grammar: {}", render(&g));
        check_inner(sub, &g, &input, l)
    });
    ctx.finish(&check_case, RULE, ASSUMPTIONS, &|l| {
        if l.counters.get("with_partial_match_backtrack").copied().unwrap_or(0) == 0 {
            return Err("no case with a backtrack after consumed input".into());
        }
        if l.counters.get("accepted").copied().unwrap_or(0) == 0 {
            return Err("no accepted input".into());
        }
        Ok(())
    })
}
