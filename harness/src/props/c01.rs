//! C01 -- combinators implement PEG semantics (sequence, ordered choice, option, lookahead).
use super::common::*;
use crate::build::*;
use crate::compare::*;
use crate::driver::*;
use crate::gen::*;
use crate::grammar::*;
use crate::reference::RefOut;
use crate::run::*;
use chumsky::error::EmptyErr;

pub const ID: &str = "C01";

pub const RULE: &str = "cases = (grammar, input): (a) bounded-exhaustive tier: every tree of <= 3 combinator nodes over 5 primitives, plus every single item source and every PAIR of item sources joined by then and consumed by one collect / count (or_not() / into_iter() over every tree of <= 1 combinator node: the IterParser implementations of or_not and then), x every string over {a,b,c} up to length L (L=4 quick, 6 thorough); (b) random tier: grammars decoded from proptest choice tapes (C01 class: all primitives incl. select/custom/end/empty, then/ignore_then/then_ignore/group tuple+array, or/choice tuple+Vec+array, or_not, not, and_is, rewind, delimited_by, padded_by, map/to/ignored/unwrapped, filter/try_map/try_map_with; depth <= 5, <= 25 nodes, 2..4 symbols of {a b c , ( ) é → 𝄞}) (a fifth of the grammars also contain or_not / then / into_iter used as item sources under one collect / count) with 60% derived sentences (+0..2 edits) and 40% random strings, on &str and &[char]. Each case runs parse+check with Rich and EmptyErr, the plain and the observed (every node wrapped in map_with(span)) build, and g.then(rest). NON-TRIVIAL = the reference abandoned or rewound at least one attempt (alternative, optional, lookahead, and_is) after it had consumed input, or a filter/try_map rejected; distinct = distinct (sub-check, grammar, input).";

pub const ASSUMPTIONS: &[&str] = &[
    "the reference PEG evaluator (harness/src/reference.rs) is the oracle; it was written from the PEG definitions, not from chumsky's code",
    "proptest's ChaCha RNG seeded from VERIF_SEED drives every random choice; shrinking is structural (harness/src/driver.rs)",
    "children of every node are reached through Boxed (dyn Parser); the statically typed catalogue (C01 sub-check 'static') covers non-boxed monomorphisations for ~40 templates only",
];

pub fn check_case(case: &Case, l: &mut Local) -> Result<(), Fail> {
    check_inner(&case.sub, &case.g, &case.toks(), l).map_err(|(_, f)| f)
}

fn check_inner(sub: &str, g: &G, toks: &[char], l: &mut Local) -> CaseRes {
    let kind = if sub.ends_with("slice") { "slice" } else { "str" };
    let r = peg_diff(ID, sub, kind, g, toks, l)?;
    let st = &r.stats;
    let nontrivial = st.partial_backtracks > 0 || st.semantic_rejects > 0;
    l.bump(if r.accepted { "accepted" } else { "rejected" });
    if st.partial_backtracks > 0 {
        l.bump("with_partial_match_backtrack");
    }
    if st.semantic_rejects > 0 {
        l.bump("with_filter_or_try_map_reject");
    }
    if toks.iter().any(|c| c.len_utf8() > 1) {
        l.bump("multi_byte_input");
    }
    l.note(g, toks, sub, nontrivial, || format!("reference: accepted={} prefix={:?}", r.accepted, r.prefix.as_ref().map(|p| p.1)));
    Ok(())
}

/// or_not / then / into_iter used as item sources and consumed by one collect / count: every pair of sources over
/// every tree of <= 1 combinator node
fn small_item_sources() -> Vec<G> {
    let t1: Vec<G> = small_grammars(false).into_iter().filter(|g| g.children().len() <= 1 && g.children().iter().all(|c| c.children().is_empty())).collect();
    let mut out = vec![];
    let src = |k: usize, g: &G| if k == 0 { G::OrNot(b(g.clone())) } else { G::IntoIter(b(g.clone()), 0) };
    for x in &t1 {
        for kx in 0..2 {
            out.push(G::IterThen(vec![src(kx, x)], 0));
            for y in &t1 {
                for ky in 0..2 {
                    out.push(G::IterThen(vec![src(kx, x), src(ky, y)], ((kx + ky) % 2) as u8));
                }
            }
        }
    }
    out.retain(wf);
    out
}

pub fn decode(tape: &[u32]) -> (G, Vec<char>, &'static str) {
    let mut t = Tape::new(tape);
    let sub = if t.chance(1, 4) { "slice" } else { "str" };
    let (g, alpha) = {
        // a fifth of the cases: or_not / then (and into_iter) used as ITEM SOURCES -- `a.or_not().then(b.or_not()).collect()`:
        // the IterParser implementations of the same combinators (no repetition node: that is C02's class)
        let mut cfg = GenCfg::c01();
        cfg.iter_then = t.chance(1, 5);
        let mut gg = GGen::new(&mut t, cfg);
        let d = 1 + gg.t.pick(5) as u32;
        let g = gg.gen(d, false);
        (g, gg.alpha.clone())
    };
    let input = gen_input(&g, &mut t, &alpha, 12);
    (g, input, sub)
}

pub fn run(tier: Tier, seed: u64) -> i32 {
    let ctx = Ctx::new(ID, tier, seed);
    ctx.replay_corpus(&check_case);
    // bounded-exhaustive tier
    let mut gs = small_grammars(false);
    gs.extend(small_item_sources());
    let strings = all_strings(&['a', 'b', 'c'], ctx.pick(4, 6));
    ctx.with_local(|l| {
        l.add("exhaustive_grammars", gs.len() as u64);
        l.add("exhaustive_strings_per_grammar", strings.len() as u64);
    });
    ctx.par_jobs(&gs, |g, l| {
        for s in &strings {
            check_inner("exh-str", g, s, l)?;
        }
        // the slice kind on a third of the strings
        for s in strings.iter().step_by(3) {
            check_inner("exh-slice", g, s, l)?;
        }
        Ok(())
    });
    ctx.exhaustive.store(false, std::sync::atomic::Ordering::Relaxed);
    // random tier
    let n = ctx.pick(300_000, 4_000_000);
    ctx.par_random(n, 160, 1, |tape, l| {
        let (g, input, sub) = decode(tape);
        debug_assert!(wf(&g), "generator produced an ill-formed grammar: {}", render(&g));
        check_inner(sub, &g, &input, l)
    });
    ctx.finish(&check_case, RULE, ASSUMPTIONS, &|l| {
        if l.counters.get("with_partial_match_backtrack").copied().unwrap_or(0) == 0 {
            return Err("no case with a backtrack after consumed input".into());
        }
        if l.counters.get("accepted").copied().unwrap_or(0) == 0 {
            return Err("no accepted input".into());
        }
        Ok(())
    })
}

/// one generated case from a raw choice tape (the coverage-guided tier feeds tapes decoded from bytes)
pub fn fuzz_one(tape: &[u32], l: &mut Local) -> CaseRes {
    let (g, input, sub) = decode(tape);
    if !wf(&g) {
        return Ok(());
    }
    check_inner(sub, &g, &input, l)
}
