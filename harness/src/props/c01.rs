//! C01 -- combinators implement PEG semantics (sequence, ordered choice, option, lookahead).
use super::common::*;
use crate::build::*;
use crate::compare::*;
use crate::driver::*;
use crate::gen::*;
use crate::grammar::*;
use crate::reference::RefOut;
use crate::run::*;
use chumsky::error::EmptyErr;

pub const ID: &str = "C01";

pub const RULE: &str = "cases = (grammar, input): (a) bounded-exhaustive tier: every tree of <= 3 combinator nodes over 5 primitives, plus every single item source and every PAIR of item sources joined by then and consumed by one collect / count (or_not() / into_iter() over every tree of <= 1 combinator node: the IterParser implementations of or_not and then), x every string over {a,b,c} up to length L (L=4 quick, 6 thorough); (b) random tier: grammars decoded from proptest choice tapes (C01 class: all primitives incl. select/custom/end/empty, then/ignore_then/then_ignore/group tuple+array, or/choice tuple+Vec+array, or_not, not, and_is, rewind, delimited_by, padded_by, map/to/ignored/unwrapped, filter/try_map/try_map_with; depth <= 5, <= 25 nodes, 2..4 symbols of {a b c , ( ) é → 𝄞}) (a fifth of the grammars also contain or_not / then / into_iter used as item sources under one collect / count) with 60% derived sentences (+0..2 edits) and 40% random strings, on &str and &[char]. Each case runs parse+check with Rich and EmptyErr, the plain and the observed (every node wrapped in map_with(span)) build, and g.then(rest). Statically typed families on every string over {a b c d e e-acute u-umlaut arrow} up to length 3 / 4: every Seq / OrderedSeq representation of a token set or sequence (token, &token, slice, array, &array, Vec, LinkedList, HashSet, BTreeSet, Range, RangeInclusive, RangeFrom, &str, String) against the membership predicate with the range bounds and their neighbours as tokens; custom parsers written with each InputRef method (next, next_maybe, next_ref, peek, peek_ref, skip, save / rewind, slice_since / slice_from, span_since / span_from) against their meaning; one-element choice / group tuples and the empty choice. One random case in twelve is also run on every other input representation (C10's comparison against the slice baseline). One random case in twelve also runs on every other input representation (C10's comparison; the plain / boxed Stream sits over an iterator whose size_hint is (0, None)). NON-TRIVIAL = the reference abandoned or rewound at least one attempt (alternative, optional, lookahead, and_is) after it had consumed input, or a filter/try_map rejected; distinct = distinct (sub-check, grammar, input).";

pub const ASSUMPTIONS: &[&str] = &[
    "the reference PEG evaluator (harness/src/reference.rs) is the oracle; it was written from the PEG definitions, not from chumsky's code",
    "proptest's ChaCha RNG seeded from VERIF_SEED drives every random choice; shrinking is structural (harness/src/driver.rs)",
    "children of every node are reached through Boxed (dyn Parser); the statically typed catalogue (C01 sub-check 'static') covers non-boxed monomorphisations for ~40 templates only",
];

/// the same case on every other input representation (C10's comparison against the slice baseline, which the check above
/// has just tied to the PEG reading): Stream (plain / boxed), arrays, mapped token-span inputs, IterInput, IoInput,
/// with_context, map_span
fn kinds_case(g: &G, toks: &[char], seed: u64, l: &mut Local) -> CaseRes {
    super::common::kinds_case(ID, g, toks, seed, l)
}

pub fn check_case(case: &Case, l: &mut Local) -> Result<(), Fail> {
    if case.sub == "kinds" {
        let seed = case.extra.get("gap_seed").and_then(|p| p.as_u64()).unwrap_or(1);
        return kinds_case(&case.g, &case.toks(), seed, l).map_err(|(_, f)| f);
    }
    if case.sub == "static" {
        return static_case(&case.input, l).map_err(|(_, f)| f);
    }
    check_inner(&case.sub, &case.g, &case.toks(), l).map_err(|(_, f)| f)
}

fn check_inner(sub: &str, g: &G, toks: &[char], l: &mut Local) -> CaseRes {
    let kind = if sub.ends_with("slice") { "slice" } else { "str" };
    let r = peg_diff(ID, sub, kind, g, toks, l)?;
    let st = &r.stats;
    let nontrivial = st.partial_backtracks > 0 || st.semantic_rejects > 0;
    l.bump(if r.accepted { "accepted" } else { "rejected" });
    if st.partial_backtracks > 0 {
        l.bump("with_partial_match_backtrack");
    }
    if st.semantic_rejects > 0 {
        l.bump("with_filter_or_try_map_reject");
    }
    if toks.iter().any(|c| c.len_utf8() > 1) {
        l.bump("multi_byte_input");
    }
    l.note(g, toks, sub, nontrivial, || format!("reference: accepted={} prefix={:?}", r.accepted, r.prefix.as_ref().map(|p| p.1)));
    Ok(())
}

/// or_not / then / into_iter used as item sources and consumed by one collect / count: every pair of sources over
/// every tree of <= 1 combinator node
fn small_item_sources() -> Vec<G> {
    let t1: Vec<G> = small_grammars(false).into_iter().filter(|g| g.children().len() <= 1 && g.children().iter().all(|c| c.children().is_empty())).collect();
    let mut out = vec![];
    let src = |k: usize, g: &G| if k == 0 { G::OrNot(b(g.clone())) } else { G::IntoIter(b(g.clone()), 0) };
    for x in &t1 {
        for kx in 0..2 {
            out.push(G::IterThen(vec![src(kx, x)], 0));
            for y in &t1 {
                for ky in 0..2 {
                    out.push(G::IterThen(vec![src(kx, x), src(ky, y)], ((kx + ky) % 2) as u8));
                }
            }
        }
    }
    out.retain(wf);
    out
}


// ---------------------------------------------------------------------------------------------
// statically typed families for what the grammar AST does not vary:
//  (a) every `Seq` / `OrderedSeq` representation a token set / sequence can be given in (single token, &token, slice,
//      array, &array, Vec, LinkedList, HashSet, BTreeSet, Range, RangeInclusive, RangeFrom, &str, String) against the
//      obvious membership predicate, with the range bounds and their neighbours as tokens;
//  (b) `custom` parsers written with each `InputRef` method a user parser can consume or look with (next, next_maybe,
//      next_ref, peek, peek_ref, skip, save / rewind, slice_since / slice_from, span_since / span_from), against
//      the equal combinator;  (c) one-element `choice` / `group` tuples, the empty choice.

fn static_case(s: &str, l: &mut Local) -> CaseRes {
    use chumsky::prelude::*;
    type E<'a> = extra::Err<Rich<'a, char>>;
    let toks: Vec<char> = s.chars().collect();
    let case = |name: &str| {
        let mut c = Case::new(ID, "static", &G::Empty, &toks);
        c.extra = serde_json::json!({ "parser": name });
        c
    };
    // result of a parser as (output rendered, remainder) or None; parse and check must agree on acceptance
    macro_rules! res {
        ($name:expr, $p:expr) => {{
            let name: &str = $name;
            let p = $p.then(any::<&str, E>().repeated().to_slice());
            let r = crate::run::quietly(|| (p.parse(s).into_output().map(|(o, r)| (format!("{:?}", o), r.len())), p.check(s).has_output()));
            l.evals += 2;
            match r {
                Err(_) => return Err((case(name), Fail::new("C01/panic", format!("{} panicked on {:?}", name, s)))),
                Ok((o, c)) => {
                    if o.is_some() != c {
                        return Err((case(name), Fail::new("C01/accept-check", format!("{} on {:?}: parse accepts = {}, check accepts = {}", name, s, o.is_some(), c))));
                    }
                    o
                }
            }
        }};
    }
    macro_rules! same {
        ($name:expr, $p:expr, $want:expr) => {{
            let got = res!($name, $p);
            let want: Option<(String, usize)> = $want;
            if got != want {
                return Err((case($name), Fail::new("C01/static", format!("{} on {:?}: (output, unconsumed bytes) = {:?} but the PEG reading gives {:?}", $name, s, got, want))));
            }
            l.bump("static_family_runs");
        }};
    }
    let first = toks.first().copied();
    let rest_after_first = first.map(|c| s.len() - c.len_utf8()).unwrap_or(0);
    // ---- (a) token sets: one_of / none_of on the first token
    macro_rules! set {
        ($name:expr, $mk:expr, $member:expr) => {{
            let member: &dyn Fn(char) -> bool = &$member;
            same!(concat!("one_of(", $name, ")"), one_of::<_, &str, E>($mk), first.filter(|c| member(*c)).map(|c| (format!("{:?}", c), rest_after_first)));
            same!(concat!("none_of(", $name, ")"), none_of::<_, &str, E>($mk), first.filter(|c| !member(*c)).map(|c| (format!("{:?}", c), rest_after_first)));
        }};
    }
    let bcd = |c: char| ('b'..='d').contains(&c);
    static B: char = 'b';
    static BCD: [char; 3] = ['b', 'c', 'd'];
    set!("'b'", 'b', |c| c == 'b');
    set!("&'b'", &B, |c| c == 'b');
    set!("&['b','c','d'][..]", &BCD[..], bcd);
    set!("['b','c','d']", ['b', 'c', 'd'], bcd);
    set!("&['b','c','d']", &BCD, bcd);
    set!("vec!['b','c','d']", vec!['b', 'c', 'd'], bcd);
    set!("LinkedList", ['b', 'c', 'd'].into_iter().collect::<std::collections::LinkedList<char>>(), bcd);
    set!("HashSet", ['b', 'c', 'd'].into_iter().collect::<std::collections::HashSet<char>>(), bcd);
    set!("BTreeSet", ['b', 'c', 'd'].into_iter().collect::<std::collections::BTreeSet<char>>(), bcd);
    set!("'b'..'e'", 'b'..'e', bcd);
    set!("'b'..='d'", 'b'..='d', bcd);
    // an unbounded range as a token set: membership only, with an error type that does not enumerate the expected
    // tokens (with Rich the failure path walks the whole range: C20's known finding KF-d)
    {
        type EC<'a> = extra::Err<chumsky::error::Cheap>;
        let p1 = one_of::<_, &str, EC>('b'..).then(any::<&str, EC>().repeated().to_slice());
        let p2 = none_of::<_, &str, EC>('b'..).then(any::<&str, EC>().repeated().to_slice());
        let r = crate::run::quietly(|| (p1.parse(s).into_output().map(|(c, r)| (c, r.len())), p2.parse(s).into_output().map(|(c, r)| (c, r.len())), p1.check(s).has_output(), p2.check(s).has_output()));
        l.evals += 4;
        let w1 = first.filter(|c| *c >= 'b').map(|c| (c, rest_after_first));
        let w2 = first.filter(|c| *c < 'b').map(|c| (c, rest_after_first));
        match r {
            Ok((a, b, ca, cb)) if a == w1 && b == w2 && ca == w1.is_some() && cb == w2.is_some() => l.bump("static_family_runs"),
            other => return Err((case("one_of('b'..) / none_of('b'..)"), Fail::new("C01/static", format!("on {:?}: one_of / none_of over the unbounded range 'b'.. give {:?}, the PEG reading gives {:?} / {:?}", s, other.ok(), w1, w2)))),
        }
    }
    set!("'é'..'→'", 'é'..'→', |c| c >= 'é' && c < '→');
    set!("\"bcd\"", "bcd", bcd);
    set!("String", String::from("bcd"), bcd);
    set!("\"éü→\"", "éü→", |c| "éü→".contains(c));
    // ---- (a') ordered sequences: just(seq)
    macro_rules! seq {
        ($name:expr, $mk:expr, $lit:expr) => {{
            let lit: &str = $lit;
            same!(concat!("just(", $name, ").to_slice()"), just::<_, &str, E>($mk).to_slice(), s.starts_with(lit).then(|| (format!("{:?}", lit), s.len() - lit.len())));
        }};
    }
    seq!("'b'", 'b', "b");
    seq!("&'b'", &B, "b");
    seq!("&['b','c','d'][..]", &BCD[..], "bcd");
    seq!("['b','c','d']", ['b', 'c', 'd'], "bcd");
    seq!("&['b','c','d']", &BCD, "bcd");
    seq!("vec!['b','c','d']", vec!['b', 'c', 'd'], "bcd");
    seq!("'b'..'e'", 'b'..'e', "bcd");
    seq!("'b'..='d'", 'b'..='d', "bcd");
    seq!("\"bcd\"", "bcd", "bcd");
    seq!("String", String::from("bcd"), "bcd");
    seq!("\"bé\"", "bé", "bé");
    // ---- (b) custom parsers over the InputRef API, each against its meaning
    let second = toks.get(1).copied();
    same!(
        "custom: next_maybe() twice, rewind to after the first if the second is not 'c'",
        custom::<_, &str, String, E>(|inp| {
            let before = inp.cursor();
            let Some(a) = inp.next_maybe() else { return Err(Rich::custom(inp.span_since(&before), "eof")) };
            let mid = inp.save();
            let b = inp.next_maybe();
            if b.as_deref() != Some(&'c') {
                inp.rewind(mid);
            }
            Ok(format!("{}{}", *a, inp.slice_since(&before..)))
        }),
        first.map(|a| {
            let n = if second == Some('c') { a.len_utf8() + 1 } else { a.len_utf8() };
            (format!("{:?}", format!("{}{}", a, &s[..n])), s.len() - n)
        })
    );
    same!(
        "custom: peek() decides, next() consumes, span_since",
        custom::<_, &str, (char, usize, usize), E>(|inp| {
            let before = inp.cursor();
            match inp.peek() {
                Some('a') | Some('é') => {
                    let c = inp.next().unwrap();
                    let sp = inp.span_since(&before);
                    Ok((c, sp.start, sp.end))
                }
                _ => Err(Rich::custom(inp.span_since(&before), "no")),
            }
        }),
        first.filter(|c| *c == 'a' || *c == 'é').map(|c| (format!("{:?}", (c, 0usize, c.len_utf8())), rest_after_first))
    );
    same!(
        "custom: peek() + skip() while b..=d, then slice_from / span_from of the rest",
        custom::<_, &str, (String, usize, usize), E>(|inp| {
            while matches!(inp.peek(), Some('b'..='d')) {
                inp.skip();
            }
            let here = inp.cursor();
            let rest: &str = inp.slice_from(&here..);
            let sp = inp.span_from(&here..);
            Ok((rest.to_string(), sp.start, sp.end))
        }),
        {
            let n: usize = toks.iter().take_while(|c| ('b'..='d').contains(*c)).count();
            Some((format!("{:?}", (s[n..].to_string(), n, s.len())), s.len() - n))
        }
    );
    // by-reference API on a slice input
    {
        type ES<'a> = extra::Err<Rich<'a, char>>;
        let sl: &[char] = &toks;
        let p = custom::<_, &[char], (Option<char>, Option<char>, usize), ES>(|inp| {
            let before = inp.cursor();
            let pk = inp.peek_ref().copied();
            let nx = inp.next_ref().copied();
            let n: &[char] = inp.slice_since(&before..);
            Ok((pk, nx, n.len()))
        })
        .then(any::<&[char], ES>().repeated().to_slice());
        let r = crate::run::quietly(|| p.parse(sl).into_output().map(|(o, r)| (o, r.len())));
        l.evals += 1;
        let want = Some(((first, first, first.is_some() as usize), toks.len() - first.is_some() as usize));
        match r {
            Ok(got) if got == want => l.bump("static_family_runs"),
            other => return Err((case("custom over &[char]: peek_ref, next_ref, slice_since"), Fail::new("C01/static", format!("on {:?}: got {:?}, the PEG reading gives {:?}", toks, other.ok(), want)))),
        }
    }
    // ---- (c) one-element tuples, the empty choice
    same!("choice((just('a'),))", choice((just::<_, &str, E>('a'),)), (first == Some('a')).then(|| ("'a'".to_string(), s.len() - 1)));
    same!("group((just('a'),))", group((just::<_, &str, E>('a'),)), (first == Some('a')).then(|| ("('a',)".to_string(), s.len() - 1)));
    same!("choice(empty Vec) never matches", choice(Vec::<chumsky::primitive::Just<char, &str, E>>::new()), None);
    Ok(())
}

pub fn decode(tape: &[u32]) -> (G, Vec<char>, &'static str) {
    let mut t = Tape::new(tape);
    let sub = if t.chance(1, 4) { "slice" } else { "str" };
    let (g, alpha) = {
        // a fifth of the cases: or_not / then (and into_iter) used as ITEM SOURCES -- `a.or_not().then(b.or_not()).collect()`:
        // the IterParser implementations of the same combinators (no repetition node: that is C02's class)
        let mut cfg = GenCfg::c01();
        cfg.iter_then = t.chance(1, 5);
        let mut gg = GGen::new(&mut t, cfg);
        let d = 1 + gg.t.pick(5) as u32;
        let g = gg.gen(d, false);
        (g, gg.alpha.clone())
    };
    let input = gen_input(&g, &mut t, &alpha, 12);
    (g, input, sub)
}

pub fn run(tier: Tier, seed: u64) -> i32 {
    let ctx = Ctx::new(ID, tier, seed);
    ctx.replay_corpus(&check_case);
    // bounded-exhaustive tier
    let mut gs = small_grammars(false);
    gs.extend(small_item_sources());
    let strings = all_strings(&['a', 'b', 'c'], ctx.pick(4, 6));
    ctx.with_local(|l| {
        l.add("exhaustive_grammars", gs.len() as u64);
        l.add("exhaustive_strings_per_grammar", strings.len() as u64);
    });
    ctx.par_jobs(&gs, |g, l| {
        for s in &strings {
            check_inner("exh-str", g, s, l)?;
        }
        // the slice kind on a third of the strings
        for s in strings.iter().step_by(3) {
            check_inner("exh-slice", g, s, l)?;
        }
        Ok(())
    });
    // statically typed families (Seq representations, custom parsers over the InputRef API, one-element tuples): every short string
    let sstrings: Vec<String> = all_strings(&['a', 'b', 'c', 'd', 'e', 'é', 'ü', '→'], ctx.pick(3, 4)).into_iter().map(|v| v.into_iter().collect()).collect();
    let schunks: Vec<&[String]> = sstrings.chunks(32).collect();
    ctx.par_jobs(&schunks, |ch, l| {
        for s in ch.iter() {
            static_case(s, l)?;
        }
        Ok(())
    });
    ctx.exhaustive.store(false, std::sync::atomic::Ordering::Relaxed);
    // random tier
    let n = ctx.pick(300_000, 4_000_000);
    ctx.par_random(n, 160, 1, |tape, l| {
        let (g, input, sub) = decode(tape);
        debug_assert!(wf(&g), "generator produced an ill-formed grammar: {}", render(&g));
        check_inner(sub, &g, &input, l)?;
        // one case in twelve: every other input representation too
        if tape.first().copied().unwrap_or(0) % 12 == 0 && !g.any_node(&|n| matches!(n, G::IterThen(..))) {
            l.bump("cases_on_every_input_kind");
            kinds_case(&g, &input, 1 + (tape.len() as u64 % 5), l)?;
        }
        Ok(())
    });
    ctx.finish(&check_case, RULE, ASSUMPTIONS, &|l| {
        if l.counters.get("with_partial_match_backtrack").copied().unwrap_or(0) == 0 {
            return Err("no case with a backtrack after consumed input".into());
        }
        if l.counters.get("accepted").copied().unwrap_or(0) == 0 {
            return Err("no accepted input".into());
        }
        for k in ["static_family_runs", "cases_on_every_input_kind"] {
            if l.counters.get(k).copied().unwrap_or(0) == 0 {
                return Err(format!("class '{}' is empty", k));
            }
        }
        Ok(())
    })
}

/// one generated case from a raw choice tape (the coverage-guided tier feeds tapes decoded from bytes)
pub fn fuzz_one(tape: &[u32], l: &mut Local) -> CaseRes {
    let (g, input, sub) = decode(tape);
    if !wf(&g) {
        return Ok(());
    }
    check_inner(sub, &g, &input, l)
}
