//! C18 -- user state and inspectors see a history consistent with the parse.
use super::common::*;
use crate::build::*;
use crate::compare::*;
use crate::driver::*;
use crate::gen::*;
use crate::grammar::*;
use crate::reference::{self, RefOpts, RefOut};
use crate::run::*;
use crate::val::Val;

pub const ID: &str = "C18";

pub const RULE: &str = "cases = (grammar, input, input kind in {&str, &[char], Stream}): C01/C02/C08-class grammars (incl. lookahead, repetition with all consumers, foldl_with / foldr_with, recover_with, validate) in which EVERY node is wrapped in map_with(|v, e| (e.span(), *e.state())), select! closures and fold_with callbacks read e.state() too; the state is an Inspector (count, FNV hash of the tokens) whose checkpoint is a snapshot (on_token folds the token in, on_save copies, on_rewind restores). Oracles: (a) position consistency, oracle-free: every observation made when a node finished at position e equals fold(S0, tokens[0..e]) (e taken from the node's own span), and after a successful parse the caller's state equals fold(S0, all tokens), for parse_with_state and check_with_state; (b) reference: the complete output incl. all observations equals the reference's (which threads state by position and scope); (c) with_state(s): the sub-parser starts from a fresh copy of s on every invocation (observations inside = fold(s, tokens consumed inside this invocation so far)) and the outer state neither sees those tokens nor changes otherwise (outer observations afterwards = the outer fold without the inner tokens). Nothing is required of the state after a failed parse. State guard: on index-addressed inputs / ASCII text and grammars without with_state, select! closures reject their token when the state they see is not the fold of the tokens before the current position, so an inconsistent state inside not(), ignored(), the dropped side of then_ignore or check mode changes acceptance (templates for those positions); a token type whose equality is coarser than what the inspector looks at (3 parsers x every string over {a b c} up to length 6 / 8). and_is whose lookahead runs under its own with_state and is as long as the kept parser; a custom parser deciding with peek_maybe() / peek(); on the slice kind half of the cases consume through any_ref / select_ref!. NON-TRIVIAL = the reference abandoned an attempt after it had consumed input before an observation on the surviving path, or observations lie under and_is / rewind, or a recovery fired, or a with_state node was entered more than once; distinct = distinct (sub-check, grammar, input).";

pub const ASSUMPTIONS: &[&str] = &[
    "map_with closures are pure and may be skipped where the value is discarded (then no observation exists on either side)",
    "part (a) uses the node's own reported span end as 'the current position' (C07 ties spans to consumed extents)",
    "with_state: outer observations after a with_state node expect the outer fold WITHOUT the inner tokens, as 'leaves the outer state untouched' says; class (a) is therefore checked on with_state-free grammars only",
];

fn tok_index(sm: &SpanMap, off: usize) -> Option<usize> {
    if off == sm.eoi.0 + sm.shift {
        return Some(sm.n());
    }
    sm.starts.iter().position(|s| *s + sm.shift == off)
}

/// oracle-free: every St(n, h, Obs(_, _, e, _)) equals the fold of the tokens before e
fn position_consistent(v: &Val, toks: &[char], sm: &SpanMap, checked: &mut u64) -> Result<(), String> {
    match v {
        Val::St(n, h, inner) => {
            if let Val::Obs(id, _, e, _) = &**inner {
                let Some(k) = tok_index(sm, *e) else { return Err(format!("node #{}: span end {} is not a token boundary", id, e)) };
                let want = Insp::default().fold(toks[..k].iter().copied());
                *checked += 1;
                if (*n, *h) != (want.n, want.h) {
                    return Err(format!("node #{} finished at token {} and observed state ({}, {:x}); feeding the {} tokens before that position gives ({}, {:x})", id, k, n, h, k, want.n, want.h));
                }
            }
            position_consistent(inner, toks, sm, checked)
        }
        Val::Obs(_, _, _, a) | Val::Mark(_, a) | Val::Cx(_, a) => position_consistent(a, toks, sm, checked),
        Val::Opt(Some(a)) => position_consistent(a, toks, sm, checked),
        Val::Pair(a, b) => {
            position_consistent(a, toks, sm, checked)?;
            position_consistent(b, toks, sm, checked)
        }
        Val::List(l) => {
            for x in l {
                position_consistent(x, toks, sm, checked)?;
            }
            Ok(())
        }
        _ => Ok(()),
    }
}

fn run_kind<'s, I: Kind<'s>>(sub: &str, g: &G, toks: &[char], mk: &dyn Fn() -> I, sm: &SpanMap, base: usize, l: &mut Local) -> CaseRes {
    let case = || Case::new(ID, sub, g, toks);
    let vs = variants(g, toks);
    let refs: Vec<RefOut> = vs.iter().map(|o| reference::eval(g, toks, RefOpts { observed: true, obs_state: true, ..o.clone() })).collect();
    if refs.iter().any(|r| r.stats.fuel_out) {
        l.bump("skipped_fuel_or_unspecified");
        return Ok(());
    }
    let p = {
        let mut bld = Bld::<I, chumsky::error::Rich<'s, I::Tok, I::Spn>>::new(g, true);
        bld.obs_state = true;
        // BorrowInput kinds: half of the cases consume through any_ref / select_ref! (their own path to the inspector)
        bld.borrow_prims = I::BORROW && (g.size() + toks.len()) % 2 == 1;
        bld.build(g)
    };
    // state guard: select closures reject a token when the state they see is not the fold of the tokens before the
    // current position -- observable also where no output is built (under not(), to_slice(), check mode)
    let has_ws = g.any_node(&|n| matches!(n, G::WithState(..)));
    let guard = !has_ws && (sub.ends_with("slice") || sub.ends_with("stream") || toks.iter().all(|c| c.is_ascii()));
    STATE_GUARD.with(|x| x.set(guard));
    let o = run_parse(&p, mk());
    let c = run_check(&p, mk());
    STATE_GUARD.with(|x| x.set(false));
    if guard && g.any_node(&|n| matches!(n, G::Not(a) if a.any_node(&|m| matches!(m, G::Select(_))))) {
        l.bump("state_guard_under_not");
    }
    l.evals += 2;
    if o.panic.is_some() || c.panic.is_some() {
        if g.any_node(&|n| matches!(n, G::Recover(..))) {
            l.bump("panics_left_to_C20");
            return Ok(());
        }
        return fail(case, "C18/panic", format!("panicked: {:?} {:?}", o.panic, c.panic));
    }
    let mut matched = None;
    let mut first = None;
    for (i, r) in refs.iter().enumerate() {
        let res: Result<(), (String, String)> = (|| {
            if o.has_output != r.accepted {
                return Err(("C18/accept".to_string(), format!("has_output={} but the reference accepts={}", o.has_output, r.accepted)));
            }
            if !o.has_output {
                return Ok(());
            }
            let rv = &r.prefix.as_ref().unwrap().0;
            if let Err(m) = cmp_val(rv, o.out.as_ref().unwrap(), sm, base) {
                let sig = if m.starts_with("observed state") { "C18/observation" } else { "C18/output" };
                return Err((sig.to_string(), format!("{} (impl {:?}; reference {:?})", m, o.out, rv)));
            }
            if (o.st.n, o.st.h) != r.final_state {
                return Err(("C18/final-state".to_string(), format!("after the parse the caller's state is ({}, {:x}) but the reference gives ({}, {:x})", o.st.n, o.st.h, r.final_state.0, r.final_state.1)));
            }
            Ok(())
        })();
        match res {
            Ok(()) => {
                matched = Some(i);
                break;
            }
            Err(e) => {
                first.get_or_insert(e);
            }
        }
    }
    let Some(mi) = matched else {
        let (sig, msg) = first.unwrap();
        return fail(case, &sig, msg);
    };
    let r = &refs[mi];
    let mut checked = 0u64;
    if o.has_output {
        if !has_ws {
            if let Err(m) = position_consistent(o.out.as_ref().unwrap(), toks, sm, &mut checked) {
                return fail(case, "C18/position-consistency", m);
            }
            let all = Insp::default().fold(toks.iter().copied());
            if (o.st.n, o.st.h) != (all.n, all.h) {
                return fail(case, "C18/final-state", format!("after a successful parse the state is ({}, {:x}); feeding it the whole input gives ({}, {:x})", o.st.n, o.st.h, all.n, all.h));
            }
        }
        if !c.has_output {
            return fail(case, "C18/check-accept", "check_with_state rejects what parse_with_state accepts".into());
        }
        if (c.st.n, c.st.h) != (o.st.n, o.st.h) {
            return fail(case, "C18/final-state-check", format!("check_with_state leaves ({}, {:x}) but parse_with_state leaves ({}, {:x})", c.st.n, c.st.h, o.st.n, o.st.h));
        }
    }
    l.add("observations_checked_against_direct_fold", checked);
    let st = &r.stats;
    let lookahead_obs = o.has_output && g.any_node(&|n| matches!(n, G::AndIs(..) | G::Rewind(..)));
    let nontrivial = o.has_output && (st.partial_backtracks > 0 || lookahead_obs || st.recoveries_fired > 0 || has_ws);
    l.bump(if o.has_output { "with_output" } else { "no_output" });
    if o.has_output {
        if st.partial_backtracks > 0 {
            l.bump("backtracked_over_tokens_before_an_observation");
        }
        if lookahead_obs {
            l.bump("observation_under_and_is_or_rewind");
        }
        if st.recoveries_fired > 0 {
            l.bump("observation_after_recovery");
        }
        if has_ws {
            l.bump("with_state_on_path");
        }
        if o.st.rewinds > 0 {
            l.bump("inspector_rewound");
        }
    }
    l.note(g, toks, sub, nontrivial, || format!("has_output={} final state ({}, {:x}) rewinds={} output={:?}", o.has_output, o.st.n, o.st.h, o.st.rewinds, o.out));
    Ok(())
}

fn check_inner(sub: &str, g: &G, toks: &[char], l: &mut Local) -> CaseRes {
    if sub.ends_with("slice") {
        let v: Vec<char> = toks.to_vec();
        let sl: &[char] = &v;
        let sm = SpanMap::for_index(v.len(), std::mem::size_of::<char>());
        run_kind::<&[char]>(sub, g, toks, &|| sl, &sm, sl.as_ptr() as usize, l)
    } else if sub.ends_with("stream") {
        let sm = SpanMap::for_index(toks.len(), 1);
        run_kind::<CharStream>(sub, g, toks, &|| char_stream(toks), &sm, 0, l)
    } else {
        let si = StrIn::new(toks);
        let s: &str = &si.s;
        run_kind::<&str>(sub, g, toks, &|| s, &si.sm, si.base(), l)
    }
}

pub fn check_case(case: &Case, l: &mut Local) -> Result<(), Fail> {
    if case.sub == "text-static" {
        return text_case(&case.input, l).map_err(|(_, f)| f);
    }
    if case.sub == "coarse-eq-static" {
        return coarse_case(&case.input, l).map_err(|(_, f)| f);
    }
    check_inner(&case.sub, &case.g, &case.toks(), l).map_err(|(_, f)| f)
}

pub fn cfg(with_state: bool, recover: bool) -> GenCfg {
    let mut c = GenCfg::c02();
    c.fold_with = true;
    c.validate = true;
    c.recover = recover;
    c.with_state = with_state;
    c
}

pub fn templates() -> Vec<G> {
    let j = |s: &str| G::Just(s.into());
    let rep = |item: G, lo: u8, hi: Option<u8>, sink: Sink| G::Rep(Rep { item: b(item), sep: None, leading: false, trailing: false, lo, hi, sink, cfg: false, ctxb: 0 });
    let mut out = vec![
        G::Or(b(G::Then(b(j("ab")), b(j("c")))), b(rep(G::Any, 0, None, Sink::Vec))),
        G::Then(b(G::OrNot(b(G::Then(b(G::Any), b(j("b")))))), b(rep(G::Select("abc".into()), 0, None, Sink::Vec))),
        G::Then(b(G::AndIs(b(G::Then(b(G::Any), b(G::Any))), b(G::Then(b(j("a")), b(G::Any))))), b(rep(G::Any, 0, None, Sink::Vec))),
        G::Then(b(G::Rewind(b(G::Then(b(G::Any), b(G::Any))))), b(rep(G::Any, 0, None, Sink::Vec))),
        G::Then(b(G::Not(b(j("ab")))), b(rep(G::Any, 0, None, Sink::Vec))),
        G::Then(b(rep(G::Then(b(j("a")), b(j("b"))), 0, None, Sink::Vec)), b(rep(G::Any, 0, None, Sink::Vec))),
        G::Then(b(rep(G::Then(b(j("a")), b(j("b"))), 0, None, Sink::Bare)), b(rep(G::Any, 0, None, Sink::Vec))),
        rep(G::OneOf("ab".into()), 0, None, Sink::FoldlWith(b(G::Any))),
        rep(G::OneOf("ab".into()), 0, Some(3), Sink::FoldrWith(b(j("c")))),
        G::Then(b(G::Recover(b(G::Then(b(j("a")), b(j("b")))), Strat::SkipUntil { skip: b(G::Any), until: b(G::OneOf("c".into())), tag: 1 })), b(rep(G::Any, 0, None, Sink::Vec))),
        G::Then(b(G::Recover(b(G::Then(b(j("a")), b(j("b")))), Strat::SkipRetry { skip: b(G::Any), until: b(G::End) })), b(rep(G::Any, 0, None, Sink::Vec))),
        G::Then(b(G::Recover(b(G::Then(b(j("a")), b(j("b")))), Strat::Via(b(G::To(b(G::Any), 901))))), b(rep(G::Any, 0, None, Sink::Vec))),
        // select! closures (which read the state and, under the state guard, reject on an inconsistent one) in
        // positions where no output is built: under not(), to_slice(), ignored(), the dropped side of then_ignore
        G::Then(b(G::Not(b(G::Then(b(j("a")), b(G::Select("abc".into())))))), b(rep(G::Any, 0, None, Sink::Vec))),
        G::Then(b(G::Any), b(G::Then(b(G::Not(b(G::Then(b(G::Any), b(G::Select("bc".into())))))), b(rep(G::Any, 0, None, Sink::Vec))))),
        G::Then(b(G::Ignored(b(G::Then(b(G::Any), b(G::Select("abc".into())))))), b(rep(G::Any, 0, None, Sink::Vec))),
        G::Then(b(G::ThenIgnore(b(G::Any), b(G::Then(b(G::OrNot(b(j("b")))), b(G::Select("abc".into())))))), b(rep(G::Any, 0, None, Sink::Vec))),
        G::Then(b(rep(G::Then(b(G::Select("ab".into())), b(G::Select("ab".into()))), 0, None, Sink::Bare)), b(rep(G::Any, 0, None, Sink::Vec))),
        G::Then(b(G::AndIs(b(G::Then(b(G::Any), b(G::Any))), b(G::Not(b(G::Then(b(G::Select("a".into())), b(G::Select("b".into())))))))), b(rep(G::Any, 0, None, Sink::Vec))),
        // a lookahead that runs under its own with_state and consumes exactly as much as the kept parser
        G::Then(b(G::AndIs(b(G::Then(b(G::Any), b(G::Any))), b(G::WithState(b(G::Then(b(G::Any), b(G::Any))), 2)))), b(rep(G::Any, 0, None, Sink::Vec))),
        G::Then(b(G::Any), b(G::Then(b(G::AndIs(b(G::Any), b(G::WithState(b(G::Any), 3)))), b(rep(G::Any, 0, None, Sink::Vec))))),
        // with_state: fresh copy per invocation, outer untouched
        G::Then(b(rep(G::WithState(b(G::Then(b(G::Any), b(G::OrNot(b(j("b")))))), 3), 0, None, Sink::Vec)), b(G::End)),
        G::Then(b(G::Any), b(G::Then(b(G::WithState(b(rep(G::OneOf("ab".into()), 0, None, Sink::Vec)), 2)), b(rep(G::Any, 0, None, Sink::Vec))))),
        G::Or(b(G::Then(b(G::WithState(b(j("ab")), 1)), b(j("c")))), b(G::Then(b(G::Any), b(G::Then(b(G::WithState(b(G::Any), 4)), b(rep(G::Any, 0, None, Sink::Vec))))))),
        G::Then(b(G::WithState(b(G::Then(b(G::Any), b(G::WithState(b(G::Any), 5)))), 1)), b(rep(G::Any, 0, None, Sink::Vec))),
    ];
    out.retain(wf);
    out
}

pub fn decode(tape: &[u32]) -> (G, Vec<char>, &'static str) {
    let mut t = Tape::new(tape);
    let kind = t.weighted(&[3, 2, 2]);
    let ws = t.chance(1, 4);
    let rec = t.chance(1, 3);
    let (g, alpha) = {
        let mut gg = GGen::new(&mut t, cfg(ws, rec));
        let d = 2 + gg.t.pick(4) as u32;
        let g = gg.gen(d, false);
        (g, gg.alpha.clone())
    };
    let input = gen_input(&g, &mut t, &alpha, 12);
    let sub = match (kind, ws) {
        (0, false) => "str",
        (1, false) => "slice",
        (_, false) => "stream",
        (0, true) => "ws-str",
        (1, true) => "ws-slice",
        (_, true) => "ws-stream",
    };
    (g, input, sub)
}


// ---------------------------------------------------------------------------------------------
// statically typed text parsers (padded() -> skip_while, newline() -> peek / skip, whitespace,
// keyword): combinators the grammar AST does not contain; oracle-free position consistency

type TE<'a> = chumsky::extra::Full<chumsky::error::Rich<'a, char>, Insp, ()>;
type Ob = (usize, u64, u64);

fn text_family<'a>() -> Vec<(&'static str, chumsky::Boxed<'a, 'a, &'a str, Vec<Ob>, TE<'a>>)> {
    use chumsky::prelude::*;
    let ob = |e: &mut chumsky::input::MapExtra<'a, '_, &'a str, TE<'a>>| -> Ob {
        let end = e.span().end;
        let st: &Insp = e.state();
        (end, st.n, st.h)
    };
    vec![
        ("any().padded()", any::<&str, TE>().filter(|c: &char| !c.is_whitespace()).padded().map_with(move |_, e| ob(e)).repeated().collect::<Vec<Ob>>().boxed()),
        (
            "choice((just(\"ab\").padded().then(just('!')), any().padded()))",
            choice((just::<_, &str, TE>("ab").padded().then_ignore(just('!')).map_with(move |_, e| ob(e)), any().padded().map_with(move |_, e| ob(e)))).repeated().collect::<Vec<Ob>>().boxed(),
        ),
        ("line.separated_by(newline())", none_of::<_, &str, TE>("\r\n").repeated().map_with(move |_, e| ob(e)).separated_by(text::newline()).collect::<Vec<Ob>>().boxed()),
        (
            "newline().or(any().ignored())",
            text::newline::<&str, TE>().or(any().ignored()).map_with(move |_, e| ob(e)).repeated().collect::<Vec<Ob>>().boxed(),
        ),
        (
            "keyword(\"ab\").padded().or(ident().padded()).or(any())",
            choice((text::ascii::keyword::<&str, &'static str, TE>("ab").padded().ignored(), text::ascii::ident().padded().ignored(), any().ignored()))
                .map_with(move |_, e| ob(e))
                .repeated()
                .collect::<Vec<Ob>>()
                .boxed(),
        ),
        (
            "custom: peek_maybe / peek decide, next consumes (an optional sign before a token)",
            custom::<_, &str, (), TE>(|inp| {
                let before = inp.cursor();
                let signed = matches!(inp.peek_maybe().as_deref(), Some('!'));
                if signed {
                    inp.skip();
                }
                let _ = inp.peek();
                match inp.next() {
                    Some(_) => Ok(()),
                    None => Err(chumsky::error::Rich::custom(inp.span_since(&before), "eof")),
                }
            })
            .map_with(move |_, e| ob(e))
            .repeated()
            .collect::<Vec<Ob>>()
            .boxed(),
        ),
        (
            "whitespace().then(int(10)).rewind().then(any().padded())",
            text::whitespace::<&str, TE>().then(text::int(10)).rewind().or_not().ignore_then(any().padded()).map_with(move |_, e| ob(e)).repeated().collect::<Vec<Ob>>().boxed(),
        ),
    ]
}

fn text_case(s: &str, l: &mut Local) -> CaseRes {
    use chumsky::Parser;
    let toks: Vec<char> = s.chars().collect();
    let case = |name: &str| {
        let mut c = Case::new(ID, "text-static", &G::Empty, &toks);
        c.extra = serde_json::json!({ "parser": name });
        c
    };
    let fold_to = |end: usize| Insp::default().fold(s[..end].chars());
    for (name, p) in text_family() {
        for check in [false, true] {
            let mut st = Insp::default();
            let r = crate::run::quietly(|| {
                if check {
                    let (o, e) = p.check_with_state(s, &mut st).into_output_errors();
                    (o.map(|()| vec![]), e.len())
                } else {
                    let (o, e) = p.parse_with_state(s, &mut st).into_output_errors();
                    (o, e.len())
                }
            });
            l.evals += 1;
            let Ok((out, nerr)) = r else {
                return Err((case(name), Fail::new("C18/panic", format!("{} panicked on {:?}", name, s))));
            };
            if let Some(obs) = &out {
                for (end, n, h) in obs {
                    let want = fold_to(*end);
                    if (*n, *h) != (want.n, want.h) {
                        return Err((case(name), Fail::new("C18/observation-vs-direct-fold", format!("{} on {:?}: a map_with closure finishing at byte {} saw state (count {}, hash {:x}) but the tokens before that position fold to (count {}, hash {:x})", name, s, end, n, h, want.n, want.h))));
                    }
                    l.bump("text_observations_checked");
                }
            }
            if out.is_some() && nerr == 0 {
                let want = fold_to(s.len());
                if (st.n, st.h) != (want.n, want.h) {
                    return Err((case(name), Fail::new("C18/final-state", format!("{} on {:?} ({}): the caller's state after the parse is (count {}, hash {:x}) but the whole input folds to (count {}, hash {:x})", name, s, if check { "check" } else { "parse" }, st.n, st.h, want.n, want.h))));
                }
                l.bump("text_final_states_checked");
            }
        }
    }
    Ok(())
}

// ---------------------------------------------------------------------------------------------
// a token type whose equality is coarser than what the inspector looks at (a lexer token compared by kind, carrying an
// id): "feeding it exactly the tokens before the current position" means the INPUT's tokens, not the pattern's

#[derive(Clone, Copy, Debug)]
struct CTok {
    kind: char,
    id: u8,
}
impl PartialEq for CTok {
    fn eq(&self, o: &CTok) -> bool {
        self.kind == o.kind
    }
}
#[derive(Clone, Copy, Debug, PartialEq, Default)]
struct IdFold(u64, u64);
impl IdFold {
    fn step(&mut self, t: &CTok) {
        self.0 += 1;
        self.1 = (self.1 ^ (t.id as u64 + 1) ^ ((t.kind as u64) << 8)).wrapping_mul(0x100000001b3);
    }
}
impl<'s, I: chumsky::input::Input<'s, Token = CTok>> chumsky::inspector::Inspector<'s, I> for IdFold {
    type Checkpoint = IdFold;
    fn on_token(&mut self, t: &CTok) {
        self.step(t)
    }
    fn on_save<'p>(&self, _: &chumsky::input::Cursor<'s, 'p, I>) -> IdFold {
        *self
    }
    fn on_rewind<'p>(&mut self, c: &chumsky::input::Checkpoint<'s, 'p, I, IdFold>) {
        *self = *c.inspector();
    }
}

fn coarse_case(s: &str, l: &mut Local) -> CaseRes {
    use chumsky::prelude::*;
    let chars: Vec<char> = s.chars().collect();
    let case = |name: &str| {
        let mut c = Case::new(ID, "coarse-eq-static", &G::Empty, &chars);
        c.extra = serde_json::json!({ "parser": name });
        c
    };
    // ids 1.. in the input; the patterns carry id 0
    let toks: Vec<CTok> = chars.iter().enumerate().map(|(i, c)| CTok { kind: *c, id: (i as u8 % 5) + 1 }).collect();
    type CE<'a> = chumsky::extra::Full<chumsky::error::EmptyErr, IdFold, ()>;
    type CC<'a> = chumsky::extra::Full<chumsky::error::EmptyErr, IdFold, CTok>;
    let t = |k: char| CTok { kind: k, id: 0 };
    let fams: Vec<(&str, chumsky::Boxed<'_, '_, &[CTok], Vec<(usize, IdFold)>, CE>)> = vec![
        (
            "just(a).or(just(b)).or(any()) observed per item",
            just::<_, &[CTok], CE>(t('a')).or(just(t('b'))).or(any()).map_with(|_, e| (e.span().end, *e.state())).repeated().collect::<Vec<_>>().boxed(),
        ),
        (
            "just([a, b]) | just([a]) | one_of | none_of",
            choice((just::<_, &[CTok], CE>([t('a'), t('b')]).ignored(), just([t('a')]).ignored(), one_of([t('b')]).ignored(), none_of([t('a')]).ignored()))
                .map_with(|_, e| (e.span().end, *e.state()))
                .repeated()
                .collect::<Vec<_>>()
                .boxed(),
        ),
        (
            "just(a).configure(seq from ctx) / any",
            any::<&[CTok], CE>()
                .rewind()
                .ignore_with_ctx(just::<_, &[CTok], CC>(t('a')).configure(|cfg, ctx: &CTok| cfg.seq(CTok { kind: ctx.kind, id: 0 })).map_with(|_, e| (e.span().end, *e.state())))
                .repeated()
                .collect::<Vec<_>>()
                .boxed(),
        ),
    ];
    let fold_to = |end: usize| {
        let mut f = IdFold::default();
        toks[..end].iter().for_each(|t| f.step(t));
        f
    };
    for (name, p) in fams {
        for check in [false, true] {
            let mut st = IdFold::default();
            let r = crate::run::quietly(|| {
                if check {
                    p.check_with_state(&toks[..], &mut st).into_output_errors().0.map(|()| vec![])
                } else {
                    p.parse_with_state(&toks[..], &mut st).into_output_errors().0
                }
            });
            l.evals += 1;
            let Ok(out) = r else {
                return Err((case(name), Fail::new("C18/panic", format!("{} panicked on {:?}", name, s))));
            };
            if let Some(obs) = out {
                for (end, got) in obs {
                    if got != fold_to(end) {
                        return Err((case(name), Fail::new("C18/observation-vs-direct-fold", format!("{} on tokens {:?}: a map_with closure finishing at token {} saw state {:?} but the input's tokens before that position fold to {:?} (token equality ignores the id, the inspector does not)", name, toks, end, got, fold_to(end)))));
                    }
                    l.bump("coarse_eq_observations_checked");
                }
                if st != fold_to(toks.len()) {
                    return Err((case(name), Fail::new("C18/final-state", format!("{} on tokens {:?} ({}): the caller's state after the parse is {:?} but the whole input folds to {:?}", name, toks, if check { "check" } else { "parse" }, st, fold_to(toks.len())))));
                }
            }
        }
    }
    Ok(())
}

pub fn run(tier: Tier, seed: u64) -> i32 {
    let ctx = Ctx::new(ID, tier, seed);
    ctx.replay_corpus(&check_case);
    let ts = templates();
    let strings = all_strings(&['a', 'b', 'c'], ctx.pick(6, 8));
    ctx.with_local(|l| {
        l.add("templates", ts.len() as u64);
        l.add("strings_per_template", strings.len() as u64);
    });
    ctx.par_jobs(&ts, |g, l| {
        for s in &strings {
            for k in ["template-str", "template-slice", "template-stream"] {
                check_inner(k, g, s, l)?;
            }
        }
        Ok(())
    });
    // text parsers (skip_while / peek+skip paths): every string up to a bound over a whitespace-rich alphabet
    let tstrings: Vec<String> = all_strings(&['a', 'b', ' ', '\n', '\r', '!', '1'], ctx.pick(5, 6)).into_iter().map(|v| v.into_iter().collect()).collect();
    let chunks: Vec<&[String]> = tstrings.chunks(500).collect();
    ctx.par_jobs(&chunks, |ch, l| {
        for s in ch.iter() {
            text_case(s, l)?;
        }
        Ok(())
    });
    // tokens whose equality is coarser than what the inspector sees
    let cstrings: Vec<String> = all_strings(&['a', 'b', 'c'], ctx.pick(6, 8)).into_iter().map(|v| v.into_iter().collect()).collect();
    let cchunks: Vec<&[String]> = cstrings.chunks(200).collect();
    ctx.par_jobs(&cchunks, |ch, l| {
        for s in ch.iter() {
            coarse_case(s, l)?;
        }
        Ok(())
    });
    let n = ctx.pick(3_000_000, 16_000_000);
    ctx.par_random(n, 200, 18, |tape, l| {
        let (g, input, sub) = decode(tape);
        debug_assert!(wf(&g), "ill-formed: {}", render(&g));
        check_inner(sub, &g, &input, l)
    });
    ctx.finish(&check_case, RULE, ASSUMPTIONS, &|l| {
        for k in ["state_guard_under_not", "coarse_eq_observations_checked", "backtracked_over_tokens_before_an_observation", "observation_under_and_is_or_rewind", "observation_after_recovery", "with_state_on_path", "inspector_rewound", "observations_checked_against_direct_fold", "text_observations_checked", "text_final_states_checked"] {
            if l.counters.get(k).copied().unwrap_or(0) == 0 {
                return Err(format!("class '{}' is empty", k));
            }
        }
        Ok(())
    })
}

/// one generated case from a raw choice tape (the coverage-guided tier feeds tapes decoded from bytes)
pub fn fuzz_one(tape: &[u32], l: &mut Local) -> CaseRes {
    let (g, input, sub) = decode(tape);
    if !wf(&g) {
        return Ok(());
    }
    check_inner(sub, &g, &input, l)
}
