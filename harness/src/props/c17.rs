//! C17 -- labels and map_err change how a failure is described, never whether or where.
use super::common::*;
use crate::build::*;
use crate::compare::*;
use crate::driver::*;
use crate::gen::*;
use crate::grammar::*;
use crate::reference::{self, AltR, EmisKind, RefOut};
use crate::run::*;

pub const ID: &str = "C17";

pub const RULE: &str = "cases = (decorated grammar, input): a C01/C02-class grammar g (no `not`, validate emitters in half of the cases) in which a random subset of nodes is decorated with labelled(l), labelled(l).as_context(), a span-preserving map_err(f) (f rewrites the error into a custom error at the SAME span, recording what it was given) or map_err_with_state; derived / random inputs, plus a bounded-exhaustive tier of templates (each decoration around an alternative that fails at its start / further in / succeeds, next to earlier alternatives that left a pending error before, at and beyond it) x all strings over {a,b,c} up to length L. Oracles: (1) differential decorated vs undecorated grammar: has_output, output, number of errors and every error's span identical (emitted ones too); (2) content against the reference's failure-event log with the decoration rules of the statement applied: events of a labelled parser at its own start are replaced by the label, events further in keep their expectations and as_context adds (label, node start .. failure position) -- exact when a single event survives, a subset of the contexts of the merged events otherwise, since which contexts survive a merge is unspecified -- also on emitted errors; map_err: the marker of node id is carried iff the furthest failure consists of failures of that node, and the number of invocations of f equals the number of failures of its parser (never invoked on success). Where the labelled parser succeeded but left events behind both readings are admissible (V-label-success). NON-TRIVIAL = a decorated node failed while an earlier alternative had left a pending error at the same or a later position (the shelter / re-merge path), or a label applied further in (context) / at the start replaced expectations that merged with siblings; distinct = distinct (sub-check, grammar, input).";

pub const ASSUMPTIONS: &[&str] = &[
    "the reference failure-event log (see C06) with the label / map_err rules of the statement; V-label-success admits both readings",
    "which contexts survive a merge of two equal-position errors is unspecified: reported contexts must be a subset of those of the merged events (exact when only one event is involved)",
    "closures are pure except that the invocation count of the generated map_err functions is read (DESIGN.md 3.5)",
];

fn undecorate(g: &G) -> G {
    let mut g = g.clone();
    g.transform(&mut |n| {
        if let G::Labelled(a, _, _) | G::MapErr(a, _, _) = n {
            let inner = (**a).clone();
            *n = inner;
        }
    });
    g
}

fn conv_ctx(c: &[(String, (usize, usize))], sm: &SpanMap) -> Vec<(String, (usize, usize))> {
    c.iter()
        .map(|(l, (s, e))| {
            let off = |i: usize| if i < sm.n() { sm.starts[i] } else { sm.eoi.0 };
            (format!("{:?}", Pat::Label(l.clone())), (off(*s), off(*e)))
        })
        .collect()
}

fn cmp_ctx(a: &AltR, d: &ErrDesc, sm: &SpanMap) -> Result<(), String> {
    let want = conv_ctx(&a.ctx, sm);
    let mut any = conv_ctx(&a.ctx_any, sm);
    any.extend(want.iter().cloned());
    if a.merged <= 1 {
        if d.contexts != want {
            return Err(format!("contexts {:?} but the labelled parsers around the failure give {:?}", d.contexts, want));
        }
    } else {
        for c in &d.contexts {
            if !any.contains(c) {
                return Err(format!("context {:?} is not one of the contexts of the merged failures {:?}", c, any));
            }
        }
    }
    Ok(())
}

fn cmp_ref(r: &RefOut, o: &ImplOut, sm: &SpanMap) -> Result<(), (String, String)> {
    if o.has_output != r.accepted {
        return Err(("C17/accept-vs-reference".into(), format!("has_output={} but the reference says {}", o.has_output, r.accepted)));
    }
    if o.has_output {
        if o.errs.len() != r.emitted.len() {
            return Err(("C17/emitted-count".into(), format!("{} errors but the reference emits {}", o.errs.len(), r.emitted.len())));
        }
        for (e, d) in r.emitted.iter().zip(&o.errs) {
            if let Err(m) = cmp_emis(e, d, sm, false) {
                return Err(("C17/emitted".into(), m));
            }
            if let EmisKind::Validate(..) = e.kind {
                let want = conv_ctx(&e.ctx, sm);
                if d.contexts != want {
                    return Err(("C17/emitted-context".into(), format!("emitted error {:?} carries contexts {:?}, the as_context labels around it give {:?}", d.custom, d.contexts, want)));
                }
            }
        }
        return Ok(());
    }
    let Some(d) = o.errs.last() else { return Err(("C17/no-error".into(), "failed without an error".into())) };
    let Some(a) = &r.alt else { return Err(("C17/no-ref-error".into(), "the reference recorded no failure".into())) };
    if a.fuzzy {
        return Ok(());
    }
    if let Err(m) = cmp_err(a, d, sm, true) {
        let sig = if m.starts_with("error span") {
            "C17/position"
        } else if m.starts_with("expected set") {
            "C17/label-expected"
        } else if m.contains("user") {
            "C17/map_err-marker"
        } else {
            "C17/found"
        };
        return Err((sig.into(), format!("{} (reported {:?}; reference {:?})", m, d, a)));
    }
    if let Err(m) = cmp_ctx(a, d, sm) {
        return Err(("C17/context".into(), format!("{} (reported {:?}; reference {:?})", m, d, a)));
    }
    Ok(())
}

fn check_inner(sub: &str, gd: &G, toks: &[char], l: &mut Local) -> CaseRes {
    let case = || Case::new(ID, sub, gd, toks);
    let g0 = undecorate(gd);
    let mut vs = variants(gd, toks);
    let n0 = vs.len();
    for i in 0..n0 {
        let mut o = vs[i].clone();
        o.vlabel_alt = true;
        vs.push(o);
    }
    let refs: Vec<RefOut> = vs.iter().map(|o| reference::eval(gd, toks, o.clone())).collect();
    if refs.iter().any(|r| r.stats.fuel_out) {
        l.bump("skipped_fuel");
        return Ok(());
    }
    let si = StrIn::new(toks);
    let s: &str = &si.s;
    let pd = build::<&str, RichS>(gd, false);
    maperr_calls_reset();
    let od = run_parse(&pd, s);
    let calls = maperr_calls();
    let p0 = build::<&str, RichS>(&g0, false);
    let o0 = run_parse(&p0, s);
    l.evals += 2;
    if od.panic.is_some() || o0.panic.is_some() {
        if o0.panic.is_some() {
            l.bump("undecorated_panics_left_to_C20");
            return Ok(());
        }
        return fail(case, "C17/panic", format!("the decorated grammar panicked: {:?}", od.panic));
    }
    // (1) never whether or where
    if od.has_output != o0.has_output {
        return fail(case, "C17/accept", format!("decorated has_output={} but undecorated has_output={}", od.has_output, o0.has_output));
    }
    if od.out != o0.out {
        return fail(case, "C17/output", format!("decorated output {:?} but undecorated {:?}", od.out, o0.out));
    }
    if od.errs.len() != o0.errs.len() {
        return fail(case, "C17/error-count", format!("decorated reports {} errors {:?}, undecorated {} {:?}", od.errs.len(), od.errs, o0.errs.len(), o0.errs));
    }
    for (k, (a, c)) in od.errs.iter().zip(&o0.errs).enumerate() {
        if a.span != c.span {
            return fail(case, "C17/error-span", format!("error #{}: decorated span {:?} ({:?}) but undecorated span {:?} ({:?})", k, a.span, a, c.span, c));
        }
    }
    // (2) how: content against the reference
    let unspecified = refs.iter().any(|r| r.stats.trymap_inner_events);
    let mut matched = 0usize;
    if unspecified {
        l.bump("content_comparison_skipped_unspecified_position");
    } else {
        let mut first = None;
        let mut ok = None;
        for (i, r) in refs.iter().enumerate() {
            match cmp_ref(r, &od, &si.sm) {
                Ok(()) => {
                    ok = Some(i);
                    break;
                }
                Err(e) => {
                    first.get_or_insert(e);
                }
            }
        }
        match ok {
            Some(i) => matched = i,
            None => {
                let (sig, msg) = first.unwrap();
                return fail(case, &sig, msg);
            }
        }
        if vs[matched].vlabel_alt {
            l.bump("matched_variant_V_label_success_alt");
        }
        // (3) f is applied to exactly the failures of its parser
        let want = refs[matched].stats.map_err_applied;
        if calls != want && !gd.any_node(&|n| matches!(n, G::Rep(r) if r.sink == Sink::Bare)) {
            return fail(case, "C17/map_err-calls", format!("map_err functions were invoked {} times but their parsers failed {} times", calls, want));
        }
    }
    let st = &refs[matched].stats;
    let nontrivial = st.label_sheltered_pending > 0 || st.label_further_in > 0 || (st.label_at_start > 0 && st.events_merged > 0) || st.map_err_applied > 0 && st.events_kept_earlier + st.events_merged > 0;
    l.bump(if od.has_output { "with_output" } else { "rejected" });
    if st.label_at_start > 0 {
        l.bump("label_applied_at_start");
    }
    if st.label_further_in > 0 {
        l.bump("context_added_further_in");
    }
    if st.label_sheltered_pending > 0 {
        l.bump("pending_error_sheltered_and_remerged");
    }
    if st.map_err_applied > 0 {
        l.bump("map_err_applied");
    }
    if st.used_vlabel {
        l.bump("labelled_parser_succeeded_leaving_events");
    }
    if od.errs.iter().any(|e| !e.contexts.is_empty()) {
        l.bump("reported_error_with_context");
    }
    l.note(gd, toks, sub, nontrivial, || format!("has_output={} errors={:?}", od.has_output, od.errs));
    Ok(())
}

pub fn check_case(case: &Case, l: &mut Local) -> Result<(), Fail> {
    check_inner(&case.sub, &case.g, &case.toks(), l).map_err(|(_, f)| f)
}

pub fn cfg() -> GenCfg {
    let mut c = GenCfg::c02();
    c.not = false;
    c.semantic_strict = true;
    c.label = true;
    c.map_err = true;
    c
}

pub fn templates() -> Vec<G> {
    let j = |s: &str| G::Just(s.into());
    let decos: Vec<Box<dyn Fn(G) -> G>> = vec![
        Box::new(|g| G::Labelled(b(g), "L1".into(), false)),
        Box::new(|g| G::Labelled(b(g), "L1".into(), true)),
        Box::new(|g| G::MapErr(b(g), 1, false)),
        Box::new(|g| G::MapErr(b(g), 1, true)),
        Box::new(|g| G::Labelled(b(G::Labelled(b(g), "L1".into(), true)), "L2".into(), true)),
        Box::new(|g| G::MapErr(b(G::Labelled(b(g), "L1".into(), true)), 2, false)),
    ];
    let inners: Vec<G> = vec![
        j("ab"),
        G::Then(b(j("a")), b(G::OrNot(b(j("b"))))),
        G::Then(b(G::OrNot(b(j("a")))), b(j("b"))),
        G::Rep(Rep { item: b(j("ab")), sep: None, leading: false, trailing: false, lo: 0, hi: None, sink: Sink::Vec, cfg: false, ctxb: 0 }),
        G::Validate(b(G::Then(b(j("a")), b(G::Validate(b(G::OneOf("ab".into())), 5, 1)))), 6, 1),
        G::TryMap(b(G::Any), Pred::FirstIn("a".into()), 3),
        G::Custom { take: 1, ok: false, tag: 4 },
    ];
    let mut out = vec![];
    for d in &decos {
        for x in &inners {
            let dx = d(x.clone());
            out.push(dx.clone());
            out.push(G::Then(b(dx.clone()), b(j("c"))));
            // earlier alternatives leaving a pending error before / at / beyond the decorated failure
            out.push(G::Choice(vec![G::Then(b(j("ab")), b(j("c"))), dx.clone()]));
            out.push(G::Choice(vec![j("b"), dx.clone(), j("c")]));
            out.push(G::Choice(vec![G::Then(b(j("a")), b(j("c"))), G::Then(b(dx.clone()), b(j("a")))]));
            out.push(G::Then(b(G::OrNot(b(dx.clone()))), b(j("c"))));
        }
    }
    // the SAME label text at two levels, the inner label covering only some of the alternatives (and all of them)
    for outer_ctx in [false, true] {
        for inner_ctx in [false, true] {
            let lab = |g: G, c: bool| G::Labelled(b(g), "L1".into(), c);
            let partial = lab(G::Choice(vec![lab(j("a"), inner_ctx), j("b")]), outer_ctx);
            let full = lab(G::Choice(vec![lab(j("a"), inner_ctx), lab(j("b"), inner_ctx)]), outer_ctx);
            let deep = lab(G::Then(b(G::Or(b(lab(j("ab"), inner_ctx)), b(j("b")))), b(j("c"))), outer_ctx);
            for x in [partial, full, deep] {
                out.push(x.clone());
                out.push(G::Then(b(x.clone()), b(j("c"))));
                out.push(G::Choice(vec![G::Then(b(j("a")), b(j("c"))), x.clone()]));
                out.push(G::Then(b(G::OrNot(b(x))), b(j("c"))));
            }
        }
    }
    out.retain(wf);
    out
}

pub fn decode(tape: &[u32]) -> (G, Vec<char>) {
    let mut t = Tape::new(tape);
    let (g, alpha) = {
        let mut c = cfg();
        if t.chance(1, 2) {
            c.validate = true;
        }
        if t.chance(1, 4) {
            c.semantic_strict = false;
        }
        let mut gg = GGen::new(&mut t, c);
        let d = 2 + gg.t.pick(4) as u32;
        let mut g = gg.gen(d, false);
        if !g.any_node(&|n| matches!(n, G::Labelled(..) | G::MapErr(..))) {
            g = G::Labelled(b(g), "L0".into(), true);
        }
        (g, gg.alpha.clone())
    };
    let input = gen_input(&g, &mut t, &alpha, 12);
    (g, input)
}

pub fn run(tier: Tier, seed: u64) -> i32 {
    let ctx = Ctx::new(ID, tier, seed);
    ctx.replay_corpus(&check_case);
    let ts = templates();
    let strings = all_strings(&['a', 'b', 'c'], ctx.pick(5, 7));
    ctx.with_local(|l| {
        l.add("templates", ts.len() as u64);
        l.add("strings_per_template", strings.len() as u64);
    });
    ctx.par_jobs(&ts, |g, l| {
        for s in &strings {
            check_inner("template", g, s, l)?;
        }
        Ok(())
    });
    let n = ctx.pick(3_000_000, 18_000_000);
    ctx.par_random(n, 200, 17, |tape, l| {
        let (g, input) = decode(tape);
        debug_assert!(wf(&g), "ill-formed: {}", render(&g));
        check_inner("rand", &g, &input, l)
    });
    ctx.finish(&check_case, RULE, ASSUMPTIONS, &|l| {
        for k in ["label_applied_at_start", "context_added_further_in", "pending_error_sheltered_and_remerged", "map_err_applied", "reported_error_with_context", "with_output", "rejected"] {
            if l.counters.get(k).copied().unwrap_or(0) == 0 {
                return Err(format!("class '{}' is empty", k));
            }
        }
        Ok(())
    })
}

/// one generated case from a raw choice tape (the coverage-guided tier feeds tapes decoded from bytes)
pub fn fuzz_one(tape: &[u32], l: &mut Local) -> CaseRes {
    let (g, input) = decode(tape);
    if !wf(&g) {
        return Ok(());
    }
    check_inner("rand", &g, &input, l)
}
