pub mod c01;
pub mod c02;
pub mod c03;
pub mod c05;
pub mod common;
pub mod c06;
pub mod c04;
pub mod c08;
