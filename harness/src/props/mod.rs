pub mod c01;
pub mod common;
