//! Dynamic builder: turns a grammar `G` into a real chumsky parser (boxed children, real
//! monomorphised combinators at each node), generic over the input kind and the error type.
#![allow(clippy::type_complexity)]
use crate::grammar::*;
use crate::val::{Tracked, Val};
use chumsky::error::{Cheap, EmptyErr, LabelError, Rich, RichPattern, RichReason, Simple};
use chumsky::extension::v1::{Ext, ExtParser};
use chumsky::extra::Full;
use chumsky::input::{Checkpoint, Cursor, Input, InputRef, ValueInput};
use chumsky::inspector::Inspector;
use chumsky::prelude::*;
use chumsky::recursive::{Indirect, Recursive};
use chumsky::{ConfigIterParser, ConfigParser, IterParser};
use std::collections::HashMap;
use std::fmt::Debug;
use std::rc::Rc;
use std::sync::Arc;

// ---------------------------------------------------------------------------------------------
// tokens, spans, user state

pub trait Tk: Clone + PartialEq + Debug + 'static {
    fn from_char(c: char) -> Self;
    fn to_char(&self) -> char;
}
impl Tk for char {
    fn from_char(c: char) -> Self {
        c
    }
    fn to_char(&self) -> char {
        *self
    }
}
impl Tk for u8 {
    fn from_char(c: char) -> Self {
        c as u32 as u8
    }
    fn to_char(&self) -> char {
        *self as char
    }
}

/// a token whose every instance is registered in the drop ledger (C19: the caller's tokens are never
/// dropped or duplicated other than by Clone)
#[derive(Clone, Debug)]
pub struct TTok {
    pub c: char,
    pub t: Tracked,
}
impl PartialEq for TTok {
    fn eq(&self, o: &Self) -> bool {
        self.c == o.c
    }
}
impl std::fmt::Display for TTok {
    fn fmt(&self, f: &mut std::fmt::Formatter<'_>) -> std::fmt::Result {
        write!(f, "{}", self.c)
    }
}
impl Tk for TTok {
    fn from_char(c: char) -> Self {
        TTok { c, t: Tracked::new(7777) }
    }
    fn to_char(&self) -> char {
        self.c
    }
}

pub trait Sp: chumsky::span::Span + Clone + Debug + 'static {
    fn se(&self) -> (usize, usize);
    fn tag(&self) -> u32 {
        0
    }
}
impl Sp for SimpleSpan {
    fn se(&self) -> (usize, usize) {
        (self.start, self.end)
    }
}
pub const CTX_TAG: u32 = 4242;
thread_local! {
    /// set when a span of a with_context input is seen that does not carry the context (C10)
    pub static BAD_CTX: std::cell::Cell<bool> = std::cell::Cell::new(false);
}
impl Sp for SimpleSpan<usize, u32> {
    fn se(&self) -> (usize, usize) {
        if self.context != CTX_TAG {
            BAD_CTX.with(|b| b.set(true));
        }
        (self.start, self.end)
    }
    fn tag(&self) -> u32 {
        self.context
    }
}
/// span type used by the `map_span` input kind: offsets shifted by 1000
#[derive(Clone, Debug, PartialEq)]
pub struct Shifted(pub usize, pub usize);
impl chumsky::span::Span for Shifted {
    type Context = ();
    type Offset = usize;
    fn new(_: (), r: std::ops::Range<usize>) -> Self {
        Shifted(r.start, r.end)
    }
    fn context(&self) {}
    fn start(&self) -> usize {
        self.0
    }
    fn end(&self) -> usize {
        self.1
    }
}
impl Sp for Shifted {
    fn se(&self) -> (usize, usize) {
        (self.0, self.1)
    }
    fn tag(&self) -> u32 {
        7
    }
}

thread_local! {
    /// number of times a generated map_err function was invoked (C17; DESIGN.md 3.5's exception)
    pub static MAPERR_CALLS: std::cell::Cell<u64> = std::cell::Cell::new(0);
}
pub fn maperr_calls_reset() {
    MAPERR_CALLS.with(|c| c.set(0))
}
pub fn maperr_calls() -> u64 {
    MAPERR_CALLS.with(|c| c.get())
}
pub fn maperr_bump() {
    MAPERR_CALLS.with(|c| c.set(c.get() + 1))
}

pub fn fnv_step(h: u64, c: char) -> u64 {
    (h ^ (c as u64)).wrapping_mul(0x100000001b3)
}
pub const FNV0: u64 = 0xcbf29ce484222325;

/// The user state used by every generated parser: an Inspector whose checkpoint is a snapshot.
#[derive(Clone, Debug, PartialEq)]
pub struct Insp {
    pub n: u64,
    pub h: u64,
    pub log: Vec<u32>,
    /// total number of on_token calls (never rewound): a deterministic work counter
    pub work: u64,
    pub rewinds: u64,
    /// 0 = unlimited; otherwise on_token panics once `work` exceeds it (C20's deterministic work bound)
    pub budget: u64,
}
impl Default for Insp {
    fn default() -> Self {
        Insp { n: 0, h: FNV0, log: Vec::new(), work: 0, rewinds: 0, budget: 0 }
    }
}
impl Insp {
    pub fn seeded(seed: u64) -> Insp {
        Insp { n: 0, h: FNV0 ^ seed.wrapping_mul(0x9e3779b97f4a7c15), log: Vec::new(), work: 0, rewinds: 0, budget: 0 }
    }
    pub fn fold(mut self, toks: impl Iterator<Item = char>) -> Insp {
        for c in toks {
            self.n += 1;
            self.h = fnv_step(self.h, c);
        }
        self
    }
}
impl<'s, I: Input<'s>> Inspector<'s, I> for Insp
where
    I::Token: Tk,
{
    type Checkpoint = (u64, u64, usize);
    #[inline]
    fn on_token(&mut self, t: &I::Token) {
        self.n += 1;
        self.h = fnv_step(self.h, t.to_char());
        self.work += 1;
        if self.budget != 0 && self.work > self.budget {
            panic!("work budget exceeded: more than {} tokens consumed", self.budget);
        }
    }
    #[inline]
    fn on_save<'p>(&self, _: &Cursor<'s, 'p, I>) -> Self::Checkpoint {
        (self.n, self.h, self.log.len())
    }
    #[inline]
    fn on_rewind<'p>(&mut self, m: &Checkpoint<'s, 'p, I, Self::Checkpoint>) {
        let (n, h, l) = *m.inspector();
        self.n = n;
        self.h = h;
        self.log.truncate(l);
        self.rewinds += 1;
    }
}

// ---------------------------------------------------------------------------------------------
// canonical error description

#[derive(Clone, Debug, PartialEq, Eq, PartialOrd, Ord, Hash, serde::Serialize, serde::Deserialize)]
pub enum Pat {
    Tok(char),
    Any,
    SomethingElse,
    End,
    Label(String),
    Ident(String),
}

#[derive(Clone, Debug, PartialEq, Eq, serde::Serialize)]
pub struct ErrDesc {
    pub span: (usize, usize),
    pub span_tag: u32,
    /// None: the error type does not carry it
    pub found: Option<Option<char>>,
    pub expected: Option<Vec<Pat>>,
    pub custom: Option<String>,
    pub contexts: Vec<(String, (usize, usize))>,
}

pub type Ex<R> = Full<R, Insp, Val>;
pub type BP<'s, I, R> = Boxed<'s, 's, I, Val, Ex<R>>;

macro_rules! toks {
    ($s:expr, $I:ty) => {
        $s.chars().map(<<$I as Kind>::Tok as Tk>::from_char).collect::<Vec<_>>()
    };
}

thread_local! {
    /// C18: select! / select_ref! closures that read the state REJECT their token when the state does not reflect the
    /// current position (count of tokens fed != index just after the token). Closures of select run in every mode, also
    /// where no output is built (under not(), to_slice(), check()), so an inconsistent state there changes acceptance.
    /// Only switched on for index-addressed inputs / ASCII text and grammars without with_state.
    pub static STATE_GUARD: std::cell::Cell<bool> = std::cell::Cell::new(false);
}
thread_local! {
    /// C13: every node's concrete combinator is deep-cloned (its own `Clone` impl, recursively through the
    /// whole unboxed chain) and the CLONE is what gets boxed and used; the original is dropped
    pub static DEEP_CLONE: std::cell::Cell<bool> = std::cell::Cell::new(false);
}
/// `.boxed()` that goes through the combinator's own Clone impl when DEEP_CLONE is set -- on the input kinds
/// that opt in (`Kind::cb_box`; only `&str`, to keep the amount of monomorphised Clone code down)
pub trait CloneBoxed<'s, I: Kind<'s>, R: Er<'s, I>>: Parser<'s, I, Val, Ex<R>> + Clone + Sized + 's {
    fn cb(self) -> BP<'s, I, R> {
        I::cb_box::<R, Self>(self)
    }
}
impl<'s, I: Kind<'s>, R: Er<'s, I>, T: Parser<'s, I, Val, Ex<R>> + Clone + Sized + 's> CloneBoxed<'s, I, R> for T {}

/// `x.mb(f)` = `x.boxed().map(f).boxed()`: the combinator ITSELF is what sits under the `dyn Parser`, so its own dyn entry
/// points (`go_emit` / `go_check`) are on the path exactly as for a user who writes `a.then(b).boxed()`; the conversion of
/// its output to `Val` comes on top (before, `x.map(f).boxed()` reached `x` only through `Map::go::<M>`)
pub trait MapBoxed<'s, I: Kind<'s>, R: Er<'s, I>, O: 's>: Parser<'s, I, O, Ex<R>> + Clone + Sized + 's {
    fn mb<F: Fn(O) -> Val + Clone + 's>(self, f: F) -> BP<'s, I, R> {
        I::cb_box_o::<R, O, Self>(self).map(f).boxed()
    }
}
impl<'s, I: Kind<'s>, R: Er<'s, I>, O: 's, T: Parser<'s, I, O, Ex<R>> + Clone + Sized + 's> MapBoxed<'s, I, R, O> for T {}

pub fn toks_of<'s, I: Kind<'s>>(s: &str) -> Vec<I::Tok> {
    s.chars().map(<I::Tok as Tk>::from_char).collect()
}

pub trait Kind<'s>: Input<'s, Token = Self::Tok, Span = Self::Spn> + Sized + 's {
    type Tok: Tk;
    type Spn: Sp;
    const HAS_SLICE: bool;
    /// false for inputs that implement only `Input` (IterInput): any / one_of / none_of / select / not / lazy /
    /// custom / nested_delimiters are not available there and the generators do not produce them
    const VALUE: bool = true;
    fn slice_node<R: Er<'s, Self>>(p: BP<'s, Self, R>) -> BP<'s, Self, R>;
    fn map_slice_node<R: Er<'s, Self>>(p: BP<'s, Self, R>) -> BP<'s, Self, R>;
    /// value-building formulation of to_slice(): map_with(|_, e| e.slice())
    fn slice_node_explicit<R: Er<'s, Self>>(p: BP<'s, Self, R>) -> BP<'s, Self, R>;
    // primitives and combinators that need ValueInput
    /// just(seq): by default the sequence is a Vec of tokens; `&str` varies the `Seq` representation (see there)
    fn p_just<R: Er<'s, Self>>(s: &str) -> BP<'s, Self, R> {
        chumsky::primitive::just::<_, Self, Ex<R>>(toks_of::<Self>(s)).map(|v: Vec<Self::Tok>| Val::Str(v.iter().map(|t| t.to_char()).collect())).boxed()
    }
    fn p_any<R: Er<'s, Self>>() -> BP<'s, Self, R>;
    fn p_one_of<R: Er<'s, Self>>(set: &str) -> BP<'s, Self, R>;
    fn p_none_of<R: Er<'s, Self>>(set: &str) -> BP<'s, Self, R>;
    fn p_select<R: Er<'s, Self>>(set: &str, flavour: SelFlavour) -> BP<'s, Self, R>;
    fn p_custom<R: Er<'s, Self>>(take: u8, ok: bool, tag: u32) -> BP<'s, Self, R>;
    fn p_ext<R: Er<'s, Self>>(take: u8, ok: bool, tag: u32) -> BP<'s, Self, R>;
    fn p_not<R: Er<'s, Self>>(p: BP<'s, Self, R>) -> BP<'s, Self, R>;
    fn p_lazy<R: Er<'s, Self>>(p: BP<'s, Self, R>) -> BP<'s, Self, R>;
    fn p_nested<R: Er<'s, Self>>(a: BP<'s, Self, R>, open: char, close: char, others: &[(char, char)], tag: u32) -> BP<'s, Self, R>;
    /// box a freshly built combinator (see CloneBoxed)
    fn cb_box<R: Er<'s, Self>, T: Parser<'s, Self, Val, Ex<R>> + Clone + 's>(p: T) -> BP<'s, Self, R> {
        p.boxed()
    }
    /// the same for a combinator whose output is not yet a `Val` (see MapBoxed)
    fn cb_box_o<R: Er<'s, Self>, O: 's, T: Parser<'s, Self, O, Ex<R>> + Clone + 's>(p: T) -> chumsky::Boxed<'s, 's, Self, O, Ex<R>> {
        p.boxed()
    }
    /// the kind is a BorrowInput (any_ref / select_ref! exist)
    const BORROW: bool = false;
    /// any_ref() / select_ref!() where the kind is a BorrowInput, else the by-value primitives
    fn p_any_ref<R: Er<'s, Self>>() -> BP<'s, Self, R> {
        Self::p_any::<R>()
    }
    fn p_select_ref<R: Er<'s, Self>>(set: &str, flavour: SelFlavour) -> BP<'s, Self, R> {
        Self::p_select::<R>(set, flavour)
    }
    /// item sources joined by `then` and consumed as one IterParser. Default: the same grammar with every part
    /// collected on its own and the lists concatenated (semantically equal); `&str` builds the real IterParser chain
    fn p_iter_then<R: Er<'s, Self>>(this: &mut Bld<'s, Self, R>, parts: &[G], sink: u8) -> BP<'s, Self, R> {
        crate::build_c::iter_then_fallback(this, parts, sink)
    }
    /// `a.nested_in(group)`: only the token-tree kind has group tokens (C16)
    fn p_nested_in<R: Er<'s, Self>>(_a: BP<'s, Self, R>) -> BP<'s, Self, R> {
        unreachable!("nested_in needs the token-tree input kind")
    }
}

#[derive(Clone, Copy, Debug, PartialEq, Eq)]
pub enum SelFlavour {
    Plain,
    /// the closure also records e.state() (C18)
    State,
    /// the closure also records e.span() (C07)
    Span,
}

/// the ValueInput-only primitives, written once for every kind that is a ValueInput
pub mod vprims {
    use super::*;
    pub fn any<'s, I: Kind<'s> + ValueInput<'s>, R: Er<'s, I>>() -> BP<'s, I, R> {
        chumsky::primitive::any::<I, Ex<R>>().map(|t: I::Tok| Val::Tok(t.to_char())).boxed()
    }
    pub fn one_of<'s, I: Kind<'s> + ValueInput<'s>, R: Er<'s, I>>(s: &str) -> BP<'s, I, R> {
        chumsky::primitive::one_of::<_, I, Ex<R>>(toks!(s, I)).map(|t: I::Tok| Val::Tok(t.to_char())).boxed()
    }
    pub fn none_of<'s, I: Kind<'s> + ValueInput<'s>, R: Er<'s, I>>(s: &str) -> BP<'s, I, R> {
        chumsky::primitive::none_of::<_, I, Ex<R>>(toks!(s, I)).map(|t: I::Tok| Val::Tok(t.to_char())).boxed()
    }
    pub fn select<'s, I: Kind<'s> + ValueInput<'s>, R: Er<'s, I>>(s: &str, flavour: SelFlavour) -> BP<'s, I, R> {
        let set = s.to_string();
        chumsky::primitive::select::<_, I, Val, Ex<R>>(move |t: I::Tok, e| {
            let c = t.to_char();
            if !set.contains(c) {
                return None;
            }
            Some(match flavour {
                SelFlavour::Plain => Val::Tok(c),
                SelFlavour::State => {
                    if STATE_GUARD.with(|g| g.get()) {
                        let (_, end) = e.span().se();
                        if e.state().n != end as u64 {
                            return None;
                        }
                    }
                    let st = e.state();
                    Val::St(st.n, st.h, Box::new(Val::Tok(c)))
                }
                SelFlavour::Span => {
                    let (s, e2) = e.span().se();
                    Val::pair(Val::Span(s, e2), Val::Tok(c))
                }
            })
        })
        .boxed()
    }
    pub fn any_ref<'s, I: Kind<'s> + chumsky::input::BorrowInput<'s>, R: Er<'s, I>>() -> BP<'s, I, R> {
        chumsky::primitive::any_ref::<I, Ex<R>>().map(|t: &I::Tok| Val::Tok(t.to_char())).boxed()
    }
    pub fn select_ref<'s, I: Kind<'s> + chumsky::input::BorrowInput<'s>, R: Er<'s, I>>(s: &str, flavour: SelFlavour) -> BP<'s, I, R> {
        let set = s.to_string();
        chumsky::primitive::select_ref::<_, I, Val, Ex<R>>(move |t: &I::Tok, e| {
            let c = t.to_char();
            if !set.contains(c) {
                return None;
            }
            Some(match flavour {
                SelFlavour::Plain => Val::Tok(c),
                SelFlavour::State => {
                    if STATE_GUARD.with(|g| g.get()) {
                        let (_, end) = e.span().se();
                        if e.state().n != end as u64 {
                            return None;
                        }
                    }
                    let st = e.state();
                    Val::St(st.n, st.h, Box::new(Val::Tok(c)))
                }
                SelFlavour::Span => {
                    let (s, e2) = e.span().se();
                    Val::pair(Val::Span(s, e2), Val::Tok(c))
                }
            })
        })
        .boxed()
    }
    pub fn custom<'s, I: Kind<'s> + ValueInput<'s>, R: Er<'s, I>>(take: u8, ok: bool, tag: u32) -> BP<'s, I, R> {
        chumsky::primitive::custom::<_, I, Val, Ex<R>>(move |inp| {
            let before = inp.cursor();
            let mut s = String::new();
            for i in 0..take {
                // every second token is taken with peek() + skip() instead of next()
                let t = if i % 2 == 1 {
                    let t = inp.peek();
                    if t.is_some() {
                        inp.skip();
                    }
                    t
                } else {
                    inp.next()
                };
                match t {
                    Some(t) => s.push(t.to_char()),
                    None => return Err(R::custom(inp.span_since(&before), format!("C{}:eof", tag))),
                }
            }
            if ok {
                Ok(Val::Str(s))
            } else {
                Err(R::custom(inp.span_since(&before), format!("C{}", tag)))
            }
        })
        .boxed()
    }
    pub fn ext<'s, I: Kind<'s> + ValueInput<'s>, R: Er<'s, I>>(take: u8, ok: bool, tag: u32) -> BP<'s, I, R> {
        // every other extension parser relies on the trait's default `check`
        if (tag as usize + take as usize) % 2 == 1 {
            return Parser::<'s, I, Val, Ex<R>>::boxed(Ext(ExtD(ExtP { take, ok, tag })));
        }
        Parser::<'s, I, Val, Ex<R>>::boxed(Ext(ExtP { take, ok, tag }))
    }
    pub fn not<'s, I: Kind<'s> + ValueInput<'s>, R: Er<'s, I>>(p: BP<'s, I, R>) -> BP<'s, I, R> {
        p.not().map(|()| Val::Unit).boxed()
    }
    pub fn lazy<'s, I: Kind<'s> + ValueInput<'s>, R: Er<'s, I>>(p: BP<'s, I, R>) -> BP<'s, I, R> {
        p.lazy().boxed()
    }
    pub fn nested<'s, I: Kind<'s> + ValueInput<'s>, R: Er<'s, I>>(a: BP<'s, I, R>, open: char, close: char, others: &[(char, char)], tag: u32) -> BP<'s, I, R> {
        let o = I::Tok::from_char(open);
        let c = I::Tok::from_char(close);
        let ot: Vec<(I::Tok, I::Tok)> = others.iter().map(|(a, b)| (I::Tok::from_char(*a), I::Tok::from_char(*b))).collect();
        let fb = move |_s: I::Spn| Val::Fallback(tag);
        match ot.len() {
            0 => a.recover_with(via_parser(nested_delimiters::<I, Val, Ex<R>, _, 0>(o, c, [], fb))).boxed(),
            1 => a.recover_with(via_parser(nested_delimiters::<I, Val, Ex<R>, _, 1>(o, c, [ot[0].clone()], fb))).boxed(),
            _ => a.recover_with(via_parser(nested_delimiters::<I, Val, Ex<R>, _, 2>(o, c, [ot[0].clone(), ot[1].clone()], fb))).boxed(),
        }
    }
}

/// forwards the ValueInput-only primitives of `Kind` to `vprims`
macro_rules! value_kind_prims {
    () => {
        fn p_one_of<R: Er<'s, Self>>(set: &str) -> BP<'s, Self, R> {
            vprims::one_of::<Self, R>(set)
        }
        fn p_none_of<R: Er<'s, Self>>(set: &str) -> BP<'s, Self, R> {
            vprims::none_of::<Self, R>(set)
        }
        value_kind_prims!(nosets);
    };
    (nosets) => {
        fn p_any<R: Er<'s, Self>>() -> BP<'s, Self, R> {
            vprims::any::<Self, R>()
        }
        fn p_select<R: Er<'s, Self>>(set: &str, flavour: SelFlavour) -> BP<'s, Self, R> {
            vprims::select::<Self, R>(set, flavour)
        }
        fn p_custom<R: Er<'s, Self>>(take: u8, ok: bool, tag: u32) -> BP<'s, Self, R> {
            vprims::custom::<Self, R>(take, ok, tag)
        }
        fn p_ext<R: Er<'s, Self>>(take: u8, ok: bool, tag: u32) -> BP<'s, Self, R> {
            vprims::ext::<Self, R>(take, ok, tag)
        }
        fn p_not<R: Er<'s, Self>>(p: BP<'s, Self, R>) -> BP<'s, Self, R> {
            vprims::not::<Self, R>(p)
        }
        fn p_lazy<R: Er<'s, Self>>(p: BP<'s, Self, R>) -> BP<'s, Self, R> {
            vprims::lazy::<Self, R>(p)
        }
        fn p_nested<R: Er<'s, Self>>(a: BP<'s, Self, R>, open: char, close: char, others: &[(char, char)], tag: u32) -> BP<'s, Self, R> {
            vprims::nested::<Self, R>(a, open, close, others, tag)
        }
    };
}
/// by-reference primitives for kinds that are BorrowInputs
macro_rules! borrow_kind_prims {
    () => {
        const BORROW: bool = true;
        fn p_any_ref<R: Er<'s, Self>>() -> BP<'s, Self, R> {
            vprims::any_ref::<Self, R>()
        }
        fn p_select_ref<R: Er<'s, Self>>(set: &str, flavour: SelFlavour) -> BP<'s, Self, R> {
            vprims::select_ref::<Self, R>(set, flavour)
        }
    };
}
/// the same for kinds that are not ValueInputs
macro_rules! no_value_prims {
    () => {
        const VALUE: bool = false;
        fn p_any<R: Er<'s, Self>>() -> BP<'s, Self, R> {
            unreachable!("any() needs a ValueInput")
        }
        fn p_one_of<R: Er<'s, Self>>(_set: &str) -> BP<'s, Self, R> {
            unreachable!("one_of() needs a ValueInput")
        }
        fn p_none_of<R: Er<'s, Self>>(_set: &str) -> BP<'s, Self, R> {
            unreachable!("none_of() needs a ValueInput")
        }
        fn p_select<R: Er<'s, Self>>(_set: &str, _flavour: SelFlavour) -> BP<'s, Self, R> {
            unreachable!("select!() needs a ValueInput")
        }
        fn p_custom<R: Er<'s, Self>>(_take: u8, _ok: bool, _tag: u32) -> BP<'s, Self, R> {
            unreachable!("the generated custom() parser needs a ValueInput")
        }
        fn p_ext<R: Er<'s, Self>>(_take: u8, _ok: bool, _tag: u32) -> BP<'s, Self, R> {
            unreachable!("the generated Ext parser needs a ValueInput")
        }
        fn p_not<R: Er<'s, Self>>(_p: BP<'s, Self, R>) -> BP<'s, Self, R> {
            unreachable!("not() needs a ValueInput")
        }
        fn p_lazy<R: Er<'s, Self>>(_p: BP<'s, Self, R>) -> BP<'s, Self, R> {
            unreachable!("lazy() needs a ValueInput")
        }
        fn p_nested<R: Er<'s, Self>>(_a: BP<'s, Self, R>, _open: char, _close: char, _others: &[(char, char)], _tag: u32) -> BP<'s, Self, R> {
            unreachable!("nested_delimiters() needs a ValueInput")
        }
    };
}

pub trait Er<'s, I: Kind<'s>>:
    chumsky::error::Error<'s, I> + LabelError<'s, I, String> + Clone + Debug + 's
{
    const NAME: &'static str;
    fn custom(span: I::Spn, msg: String) -> Self;
    fn desc(&self) -> ErrDesc;
    /// span-preserving rewrite used by generated map_err nodes
    fn mark(self, tag: u32) -> Self;
}

fn pat_of<T: Tk>(p: &RichPattern<'_, T>) -> Pat {
    match p {
        RichPattern::Token(t) => Pat::Tok(t.to_char()),
        RichPattern::Label(l) => Pat::Label(l.to_string()),
        RichPattern::Identifier(i) => Pat::Ident(i.clone()),
        RichPattern::Any => Pat::Any,
        RichPattern::SomethingElse => Pat::SomethingElse,
        RichPattern::EndOfInput => Pat::End,
    }
}

impl<'s, I: Kind<'s>> Er<'s, I> for Rich<'s, I::Tok, I::Spn> {
    const NAME: &'static str = "Rich";
    fn custom(span: I::Spn, msg: String) -> Self {
        Rich::custom(span, msg)
    }
    fn desc(&self) -> ErrDesc {
        let (found, expected, mut custom) = match self.reason() {
            RichReason::ExpectedFound { expected, found } => {
                let mut e: Vec<Pat> = expected.iter().map(pat_of).collect();
                e.sort();
                e.dedup();
                (Some(found.as_ref().map(|t| t.to_char())), Some(e), None)
            }
            RichReason::Custom(m) => (None, None, Some(m.clone())),
        };
        // the accessors the property names -- found(), expected() -- must describe the same error as reason()
        let acc_found = self.found().map(|t| t.to_char());
        let mut acc_expected: Vec<Pat> = self.expected().map(pat_of).collect();
        acc_expected.sort();
        acc_expected.dedup();
        if acc_found != found.flatten() || acc_expected != expected.clone().unwrap_or_default() || self.reason().found().map(|t| t.to_char()) != acc_found {
            custom = Some(format!("ACCESSORS DISAGREE: found() = {:?}, expected() = {:?}, reason() = {:?}", acc_found, acc_expected, (&found, &expected, &custom)));
        }
        ErrDesc {
            span: self.span().se(),
            span_tag: self.span().tag(),
            found,
            expected,
            custom,
            contexts: self
                .contexts()
                .map(|(p, s)| (format!("{:?}", pat_of(p)), s.se()))
                .collect(),
        }
    }
    fn mark(self, tag: u32) -> Self {
        let d = <Self as Er<'s, I>>::desc(&self);
        Rich::custom(
            self.span().clone(),
            // `found` is left out: it is unspecified for a labelled user-supplied error
            crate::grammar::map_err_marker(tag, &d.expected, &d.custom),
        )
    }
}
impl<'s, I: Kind<'s>> Er<'s, I> for Simple<'s, I::Tok, I::Spn> {
    const NAME: &'static str = "Simple";
    fn custom(span: I::Spn, _msg: String) -> Self {
        Simple::new(None, span)
    }
    fn desc(&self) -> ErrDesc {
        ErrDesc {
            span: self.span().se(),
            span_tag: self.span().tag(),
            found: Some(self.found().map(|t| t.to_char())),
            expected: None,
            custom: None,
            contexts: vec![],
        }
    }
    fn mark(self, _tag: u32) -> Self {
        self
    }
}
impl<'s, I: Kind<'s>> Er<'s, I> for Cheap<I::Spn> {
    const NAME: &'static str = "Cheap";
    fn custom(span: I::Spn, _msg: String) -> Self {
        Cheap::new(span)
    }
    fn desc(&self) -> ErrDesc {
        ErrDesc {
            span: self.span().se(),
            span_tag: self.span().tag(),
            found: None,
            expected: None,
            custom: None,
            contexts: vec![],
        }
    }
    fn mark(self, _tag: u32) -> Self {
        self
    }
}
impl<'s, I: Kind<'s>> Er<'s, I> for EmptyErr {
    const NAME: &'static str = "EmptyErr";
    fn custom(_span: I::Spn, _msg: String) -> Self {
        EmptyErr::default()
    }
    fn desc(&self) -> ErrDesc {
        ErrDesc { span: (0, 0), span_tag: 0, found: None, expected: None, custom: None, contexts: vec![] }
    }
    fn mark(self, _tag: u32) -> Self {
        self
    }
}

// ---------------------------------------------------------------------------------------------
// input kinds with slices

fn str_slice_val(s: &str) -> Val {
    Val::Slice(s.as_ptr() as usize, s.len(), s.to_string())
}
fn tok_slice_val<T: Tk>(s: &[T]) -> Val {
    Val::Slice(s.as_ptr() as usize, s.len(), s.iter().map(|t| t.to_char()).collect())
}

/// small strings of generated grammars as `&'static str` (just("ab") with a string literal is the everyday form);
/// bounded: beyond 20000 distinct strings the caller falls back to an owned String
fn intern(s: &str) -> Option<&'static str> {
    use std::collections::HashSet;
    use std::sync::Mutex;
    static POOL: Mutex<Option<HashSet<&'static str>>> = Mutex::new(None);
    let mut g = POOL.lock().unwrap();
    let pool = g.get_or_insert_with(HashSet::new);
    if let Some(x) = pool.get(s) {
        return Some(*x);
    }
    if pool.len() >= 20_000 {
        return None;
    }
    let l: &'static str = Box::leak(s.to_string().into_boxed_str());
    pool.insert(l);
    Some(l)
}

fn fnv_str(s: &str) -> u64 {
    let mut h = 0xcbf29ce484222325u64;
    for b in s.bytes() {
        h = (h ^ b as u64).wrapping_mul(0x100000001b3);
    }
    h
}

/// the character set as every `Seq` representation the library offers, chosen by the set's content (so that one
/// grammar always builds the same way): a single token, an inclusive / half-open range when the characters are
/// consecutive code points, String, &'static str, [char; N], HashSet, BTreeSet, LinkedList, Vec
macro_rules! str_set_prim {
    ($f:ident, $set:expr, $R:ty) => {{
        let set: &str = $set;
        let mut cs: Vec<char> = set.chars().collect();
        let m = |t: char| Val::Tok(t);
        let h = fnv_str(set) >> 7;
        let mut sorted = cs.clone();
        sorted.sort();
        sorted.dedup();
        let contiguous = sorted.len() >= 2 && sorted.len() == cs.len() && sorted.windows(2).all(|w| w[0] as u32 + 1 == w[1] as u32);
        let next = |c: char| char::from_u32(c as u32 + 1);
        if cs.len() == 1 {
            chumsky::primitive::$f::<_, &'s str, Ex<$R>>(cs[0]).map(m).cb()
        } else if contiguous && h % 3 == 0 {
            chumsky::primitive::$f::<_, &'s str, Ex<$R>>(sorted[0]..=sorted[sorted.len() - 1]).map(m).cb()
        } else if contiguous && h % 3 == 1 && next(sorted[sorted.len() - 1]).is_some() {
            chumsky::primitive::$f::<_, &'s str, Ex<$R>>(sorted[0]..next(sorted[sorted.len() - 1]).unwrap()).map(m).cb()
        } else {
            match h % 8 {
                0 => chumsky::primitive::$f::<_, &'s str, Ex<$R>>(set.to_string()).map(m).cb(),
                1 if intern(set).is_some() => {
                    let lit: &'s str = intern(set).unwrap();
                    chumsky::primitive::$f::<_, &'s str, Ex<$R>>(lit).map(m).cb()
                }
                2 if cs.len() == 2 => chumsky::primitive::$f::<_, &'s str, Ex<$R>>([cs[0], cs[1]]).map(m).cb(),
                2 if cs.len() == 3 => chumsky::primitive::$f::<_, &'s str, Ex<$R>>([cs[0], cs[1], cs[2]]).map(m).cb(),
                3 => chumsky::primitive::$f::<_, &'s str, Ex<$R>>(cs.drain(..).collect::<std::collections::HashSet<char>>()).map(m).cb(),
                4 => chumsky::primitive::$f::<_, &'s str, Ex<$R>>(cs.drain(..).collect::<std::collections::BTreeSet<char>>()).map(m).cb(),
                5 => chumsky::primitive::$f::<_, &'s str, Ex<$R>>(cs.drain(..).collect::<std::collections::LinkedList<char>>()).map(m).cb(),
                _ => chumsky::primitive::$f::<_, &'s str, Ex<$R>>(cs).map(m).cb(),
            }
        }
    }};
}

impl<'s> Kind<'s> for &'s str {
    value_kind_prims!(nosets);
    fn p_one_of<R: Er<'s, Self>>(set: &str) -> BP<'s, Self, R> {
        str_set_prim!(one_of, set, R)
    }
    fn p_none_of<R: Er<'s, Self>>(set: &str) -> BP<'s, Self, R> {
        str_set_prim!(none_of, set, R)
    }
    /// just(seq) with the sequence as one char, a string literal, a String, [char; N] or a Vec<char>
    fn p_just<R: Er<'s, Self>>(s: &str) -> BP<'s, Self, R> {
        let cs: Vec<char> = s.chars().collect();
        let owned = s.to_string();
        let h = fnv_str(s) >> 5;
        match (cs.len(), h % 5) {
            (1, 0 | 1 | 2) => chumsky::primitive::just::<_, &'s str, Ex<R>>(cs[0]).map(|c: char| Val::Str(c.to_string())).cb(),
            (_, 0 | 1) if intern(s).is_some() => {
                let lit: &'s str = intern(s).unwrap();
                chumsky::primitive::just::<_, &'s str, Ex<R>>(lit).map(|x: &'s str| Val::Str(x.to_string())).cb()
            }
            (_, 2) => chumsky::primitive::just::<_, &'s str, Ex<R>>(owned).map(|x: String| Val::Str(x)).cb(),
            (2, 3) => chumsky::primitive::just::<_, &'s str, Ex<R>>([cs[0], cs[1]]).map(|x: [char; 2]| Val::Str(x.iter().collect())).cb(),
            (3, 3) => chumsky::primitive::just::<_, &'s str, Ex<R>>([cs[0], cs[1], cs[2]]).map(|x: [char; 3]| Val::Str(x.iter().collect())).cb(),
            _ => chumsky::primitive::just::<_, &'s str, Ex<R>>(cs).map(|v: Vec<char>| Val::Str(v.iter().collect())).cb(),
        }
    }
    fn p_iter_then<R: Er<'s, Self>>(this: &mut Bld<'s, Self, R>, parts: &[G], sink: u8) -> BP<'s, Self, R> {
        crate::build_c::iter_then_str(this, parts, sink)
    }
    fn cb_box<R: Er<'s, Self>, T: Parser<'s, Self, Val, Ex<R>> + Clone + 's>(p: T) -> BP<'s, Self, R> {
        if DEEP_CLONE.with(|d| d.get()) {
            let c = p.clone();
            drop(p);
            c.boxed()
        } else {
            p.boxed()
        }
    }
    fn cb_box_o<R: Er<'s, Self>, O: 's, T: Parser<'s, Self, O, Ex<R>> + Clone + 's>(p: T) -> chumsky::Boxed<'s, 's, Self, O, Ex<R>> {
        if DEEP_CLONE.with(|d| d.get()) {
            let c = p.clone();
            drop(p);
            c.boxed()
        } else {
            p.boxed()
        }
    }
    type Tok = char;
    type Spn = SimpleSpan;
    const HAS_SLICE: bool = true;
    fn slice_node<R: Er<'s, Self>>(p: BP<'s, Self, R>) -> BP<'s, Self, R> {
        p.to_slice().map(str_slice_val).boxed()
    }
    fn map_slice_node<R: Er<'s, Self>>(p: BP<'s, Self, R>) -> BP<'s, Self, R> {
        p.map_with(|v, e| Val::pair(str_slice_val(e.slice()), v)).boxed()
    }
    fn slice_node_explicit<R: Er<'s, Self>>(p: BP<'s, Self, R>) -> BP<'s, Self, R> {
        p.map_with(|_v, e| str_slice_val(e.slice())).boxed()
    }
}
impl<'s, T: Tk> Kind<'s> for &'s [T] {
    value_kind_prims!();
    borrow_kind_prims!();
    type Tok = T;
    type Spn = SimpleSpan;
    const HAS_SLICE: bool = true;
    fn slice_node<R: Er<'s, Self>>(p: BP<'s, Self, R>) -> BP<'s, Self, R> {
        p.to_slice().map(tok_slice_val::<T>).boxed()
    }
    fn map_slice_node<R: Er<'s, Self>>(p: BP<'s, Self, R>) -> BP<'s, Self, R> {
        p.map_with(|v, e| Val::pair(tok_slice_val::<T>(e.slice()), v)).boxed()
    }
    fn slice_node_explicit<R: Er<'s, Self>>(p: BP<'s, Self, R>) -> BP<'s, Self, R> {
        p.map_with(|_v, e| tok_slice_val::<T>(e.slice())).boxed()
    }
}

pub type CharStream = chumsky::input::Stream<std::vec::IntoIter<char>>;
pub type TokStream<T> = chumsky::input::Stream<std::vec::IntoIter<T>>;
impl<'s, T: Tk> Kind<'s> for TokStream<T> {
    value_kind_prims!();
    type Tok = T;
    type Spn = SimpleSpan;
    const HAS_SLICE: bool = false;
    fn slice_node<R: Er<'s, Self>>(_p: BP<'s, Self, R>) -> BP<'s, Self, R> {
        unreachable!("Stream has no slices")
    }
    fn map_slice_node<R: Er<'s, Self>>(_p: BP<'s, Self, R>) -> BP<'s, Self, R> {
        unreachable!("Stream has no slices")
    }
    fn slice_node_explicit<R: Er<'s, Self>>(_p: BP<'s, Self, R>) -> BP<'s, Self, R> {
        unreachable!("Stream has no slices")
    }
}
pub fn char_stream(toks: &[char]) -> CharStream {
    chumsky::input::Stream::from_iter(toks.to_vec().into_iter())
}

// ---------------------------------------------------------------------------------------------
// inputs whose tokens carry their own (gapped) spans

pub type SpTok = (char, SimpleSpan);
pub type SpSlice<'s> = chumsky::input::MappedInput<char, SimpleSpan, &'s [SpTok], fn(&'s SpTok) -> (&'s char, &'s SimpleSpan)>;
pub type SpStream = chumsky::input::MappedInput<char, SimpleSpan, chumsky::input::Stream<std::vec::IntoIter<SpTok>>, fn(SpTok) -> (char, SimpleSpan)>;
pub type SpIter = chumsky::input::IterInput<std::vec::IntoIter<SpTok>, SimpleSpan>;

fn sp_ref<'s>(t: &'s SpTok) -> (&'s char, &'s SimpleSpan) {
    (&t.0, &t.1)
}
fn sp_val(t: SpTok) -> (char, SimpleSpan) {
    t
}
pub fn sp_slice<'s>(toks: &'s [SpTok], eoi: (usize, usize)) -> SpSlice<'s> {
    toks.map(SimpleSpan::from(eoi.0..eoi.1), sp_ref as fn(&'s SpTok) -> (&'s char, &'s SimpleSpan))
}
pub fn sp_stream(toks: &[SpTok], eoi: (usize, usize)) -> SpStream {
    chumsky::input::Stream::from_iter(toks.to_vec().into_iter()).map(SimpleSpan::from(eoi.0..eoi.1), sp_val as fn(SpTok) -> (char, SimpleSpan))
}
pub fn sp_iter(toks: &[SpTok], eoi: (usize, usize)) -> SpIter {
    chumsky::input::IterInput::new(toks.to_vec().into_iter(), SimpleSpan::from(eoi.0..eoi.1))
}

macro_rules! no_slices {
    () => {
        const HAS_SLICE: bool = false;
        fn slice_node<R: Er<'s, Self>>(_p: BP<'s, Self, R>) -> BP<'s, Self, R> {
            unreachable!("this input kind has no slices")
        }
        fn map_slice_node<R: Er<'s, Self>>(_p: BP<'s, Self, R>) -> BP<'s, Self, R> {
            unreachable!("this input kind has no slices")
        }
        fn slice_node_explicit<R: Er<'s, Self>>(_p: BP<'s, Self, R>) -> BP<'s, Self, R> {
            unreachable!("this input kind has no slices")
        }
    };
}

impl<'s> Kind<'s> for SpSlice<'s> {
    type Tok = char;
    type Spn = SimpleSpan;
    no_slices!();
    value_kind_prims!();
    borrow_kind_prims!();
}
impl<'s> Kind<'s> for SpStream {
    type Tok = char;
    type Spn = SimpleSpan;
    no_slices!();
    value_kind_prims!();
}
impl<'s> Kind<'s> for SpIter {
    type Tok = char;
    type Spn = SimpleSpan;
    no_slices!();
    no_value_prims!();
}

// ---------------------------------------------------------------------------------------------
// further input kinds (C10): arrays, streams over a counting iterator (plain / boxed / exact-size
// boxed), IoInput, with_context, map_span

impl<'s, T: Tk, const N: usize> Kind<'s> for &'s [T; N] {
    value_kind_prims!();
    borrow_kind_prims!();
    type Tok = T;
    type Spn = SimpleSpan;
    const HAS_SLICE: bool = true;
    fn slice_node<R: Er<'s, Self>>(p: BP<'s, Self, R>) -> BP<'s, Self, R> {
        p.to_slice().map(tok_slice_val::<T>).boxed()
    }
    fn map_slice_node<R: Er<'s, Self>>(p: BP<'s, Self, R>) -> BP<'s, Self, R> {
        p.map_with(|v, e| Val::pair(tok_slice_val::<T>(e.slice()), v)).boxed()
    }
    fn slice_node_explicit<R: Er<'s, Self>>(p: BP<'s, Self, R>) -> BP<'s, Self, R> {
        p.map_with(|_v, e| tok_slice_val::<T>(e.slice())).boxed()
    }
}

/// A cloneable iterator over a token vector that logs every item it yields (by index) into a log
/// shared by all its clones: "every item is pulled at most once and in order" <=> the log is
/// 0, 1, 2, ... without repetition.
#[derive(Clone)]
pub struct CountIter {
    toks: Rc<Vec<char>>,
    i: usize,
    pub log: Rc<std::cell::RefCell<Vec<u32>>>,
    /// report the size hint of a filtering / generating iterator -- (0, None) -- instead of the exact one (a lexer
    /// iterator knows nothing about how many tokens are left; only for Streams that do not need ExactSizeIterator)
    loose: bool,
}
impl CountIter {
    pub fn new(toks: &[char]) -> CountIter {
        CountIter { toks: Rc::new(toks.to_vec()), i: 0, log: Rc::new(std::cell::RefCell::new(Vec::new())), loose: false }
    }
    pub fn loose(toks: &[char]) -> CountIter {
        CountIter { loose: true, ..CountIter::new(toks) }
    }
}
impl Iterator for CountIter {
    type Item = char;
    fn next(&mut self) -> Option<char> {
        let r = self.toks.get(self.i).copied();
        if r.is_some() {
            self.log.borrow_mut().push(self.i as u32);
            self.i += 1;
        }
        r
    }
    fn size_hint(&self) -> (usize, Option<usize>) {
        if self.loose {
            return (0, None);
        }
        let n = self.toks.len() - self.i;
        (n, Some(n))
    }
}
impl ExactSizeIterator for CountIter {}

pub type CountStream = chumsky::input::Stream<CountIter>;
pub type BoxStream<'s> = chumsky::input::BoxedStream<'s, char>;
pub type BoxExactStream<'s> = chumsky::input::BoxedExactSizeStream<'s, char>;
impl<'s> Kind<'s> for CountStream {
    type Tok = char;
    type Spn = SimpleSpan;
    no_slices!();
    value_kind_prims!();
}
impl<'s> Kind<'s> for BoxStream<'s> {
    type Tok = char;
    type Spn = SimpleSpan;
    no_slices!();
    value_kind_prims!();
}
impl<'s> Kind<'s> for BoxExactStream<'s> {
    type Tok = char;
    type Spn = SimpleSpan;
    no_slices!();
    value_kind_prims!();
}

pub type IoIn = chumsky::input::IoInput<std::io::Cursor<Vec<u8>>>;
impl<'s> Kind<'s> for IoIn {
    type Tok = u8;
    type Spn = SimpleSpan;
    no_slices!();
    value_kind_prims!();
}

pub type CtxSpan = SimpleSpan<usize, u32>;
pub type WithCtxStr<'s> = chumsky::input::WithContext<CtxSpan, &'s str>;
impl<'s> Kind<'s> for WithCtxStr<'s> {
    value_kind_prims!();
    type Tok = char;
    type Spn = CtxSpan;
    const HAS_SLICE: bool = true;
    fn slice_node<R: Er<'s, Self>>(p: BP<'s, Self, R>) -> BP<'s, Self, R> {
        p.to_slice().map(str_slice_val).boxed()
    }
    fn map_slice_node<R: Er<'s, Self>>(p: BP<'s, Self, R>) -> BP<'s, Self, R> {
        p.map_with(|v, e| Val::pair(str_slice_val(e.slice()), v)).boxed()
    }
    fn slice_node_explicit<R: Er<'s, Self>>(p: BP<'s, Self, R>) -> BP<'s, Self, R> {
        p.map_with(|_v, e| str_slice_val(e.slice())).boxed()
    }
}

pub const SHIFT: usize = 1000;
pub type MapSpanSlice<'s> = chumsky::input::MappedSpan<Shifted, &'s [char], fn(SimpleSpan) -> Shifted>;
fn shift_span(s: SimpleSpan) -> Shifted {
    Shifted(s.start + SHIFT, s.end + SHIFT)
}
pub fn map_span_slice<'s>(toks: &'s [char]) -> MapSpanSlice<'s> {
    toks.map_span(shift_span as fn(SimpleSpan) -> Shifted)
}
impl<'s> Kind<'s> for MapSpanSlice<'s> {
    value_kind_prims!();
    borrow_kind_prims!();
    type Tok = char;
    type Spn = Shifted;
    const HAS_SLICE: bool = true;
    fn slice_node<R: Er<'s, Self>>(p: BP<'s, Self, R>) -> BP<'s, Self, R> {
        p.to_slice().map(tok_slice_val::<char>).boxed()
    }
    fn map_slice_node<R: Er<'s, Self>>(p: BP<'s, Self, R>) -> BP<'s, Self, R> {
        p.map_with(|v, e| Val::pair(tok_slice_val::<char>(e.slice()), v)).boxed()
    }
    fn slice_node_explicit<R: Er<'s, Self>>(p: BP<'s, Self, R>) -> BP<'s, Self, R> {
        p.map_with(|_v, e| tok_slice_val::<char>(e.slice())).boxed()
    }
}

// ---------------------------------------------------------------------------------------------
// token trees (C16): a token is a leaf or a group that owns its children (with their spans) and the
// eoi span of the inner input

#[derive(Clone, Debug, PartialEq)]
pub enum TT {
    Leaf(char),
    Group(Vec<(TT, SimpleSpan)>, SimpleSpan),
}
impl Tk for TT {
    fn from_char(c: char) -> Self {
        TT::Leaf(c)
    }
    fn to_char(&self) -> char {
        match self {
            TT::Leaf(c) => *c,
            TT::Group(..) => GOPEN,
        }
    }
}
pub type TTPair = (TT, SimpleSpan);
pub type TTIn<'s> = chumsky::input::MappedInput<TT, SimpleSpan, &'s [TTPair], fn(&'s TTPair) -> (&'s TT, &'s SimpleSpan)>;
fn tt_ref<'s>(t: &'s TTPair) -> (&'s TT, &'s SimpleSpan) {
    (&t.0, &t.1)
}
pub fn tt_input<'s>(toks: &'s [TTPair], eoi: SimpleSpan) -> TTIn<'s> {
    toks.map(eoi, tt_ref as fn(&'s TTPair) -> (&'s TT, &'s SimpleSpan))
}
pub fn tt_from_nodes(nodes: &[TNode]) -> Vec<TTPair> {
    nodes
        .iter()
        .map(|n| {
            let t = match &n.tok {
                TreeTok::Leaf(c) => TT::Leaf(*c),
                TreeTok::Group(kids, eoi) => TT::Group(tt_from_nodes(kids), SimpleSpan::from(eoi.0..eoi.1)),
            };
            (t, SimpleSpan::from(n.span.0..n.span.1))
        })
        .collect()
}
impl<'s> Kind<'s> for TTIn<'s> {
    type Tok = TT;
    type Spn = SimpleSpan;
    no_slices!();
    value_kind_prims!();
    borrow_kind_prims!();
    fn p_nested_in<R: Er<'s, Self>>(a: BP<'s, Self, R>) -> BP<'s, Self, R> {
        let group = chumsky::select_ref! { TT::Group(kids, eoi) => tt_input(kids.as_slice(), *eoi) };
        a.nested_in(group).boxed()
    }
}

// ---------------------------------------------------------------------------------------------
// extension parser with separately written parse / check paths

#[derive(Clone)]
pub struct ExtP {
    pub take: u8,
    pub ok: bool,
    pub tag: u32,
}
impl<'s, I: Kind<'s> + ValueInput<'s>, R: Er<'s, I>> ExtParser<'s, I, Val, Ex<R>> for ExtP {
    fn parse(&self, inp: &mut InputRef<'s, '_, I, Ex<R>>) -> Result<Val, R> {
        let before = inp.cursor();
        let mut s = String::new();
        for _ in 0..self.take {
            match inp.next() {
                Some(t) => s.push(t.to_char()),
                None => return Err(R::custom(inp.span_since(&before), format!("C{}:eof", self.tag))),
            }
        }
        if self.ok {
            Ok(Val::Str(s))
        } else {
            Err(R::custom(inp.span_since(&before), format!("C{}", self.tag)))
        }
    }
    fn check(&self, inp: &mut InputRef<'s, '_, I, Ex<R>>) -> Result<(), R> {
        // deliberately written separately from `parse`: counts instead of collecting
        let before = inp.cursor();
        let mut left = self.take;
        while left > 0 {
            if inp.next().is_none() {
                return Err(R::custom(inp.span_since(&before), format!("C{}:eof", self.tag)));
            }
            left -= 1;
        }
        if !self.ok {
            return Err(R::custom(inp.span_since(&before), format!("C{}", self.tag)));
        }
        Ok(())
    }
}

/// the same extension parser WITHOUT its own `check`: the trait's default (`parse` with the output dropped) is on the path
#[derive(Clone)]
pub struct ExtD(pub ExtP);
impl<'s, I: Kind<'s> + ValueInput<'s>, R: Er<'s, I>> ExtParser<'s, I, Val, Ex<R>> for ExtD {
    fn parse(&self, inp: &mut InputRef<'s, '_, I, Ex<R>>) -> Result<Val, R> {
        <ExtP as ExtParser<'s, I, Val, Ex<R>>>::parse(&self.0, inp)
    }
}

/// an extension parser around an inner parser: parse() and check() are written separately and hand the input to the
/// inner parser through InputRef::parse / InputRef::check
pub struct ExtOf<'s, I: Kind<'s>, R: Er<'s, I>>(pub BP<'s, I, R>);
impl<'s, I: Kind<'s>, R: Er<'s, I>> Clone for ExtOf<'s, I, R> {
    fn clone(&self) -> Self {
        ExtOf(self.0.clone())
    }
}
impl<'s, I: Kind<'s>, R: Er<'s, I>> ExtParser<'s, I, Val, Ex<R>> for ExtOf<'s, I, R> {
    fn parse(&self, inp: &mut InputRef<'s, '_, I, Ex<R>>) -> Result<Val, R> {
        inp.parse(&self.0)
    }
    fn check(&self, inp: &mut InputRef<'s, '_, I, Ex<R>>) -> Result<(), R> {
        inp.check(&self.0)
    }
}

pub fn ctx_op(k: u8, c: &Val) -> Val {
    // context mappers used by generated map_ctx nodes
    let mut toks = Vec::new();
    c.tokens(&mut toks);
    match k % 3 {
        0 => Val::Str(toks.iter().rev().collect()),
        1 => Val::Str(toks.iter().chain(toks.iter()).collect()),
        _ => Val::Str(toks.iter().skip(1).collect()),
    }
}

#[derive(Clone, Copy, Debug, PartialEq, Eq)]
pub enum RecStyle {
    Func,
    DeclareDefine,
    /// declare, clone the handle BEFORE define, define, drop the declaring handle, keep the early clone
    EarlyClone,
}

pub struct Bld<'s, I: Kind<'s>, R: Er<'s, I>> {
    pub ids: HashMap<*const G, u32>,
    pub observed: bool,
    pub rec_style: RecStyle,
    /// C04: build every value-eliding combinator in its value-building formulation
    pub explicit: bool,
    /// C18: wrap every node in a map_with that records the user state (and make select / fold_with
    /// callbacks record it too)
    pub obs_state: bool,
    /// C07: try_map / validate / select closures also record the span they are given
    pub cap_spans: bool,
    /// build any() / select!() as any_ref() / select_ref!() where the input kind is a BorrowInput
    pub borrow_prims: bool,
    /// C11: structurally equal (closed) memoized sub-grammars are built ONCE and the same parser value is cloned
    /// into every place (clones of a Boxed share the memoized parser, hence its memo key)
    pub share_memo: bool,
    pub memo_cache: HashMap<G, BP<'s, I, R>>,
    pub recs: HashMap<u8, BP<'s, I, R>>,
    /// bounds of the repetition whose sink is being built (picks the fixed-size container kind: array, Box, Rc, Arc)
    pub hint: usize,
}


impl<'s, I: Kind<'s>, R: Er<'s, I>> Bld<'s, I, R> {
    pub fn new(g: &G, observed: bool) -> Self {
        Bld { ids: number(g), observed, rec_style: RecStyle::Func, explicit: false, obs_state: false, cap_spans: false, borrow_prims: false, share_memo: false, memo_cache: HashMap::new(), recs: HashMap::new(), hint: 0 }
    }

    pub fn build(&mut self, g: &G) -> BP<'s, I, R> {
        let p = self.node(g);
        let p = if self.observed {
            let id = self.ids[&(g as *const G)];
            p.map_with(move |v, e| {
                let (s, e2) = e.span().se();
                Val::obs(id, s, e2, v)
            })
            .cb()
        } else {
            p
        };
        if self.obs_state {
            p.map_with(|v, e| {
                let st = e.state();
                Val::St(st.n, st.h, Box::new(v))
            })
            .cb()
        } else {
            p
        }
    }

    pub fn node(&mut self, g: &G) -> BP<'s, I, R> {
        use G::*;
        match g {
            Just(_) | Any | OneOf(_) | NoneOf(_) | Select(_) | End | Empty | Custom { .. } | G::Ext { .. } | Then(..) | IgnoreThen(..) | ThenIgnore(..) | Group(_) | GroupArr(_) | Or(..) | Choice(_) | ChoiceVec(_) | ChoiceArr(_) | OrNot(_) | Not(_) | AndIs(..) | Rewind(_) | Delim { .. } | PaddedBy(..) => crate::build_a::node_a(self, g),
            Map(..) | To(..) | Ignored(_) | Filter(..) | TryMap(..) | TryMapWith(..) | ToSlice(_) | MapSlice(_) | ToSpan(_) | MapSpan(_) | Unwrapped(_) | IntoIter(..) => crate::build_b::node_b(self, g),
            G::Rep(r) => crate::build_c::rep_node(self, r),
            IterThen(parts, k) => I::p_iter_then::<R>(self, parts, *k),
            Validate(..) | Recover(..) | Labelled(..) | MapErr(..) | Memo(_) | Wrapped(..) | Rec(..) | RecRef(_) | Lazy(_) | NestedIn(_) => crate::build_d::node_d(self, g),
            StPush(..) | StObs(_) | WithState(..) | WithCtx(..) | ThenWithCtx(..) | IgnoreWithCtx(..) | MapCtx(..) | CxObs(_) | JustCfg(_) | Track(..) => crate::build_e::node_e(self, g),
        }
    }
}

pub fn build<'s, I: Kind<'s>, R: Er<'s, I>>(g: &G, observed: bool) -> BP<'s, I, R> {
    Bld::<'s, I, R>::new(g, observed).build(g)
}
pub fn build_explicit<'s, I: Kind<'s>, R: Er<'s, I>>(g: &G) -> BP<'s, I, R> {
    let mut b = Bld::<'s, I, R>::new(g, false);
    b.explicit = true;
    b.build(g)
}
pub fn build_obs_state<'s, I: Kind<'s>, R: Er<'s, I>>(g: &G, observed: bool) -> BP<'s, I, R> {
    let mut b = Bld::<'s, I, R>::new(g, observed);
    b.obs_state = true;
    b.build(g)
}
pub fn build_with<'s, I: Kind<'s>, R: Er<'s, I>>(g: &G, observed: bool, rs: RecStyle) -> BP<'s, I, R> {
    let mut b = Bld::<'s, I, R>::new(g, observed);
    b.rec_style = rs;
    b.build(g)
}
