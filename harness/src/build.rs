//! Dynamic builder: turns a grammar `G` into a real chumsky parser (boxed children, real
//! monomorphised combinators at each node), generic over the input kind and the error type.
#![allow(clippy::type_complexity)]
use crate::grammar::*;
use crate::val::{Tracked, Val};
use chumsky::error::{Cheap, EmptyErr, LabelError, Rich, RichPattern, RichReason, Simple};
use chumsky::extension::v1::{Ext, ExtParser};
use chumsky::extra::Full;
use chumsky::input::{Checkpoint, Cursor, Input, InputRef, ValueInput};
use chumsky::inspector::Inspector;
use chumsky::prelude::*;
use chumsky::recursive::{Indirect, Recursive};
use chumsky::{ConfigIterParser, ConfigParser, IterParser};
use std::collections::HashMap;
use std::fmt::Debug;
use std::rc::Rc;
use std::sync::Arc;

// ---------------------------------------------------------------------------------------------
// tokens, spans, user state

pub trait Tk: Clone + PartialEq + Debug + 'static {
    fn from_char(c: char) -> Self;
    fn to_char(&self) -> char;
}
impl Tk for char {
    fn from_char(c: char) -> Self {
        c
    }
    fn to_char(&self) -> char {
        *self
    }
}
impl Tk for u8 {
    fn from_char(c: char) -> Self {
        c as u32 as u8
    }
    fn to_char(&self) -> char {
        *self as char
    }
}

/// a token whose every instance is registered in the drop ledger (C19: the caller's tokens are never
/// dropped or duplicated other than by Clone)
#[derive(Clone, Debug)]
pub struct TTok {
    pub c: char,
    pub t: Tracked,
}
impl PartialEq for TTok {
    fn eq(&self, o: &Self) -> bool {
        self.c == o.c
    }
}
impl std::fmt::Display for TTok {
    fn fmt(&self, f: &mut std::fmt::Formatter<'_>) -> std::fmt::Result {
        write!(f, "{}", self.c)
    }
}
impl Tk for TTok {
    fn from_char(c: char) -> Self {
        TTok { c, t: Tracked::new(7777) }
    }
    fn to_char(&self) -> char {
        self.c
    }
}

pub trait Sp: chumsky::span::Span + Clone + Debug + 'static {
    fn se(&self) -> (usize, usize);
    fn tag(&self) -> u32 {
        0
    }
}
impl Sp for SimpleSpan {
    fn se(&self) -> (usize, usize) {
        (self.start, self.end)
    }
}
pub const CTX_TAG: u32 = 4242;
thread_local! {
    /// set when a span of a with_context input is seen that does not carry the context (C10)
    pub static BAD_CTX: std::cell::Cell<bool> = std::cell::Cell::new(false);
}
impl Sp for SimpleSpan<usize, u32> {
    fn se(&self) -> (usize, usize) {
        if self.context != CTX_TAG {
            BAD_CTX.with(|b| b.set(true));
        }
        (self.start, self.end)
    }
    fn tag(&self) -> u32 {
        self.context
    }
}
/// span type used by the `map_span` input kind: offsets shifted by 1000
#[derive(Clone, Debug, PartialEq)]
pub struct Shifted(pub usize, pub usize);
impl chumsky::span::Span for Shifted {
    type Context = ();
    type Offset = usize;
    fn new(_: (), r: std::ops::Range<usize>) -> Self {
        Shifted(r.start, r.end)
    }
    fn context(&self) {}
    fn start(&self) -> usize {
        self.0
    }
    fn end(&self) -> usize {
        self.1
    }
}
impl Sp for Shifted {
    fn se(&self) -> (usize, usize) {
        (self.0, self.1)
    }
    fn tag(&self) -> u32 {
        7
    }
}

thread_local! {
    /// number of times a generated map_err function was invoked (C17; DESIGN.md 3.5's exception)
    pub static MAPERR_CALLS: std::cell::Cell<u64> = std::cell::Cell::new(0);
}
pub fn maperr_calls_reset() {
    MAPERR_CALLS.with(|c| c.set(0))
}
pub fn maperr_calls() -> u64 {
    MAPERR_CALLS.with(|c| c.get())
}
fn maperr_bump() {
    MAPERR_CALLS.with(|c| c.set(c.get() + 1))
}

pub fn fnv_step(h: u64, c: char) -> u64 {
    (h ^ (c as u64)).wrapping_mul(0x100000001b3)
}
pub const FNV0: u64 = 0xcbf29ce484222325;

/// The user state used by every generated parser: an Inspector whose checkpoint is a snapshot.
#[derive(Clone, Debug, PartialEq)]
pub struct Insp {
    pub n: u64,
    pub h: u64,
    pub log: Vec<u32>,
    /// total number of on_token calls (never rewound): a deterministic work counter
    pub work: u64,
    pub rewinds: u64,
    /// 0 = unlimited; otherwise on_token panics once `work` exceeds it (C20's deterministic work bound)
    pub budget: u64,
}
impl Default for Insp {
    fn default() -> Self {
        Insp { n: 0, h: FNV0, log: Vec::new(), work: 0, rewinds: 0, budget: 0 }
    }
}
impl Insp {
    pub fn seeded(seed: u64) -> Insp {
        Insp { n: 0, h: FNV0 ^ seed.wrapping_mul(0x9e3779b97f4a7c15), log: Vec::new(), work: 0, rewinds: 0, budget: 0 }
    }
    pub fn fold(mut self, toks: impl Iterator<Item = char>) -> Insp {
        for c in toks {
            self.n += 1;
            self.h = fnv_step(self.h, c);
        }
        self
    }
}
impl<'s, I: Input<'s>> Inspector<'s, I> for Insp
where
    I::Token: Tk,
{
    type Checkpoint = (u64, u64, usize);
    #[inline]
    fn on_token(&mut self, t: &I::Token) {
        self.n += 1;
        self.h = fnv_step(self.h, t.to_char());
        self.work += 1;
        if self.budget != 0 && self.work > self.budget {
            panic!("work budget exceeded: more than {} tokens consumed", self.budget);
        }
    }
    #[inline]
    fn on_save<'p>(&self, _: &Cursor<'s, 'p, I>) -> Self::Checkpoint {
        (self.n, self.h, self.log.len())
    }
    #[inline]
    fn on_rewind<'p>(&mut self, m: &Checkpoint<'s, 'p, I, Self::Checkpoint>) {
        let (n, h, l) = *m.inspector();
        self.n = n;
        self.h = h;
        self.log.truncate(l);
        self.rewinds += 1;
    }
}

// ---------------------------------------------------------------------------------------------
// canonical error description

#[derive(Clone, Debug, PartialEq, Eq, PartialOrd, Ord, Hash, serde::Serialize, serde::Deserialize)]
pub enum Pat {
    Tok(char),
    Any,
    SomethingElse,
    End,
    Label(String),
    Ident(String),
}

#[derive(Clone, Debug, PartialEq, Eq, serde::Serialize)]
pub struct ErrDesc {
    pub span: (usize, usize),
    pub span_tag: u32,
    /// None: the error type does not carry it
    pub found: Option<Option<char>>,
    pub expected: Option<Vec<Pat>>,
    pub custom: Option<String>,
    pub contexts: Vec<(String, (usize, usize))>,
}

pub type Ex<R> = Full<R, Insp, Val>;
pub type BP<'s, I, R> = Boxed<'s, 's, I, Val, Ex<R>>;

macro_rules! toks {
    ($s:expr, $I:ty) => {
        $s.chars().map(<<$I as Kind>::Tok as Tk>::from_char).collect::<Vec<_>>()
    };
}

pub trait Kind<'s>: Input<'s, Token = Self::Tok, Span = Self::Spn> + Sized + 's {
    type Tok: Tk;
    type Spn: Sp;
    const HAS_SLICE: bool;
    /// false for inputs that implement only `Input` (IterInput): any / one_of / none_of / select / not / lazy /
    /// custom / nested_delimiters are not available there and the generators do not produce them
    const VALUE: bool = true;
    fn slice_node<R: Er<'s, Self>>(p: BP<'s, Self, R>) -> BP<'s, Self, R>;
    fn map_slice_node<R: Er<'s, Self>>(p: BP<'s, Self, R>) -> BP<'s, Self, R>;
    /// value-building formulation of to_slice(): map_with(|_, e| e.slice())
    fn slice_node_explicit<R: Er<'s, Self>>(p: BP<'s, Self, R>) -> BP<'s, Self, R>;
    // primitives and combinators that need ValueInput
    fn p_any<R: Er<'s, Self>>() -> BP<'s, Self, R>;
    fn p_one_of<R: Er<'s, Self>>(set: &str) -> BP<'s, Self, R>;
    fn p_none_of<R: Er<'s, Self>>(set: &str) -> BP<'s, Self, R>;
    fn p_select<R: Er<'s, Self>>(set: &str, flavour: SelFlavour) -> BP<'s, Self, R>;
    fn p_custom<R: Er<'s, Self>>(take: u8, ok: bool, tag: u32) -> BP<'s, Self, R>;
    fn p_ext<R: Er<'s, Self>>(take: u8, ok: bool, tag: u32) -> BP<'s, Self, R>;
    fn p_not<R: Er<'s, Self>>(p: BP<'s, Self, R>) -> BP<'s, Self, R>;
    fn p_lazy<R: Er<'s, Self>>(p: BP<'s, Self, R>) -> BP<'s, Self, R>;
    fn p_nested<R: Er<'s, Self>>(a: BP<'s, Self, R>, open: char, close: char, others: &[(char, char)], tag: u32) -> BP<'s, Self, R>;
    /// the kind is a BorrowInput (any_ref / select_ref! exist)
    const BORROW: bool = false;
    /// any_ref() / select_ref!() where the kind is a BorrowInput, else the by-value primitives
    fn p_any_ref<R: Er<'s, Self>>() -> BP<'s, Self, R> {
        Self::p_any::<R>()
    }
    fn p_select_ref<R: Er<'s, Self>>(set: &str, flavour: SelFlavour) -> BP<'s, Self, R> {
        Self::p_select::<R>(set, flavour)
    }
    /// `a.nested_in(group)`: only the token-tree kind has group tokens (C16)
    fn p_nested_in<R: Er<'s, Self>>(_a: BP<'s, Self, R>) -> BP<'s, Self, R> {
        unreachable!("nested_in needs the token-tree input kind")
    }
}

#[derive(Clone, Copy, Debug, PartialEq, Eq)]
pub enum SelFlavour {
    Plain,
    /// the closure also records e.state() (C18)
    State,
    /// the closure also records e.span() (C07)
    Span,
}

/// the ValueInput-only primitives, written once for every kind that is a ValueInput
pub mod vprims {
    use super::*;
    pub fn any<'s, I: Kind<'s> + ValueInput<'s>, R: Er<'s, I>>() -> BP<'s, I, R> {
        chumsky::primitive::any::<I, Ex<R>>().map(|t: I::Tok| Val::Tok(t.to_char())).boxed()
    }
    pub fn one_of<'s, I: Kind<'s> + ValueInput<'s>, R: Er<'s, I>>(s: &str) -> BP<'s, I, R> {
        chumsky::primitive::one_of::<_, I, Ex<R>>(toks!(s, I)).map(|t: I::Tok| Val::Tok(t.to_char())).boxed()
    }
    pub fn none_of<'s, I: Kind<'s> + ValueInput<'s>, R: Er<'s, I>>(s: &str) -> BP<'s, I, R> {
        chumsky::primitive::none_of::<_, I, Ex<R>>(toks!(s, I)).map(|t: I::Tok| Val::Tok(t.to_char())).boxed()
    }
    pub fn select<'s, I: Kind<'s> + ValueInput<'s>, R: Er<'s, I>>(s: &str, flavour: SelFlavour) -> BP<'s, I, R> {
        let set = s.to_string();
        chumsky::primitive::select::<_, I, Val, Ex<R>>(move |t: I::Tok, e| {
            let c = t.to_char();
            if !set.contains(c) {
                return None;
            }
            Some(match flavour {
                SelFlavour::Plain => Val::Tok(c),
                SelFlavour::State => {
                    let st = e.state();
                    Val::St(st.n, st.h, Box::new(Val::Tok(c)))
                }
                SelFlavour::Span => {
                    let (s, e2) = e.span().se();
                    Val::pair(Val::Span(s, e2), Val::Tok(c))
                }
            })
        })
        .boxed()
    }
    pub fn any_ref<'s, I: Kind<'s> + chumsky::input::BorrowInput<'s>, R: Er<'s, I>>() -> BP<'s, I, R> {
        chumsky::primitive::any_ref::<I, Ex<R>>().map(|t: &I::Tok| Val::Tok(t.to_char())).boxed()
    }
    pub fn select_ref<'s, I: Kind<'s> + chumsky::input::BorrowInput<'s>, R: Er<'s, I>>(s: &str, flavour: SelFlavour) -> BP<'s, I, R> {
        let set = s.to_string();
        chumsky::primitive::select_ref::<_, I, Val, Ex<R>>(move |t: &I::Tok, e| {
            let c = t.to_char();
            if !set.contains(c) {
                return None;
            }
            Some(match flavour {
                SelFlavour::Plain => Val::Tok(c),
                SelFlavour::State => {
                    let st = e.state();
                    Val::St(st.n, st.h, Box::new(Val::Tok(c)))
                }
                SelFlavour::Span => {
                    let (s, e2) = e.span().se();
                    Val::pair(Val::Span(s, e2), Val::Tok(c))
                }
            })
        })
        .boxed()
    }
    pub fn custom<'s, I: Kind<'s> + ValueInput<'s>, R: Er<'s, I>>(take: u8, ok: bool, tag: u32) -> BP<'s, I, R> {
        chumsky::primitive::custom::<_, I, Val, Ex<R>>(move |inp| {
            let before = inp.cursor();
            let mut s = String::new();
            for i in 0..take {
                // every second token is taken with peek() + skip() instead of next()
                let t = if i % 2 == 1 {
                    let t = inp.peek();
                    if t.is_some() {
                        inp.skip();
                    }
                    t
                } else {
                    inp.next()
                };
                match t {
                    Some(t) => s.push(t.to_char()),
                    None => return Err(R::custom(inp.span_since(&before), format!("C{}:eof", tag))),
                }
            }
            if ok {
                Ok(Val::Str(s))
            } else {
                Err(R::custom(inp.span_since(&before), format!("C{}", tag)))
            }
        })
        .boxed()
    }
    pub fn ext<'s, I: Kind<'s> + ValueInput<'s>, R: Er<'s, I>>(take: u8, ok: bool, tag: u32) -> BP<'s, I, R> {
        Parser::<'s, I, Val, Ex<R>>::boxed(Ext(ExtP { take, ok, tag }))
    }
    pub fn not<'s, I: Kind<'s> + ValueInput<'s>, R: Er<'s, I>>(p: BP<'s, I, R>) -> BP<'s, I, R> {
        p.not().map(|()| Val::Unit).boxed()
    }
    pub fn lazy<'s, I: Kind<'s> + ValueInput<'s>, R: Er<'s, I>>(p: BP<'s, I, R>) -> BP<'s, I, R> {
        p.lazy().boxed()
    }
    pub fn nested<'s, I: Kind<'s> + ValueInput<'s>, R: Er<'s, I>>(a: BP<'s, I, R>, open: char, close: char, others: &[(char, char)], tag: u32) -> BP<'s, I, R> {
        let o = I::Tok::from_char(open);
        let c = I::Tok::from_char(close);
        let ot: Vec<(I::Tok, I::Tok)> = others.iter().map(|(a, b)| (I::Tok::from_char(*a), I::Tok::from_char(*b))).collect();
        let fb = move |_s: I::Spn| Val::Fallback(tag);
        match ot.len() {
            0 => a.recover_with(via_parser(nested_delimiters::<I, Val, Ex<R>, _, 0>(o, c, [], fb))).boxed(),
            1 => a.recover_with(via_parser(nested_delimiters::<I, Val, Ex<R>, _, 1>(o, c, [ot[0].clone()], fb))).boxed(),
            _ => a.recover_with(via_parser(nested_delimiters::<I, Val, Ex<R>, _, 2>(o, c, [ot[0].clone(), ot[1].clone()], fb))).boxed(),
        }
    }
}

/// forwards the ValueInput-only primitives of `Kind` to `vprims`
macro_rules! value_kind_prims {
    () => {
        fn p_any<R: Er<'s, Self>>() -> BP<'s, Self, R> {
            vprims::any::<Self, R>()
        }
        fn p_one_of<R: Er<'s, Self>>(set: &str) -> BP<'s, Self, R> {
            vprims::one_of::<Self, R>(set)
        }
        fn p_none_of<R: Er<'s, Self>>(set: &str) -> BP<'s, Self, R> {
            vprims::none_of::<Self, R>(set)
        }
        fn p_select<R: Er<'s, Self>>(set: &str, flavour: SelFlavour) -> BP<'s, Self, R> {
            vprims::select::<Self, R>(set, flavour)
        }
        fn p_custom<R: Er<'s, Self>>(take: u8, ok: bool, tag: u32) -> BP<'s, Self, R> {
            vprims::custom::<Self, R>(take, ok, tag)
        }
        fn p_ext<R: Er<'s, Self>>(take: u8, ok: bool, tag: u32) -> BP<'s, Self, R> {
            vprims::ext::<Self, R>(take, ok, tag)
        }
        fn p_not<R: Er<'s, Self>>(p: BP<'s, Self, R>) -> BP<'s, Self, R> {
            vprims::not::<Self, R>(p)
        }
        fn p_lazy<R: Er<'s, Self>>(p: BP<'s, Self, R>) -> BP<'s, Self, R> {
            vprims::lazy::<Self, R>(p)
        }
        fn p_nested<R: Er<'s, Self>>(a: BP<'s, Self, R>, open: char, close: char, others: &[(char, char)], tag: u32) -> BP<'s, Self, R> {
            vprims::nested::<Self, R>(a, open, close, others, tag)
        }
    };
}
/// by-reference primitives for kinds that are BorrowInputs
macro_rules! borrow_kind_prims {
    () => {
        const BORROW: bool = true;
        fn p_any_ref<R: Er<'s, Self>>() -> BP<'s, Self, R> {
            vprims::any_ref::<Self, R>()
        }
        fn p_select_ref<R: Er<'s, Self>>(set: &str, flavour: SelFlavour) -> BP<'s, Self, R> {
            vprims::select_ref::<Self, R>(set, flavour)
        }
    };
}
/// the same for kinds that are not ValueInputs
macro_rules! no_value_prims {
    () => {
        const VALUE: bool = false;
        fn p_any<R: Er<'s, Self>>() -> BP<'s, Self, R> {
            unreachable!("any() needs a ValueInput")
        }
        fn p_one_of<R: Er<'s, Self>>(_set: &str) -> BP<'s, Self, R> {
            unreachable!("one_of() needs a ValueInput")
        }
        fn p_none_of<R: Er<'s, Self>>(_set: &str) -> BP<'s, Self, R> {
            unreachable!("none_of() needs a ValueInput")
        }
        fn p_select<R: Er<'s, Self>>(_set: &str, _flavour: SelFlavour) -> BP<'s, Self, R> {
            unreachable!("select!() needs a ValueInput")
        }
        fn p_custom<R: Er<'s, Self>>(_take: u8, _ok: bool, _tag: u32) -> BP<'s, Self, R> {
            unreachable!("the generated custom() parser needs a ValueInput")
        }
        fn p_ext<R: Er<'s, Self>>(_take: u8, _ok: bool, _tag: u32) -> BP<'s, Self, R> {
            unreachable!("the generated Ext parser needs a ValueInput")
        }
        fn p_not<R: Er<'s, Self>>(_p: BP<'s, Self, R>) -> BP<'s, Self, R> {
            unreachable!("not() needs a ValueInput")
        }
        fn p_lazy<R: Er<'s, Self>>(_p: BP<'s, Self, R>) -> BP<'s, Self, R> {
            unreachable!("lazy() needs a ValueInput")
        }
        fn p_nested<R: Er<'s, Self>>(_a: BP<'s, Self, R>, _open: char, _close: char, _others: &[(char, char)], _tag: u32) -> BP<'s, Self, R> {
            unreachable!("nested_delimiters() needs a ValueInput")
        }
    };
}

pub trait Er<'s, I: Kind<'s>>:
    chumsky::error::Error<'s, I> + LabelError<'s, I, String> + Clone + Debug + 's
{
    const NAME: &'static str;
    fn custom(span: I::Spn, msg: String) -> Self;
    fn desc(&self) -> ErrDesc;
    /// span-preserving rewrite used by generated map_err nodes
    fn mark(self, tag: u32) -> Self;
}

fn pat_of<T: Tk>(p: &RichPattern<'_, T>) -> Pat {
    match p {
        RichPattern::Token(t) => Pat::Tok(t.to_char()),
        RichPattern::Label(l) => Pat::Label(l.to_string()),
        RichPattern::Identifier(i) => Pat::Ident(i.clone()),
        RichPattern::Any => Pat::Any,
        RichPattern::SomethingElse => Pat::SomethingElse,
        RichPattern::EndOfInput => Pat::End,
    }
}

impl<'s, I: Kind<'s>> Er<'s, I> for Rich<'s, I::Tok, I::Spn> {
    const NAME: &'static str = "Rich";
    fn custom(span: I::Spn, msg: String) -> Self {
        Rich::custom(span, msg)
    }
    fn desc(&self) -> ErrDesc {
        let (found, expected, custom) = match self.reason() {
            RichReason::ExpectedFound { expected, found } => {
                let mut e: Vec<Pat> = expected.iter().map(pat_of).collect();
                e.sort();
                e.dedup();
                (Some(found.as_ref().map(|t| t.to_char())), Some(e), None)
            }
            RichReason::Custom(m) => (None, None, Some(m.clone())),
        };
        ErrDesc {
            span: self.span().se(),
            span_tag: self.span().tag(),
            found,
            expected,
            custom,
            contexts: self
                .contexts()
                .map(|(p, s)| (format!("{:?}", pat_of(p)), s.se()))
                .collect(),
        }
    }
    fn mark(self, tag: u32) -> Self {
        let d = <Self as Er<'s, I>>::desc(&self);
        Rich::custom(
            self.span().clone(),
            // `found` is left out: it is unspecified for a labelled user-supplied error
            format!("M{}[{:?}|{:?}]", tag, d.expected, d.custom),
        )
    }
}
impl<'s, I: Kind<'s>> Er<'s, I> for Simple<'s, I::Tok, I::Spn> {
    const NAME: &'static str = "Simple";
    fn custom(span: I::Spn, _msg: String) -> Self {
        Simple::new(None, span)
    }
    fn desc(&self) -> ErrDesc {
        ErrDesc {
            span: self.span().se(),
            span_tag: self.span().tag(),
            found: Some(self.found().map(|t| t.to_char())),
            expected: None,
            custom: None,
            contexts: vec![],
        }
    }
    fn mark(self, _tag: u32) -> Self {
        self
    }
}
impl<'s, I: Kind<'s>> Er<'s, I> for Cheap<I::Spn> {
    const NAME: &'static str = "Cheap";
    fn custom(span: I::Spn, _msg: String) -> Self {
        Cheap::new(span)
    }
    fn desc(&self) -> ErrDesc {
        ErrDesc {
            span: self.span().se(),
            span_tag: self.span().tag(),
            found: None,
            expected: None,
            custom: None,
            contexts: vec![],
        }
    }
    fn mark(self, _tag: u32) -> Self {
        self
    }
}
impl<'s, I: Kind<'s>> Er<'s, I> for EmptyErr {
    const NAME: &'static str = "EmptyErr";
    fn custom(_span: I::Spn, _msg: String) -> Self {
        EmptyErr::default()
    }
    fn desc(&self) -> ErrDesc {
        ErrDesc { span: (0, 0), span_tag: 0, found: None, expected: None, custom: None, contexts: vec![] }
    }
    fn mark(self, _tag: u32) -> Self {
        self
    }
}

// ---------------------------------------------------------------------------------------------
// input kinds with slices

fn str_slice_val(s: &str) -> Val {
    Val::Slice(s.as_ptr() as usize, s.len(), s.to_string())
}
fn tok_slice_val<T: Tk>(s: &[T]) -> Val {
    Val::Slice(s.as_ptr() as usize, s.len(), s.iter().map(|t| t.to_char()).collect())
}

impl<'s> Kind<'s> for &'s str {
    value_kind_prims!();
    type Tok = char;
    type Spn = SimpleSpan;
    const HAS_SLICE: bool = true;
    fn slice_node<R: Er<'s, Self>>(p: BP<'s, Self, R>) -> BP<'s, Self, R> {
        p.to_slice().map(str_slice_val).boxed()
    }
    fn map_slice_node<R: Er<'s, Self>>(p: BP<'s, Self, R>) -> BP<'s, Self, R> {
        p.map_with(|v, e| Val::pair(str_slice_val(e.slice()), v)).boxed()
    }
    fn slice_node_explicit<R: Er<'s, Self>>(p: BP<'s, Self, R>) -> BP<'s, Self, R> {
        p.map_with(|_v, e| str_slice_val(e.slice())).boxed()
    }
}
impl<'s, T: Tk> Kind<'s> for &'s [T] {
    value_kind_prims!();
    borrow_kind_prims!();
    type Tok = T;
    type Spn = SimpleSpan;
    const HAS_SLICE: bool = true;
    fn slice_node<R: Er<'s, Self>>(p: BP<'s, Self, R>) -> BP<'s, Self, R> {
        p.to_slice().map(tok_slice_val::<T>).boxed()
    }
    fn map_slice_node<R: Er<'s, Self>>(p: BP<'s, Self, R>) -> BP<'s, Self, R> {
        p.map_with(|v, e| Val::pair(tok_slice_val::<T>(e.slice()), v)).boxed()
    }
    fn slice_node_explicit<R: Er<'s, Self>>(p: BP<'s, Self, R>) -> BP<'s, Self, R> {
        p.map_with(|_v, e| tok_slice_val::<T>(e.slice())).boxed()
    }
}

pub type CharStream = chumsky::input::Stream<std::vec::IntoIter<char>>;
pub type TokStream<T> = chumsky::input::Stream<std::vec::IntoIter<T>>;
impl<'s, T: Tk> Kind<'s> for TokStream<T> {
    value_kind_prims!();
    type Tok = T;
    type Spn = SimpleSpan;
    const HAS_SLICE: bool = false;
    fn slice_node<R: Er<'s, Self>>(_p: BP<'s, Self, R>) -> BP<'s, Self, R> {
        unreachable!("Stream has no slices")
    }
    fn map_slice_node<R: Er<'s, Self>>(_p: BP<'s, Self, R>) -> BP<'s, Self, R> {
        unreachable!("Stream has no slices")
    }
    fn slice_node_explicit<R: Er<'s, Self>>(_p: BP<'s, Self, R>) -> BP<'s, Self, R> {
        unreachable!("Stream has no slices")
    }
}
pub fn char_stream(toks: &[char]) -> CharStream {
    chumsky::input::Stream::from_iter(toks.to_vec().into_iter())
}

// ---------------------------------------------------------------------------------------------
// inputs whose tokens carry their own (gapped) spans

pub type SpTok = (char, SimpleSpan);
pub type SpSlice<'s> = chumsky::input::MappedInput<char, SimpleSpan, &'s [SpTok], fn(&'s SpTok) -> (&'s char, &'s SimpleSpan)>;
pub type SpStream = chumsky::input::MappedInput<char, SimpleSpan, chumsky::input::Stream<std::vec::IntoIter<SpTok>>, fn(SpTok) -> (char, SimpleSpan)>;
pub type SpIter = chumsky::input::IterInput<std::vec::IntoIter<SpTok>, SimpleSpan>;

fn sp_ref<'s>(t: &'s SpTok) -> (&'s char, &'s SimpleSpan) {
    (&t.0, &t.1)
}
fn sp_val(t: SpTok) -> (char, SimpleSpan) {
    t
}
pub fn sp_slice<'s>(toks: &'s [SpTok], eoi: (usize, usize)) -> SpSlice<'s> {
    toks.map(SimpleSpan::from(eoi.0..eoi.1), sp_ref as fn(&'s SpTok) -> (&'s char, &'s SimpleSpan))
}
pub fn sp_stream(toks: &[SpTok], eoi: (usize, usize)) -> SpStream {
    chumsky::input::Stream::from_iter(toks.to_vec().into_iter()).map(SimpleSpan::from(eoi.0..eoi.1), sp_val as fn(SpTok) -> (char, SimpleSpan))
}
pub fn sp_iter(toks: &[SpTok], eoi: (usize, usize)) -> SpIter {
    chumsky::input::IterInput::new(toks.to_vec().into_iter(), SimpleSpan::from(eoi.0..eoi.1))
}

macro_rules! no_slices {
    () => {
        const HAS_SLICE: bool = false;
        fn slice_node<R: Er<'s, Self>>(_p: BP<'s, Self, R>) -> BP<'s, Self, R> {
            unreachable!("this input kind has no slices")
        }
        fn map_slice_node<R: Er<'s, Self>>(_p: BP<'s, Self, R>) -> BP<'s, Self, R> {
            unreachable!("this input kind has no slices")
        }
        fn slice_node_explicit<R: Er<'s, Self>>(_p: BP<'s, Self, R>) -> BP<'s, Self, R> {
            unreachable!("this input kind has no slices")
        }
    };
}

impl<'s> Kind<'s> for SpSlice<'s> {
    type Tok = char;
    type Spn = SimpleSpan;
    no_slices!();
    value_kind_prims!();
    borrow_kind_prims!();
}
impl<'s> Kind<'s> for SpStream {
    type Tok = char;
    type Spn = SimpleSpan;
    no_slices!();
    value_kind_prims!();
}
impl<'s> Kind<'s> for SpIter {
    type Tok = char;
    type Spn = SimpleSpan;
    no_slices!();
    no_value_prims!();
}

// ---------------------------------------------------------------------------------------------
// further input kinds (C10): arrays, streams over a counting iterator (plain / boxed / exact-size
// boxed), IoInput, with_context, map_span

impl<'s, T: Tk, const N: usize> Kind<'s> for &'s [T; N] {
    value_kind_prims!();
    borrow_kind_prims!();
    type Tok = T;
    type Spn = SimpleSpan;
    const HAS_SLICE: bool = true;
    fn slice_node<R: Er<'s, Self>>(p: BP<'s, Self, R>) -> BP<'s, Self, R> {
        p.to_slice().map(tok_slice_val::<T>).boxed()
    }
    fn map_slice_node<R: Er<'s, Self>>(p: BP<'s, Self, R>) -> BP<'s, Self, R> {
        p.map_with(|v, e| Val::pair(tok_slice_val::<T>(e.slice()), v)).boxed()
    }
    fn slice_node_explicit<R: Er<'s, Self>>(p: BP<'s, Self, R>) -> BP<'s, Self, R> {
        p.map_with(|_v, e| tok_slice_val::<T>(e.slice())).boxed()
    }
}

/// A cloneable iterator over a token vector that logs every item it yields (by index) into a log
/// shared by all its clones: "every item is pulled at most once and in order" <=> the log is
/// 0, 1, 2, ... without repetition.
#[derive(Clone)]
pub struct CountIter {
    toks: Rc<Vec<char>>,
    i: usize,
    pub log: Rc<std::cell::RefCell<Vec<u32>>>,
}
impl CountIter {
    pub fn new(toks: &[char]) -> CountIter {
        CountIter { toks: Rc::new(toks.to_vec()), i: 0, log: Rc::new(std::cell::RefCell::new(Vec::new())) }
    }
}
impl Iterator for CountIter {
    type Item = char;
    fn next(&mut self) -> Option<char> {
        let r = self.toks.get(self.i).copied();
        if r.is_some() {
            self.log.borrow_mut().push(self.i as u32);
            self.i += 1;
        }
        r
    }
    fn size_hint(&self) -> (usize, Option<usize>) {
        let n = self.toks.len() - self.i;
        (n, Some(n))
    }
}
impl ExactSizeIterator for CountIter {}

pub type CountStream = chumsky::input::Stream<CountIter>;
pub type BoxStream<'s> = chumsky::input::BoxedStream<'s, char>;
pub type BoxExactStream<'s> = chumsky::input::BoxedExactSizeStream<'s, char>;
impl<'s> Kind<'s> for CountStream {
    type Tok = char;
    type Spn = SimpleSpan;
    no_slices!();
    value_kind_prims!();
}
impl<'s> Kind<'s> for BoxStream<'s> {
    type Tok = char;
    type Spn = SimpleSpan;
    no_slices!();
    value_kind_prims!();
}
impl<'s> Kind<'s> for BoxExactStream<'s> {
    type Tok = char;
    type Spn = SimpleSpan;
    no_slices!();
    value_kind_prims!();
}

pub type IoIn = chumsky::input::IoInput<std::io::Cursor<Vec<u8>>>;
impl<'s> Kind<'s> for IoIn {
    type Tok = u8;
    type Spn = SimpleSpan;
    no_slices!();
    value_kind_prims!();
}

pub type CtxSpan = SimpleSpan<usize, u32>;
pub type WithCtxStr<'s> = chumsky::input::WithContext<CtxSpan, &'s str>;
impl<'s> Kind<'s> for WithCtxStr<'s> {
    value_kind_prims!();
    type Tok = char;
    type Spn = CtxSpan;
    const HAS_SLICE: bool = true;
    fn slice_node<R: Er<'s, Self>>(p: BP<'s, Self, R>) -> BP<'s, Self, R> {
        p.to_slice().map(str_slice_val).boxed()
    }
    fn map_slice_node<R: Er<'s, Self>>(p: BP<'s, Self, R>) -> BP<'s, Self, R> {
        p.map_with(|v, e| Val::pair(str_slice_val(e.slice()), v)).boxed()
    }
    fn slice_node_explicit<R: Er<'s, Self>>(p: BP<'s, Self, R>) -> BP<'s, Self, R> {
        p.map_with(|_v, e| str_slice_val(e.slice())).boxed()
    }
}

pub const SHIFT: usize = 1000;
pub type MapSpanSlice<'s> = chumsky::input::MappedSpan<Shifted, &'s [char], fn(SimpleSpan) -> Shifted>;
fn shift_span(s: SimpleSpan) -> Shifted {
    Shifted(s.start + SHIFT, s.end + SHIFT)
}
pub fn map_span_slice<'s>(toks: &'s [char]) -> MapSpanSlice<'s> {
    toks.map_span(shift_span as fn(SimpleSpan) -> Shifted)
}
impl<'s> Kind<'s> for MapSpanSlice<'s> {
    value_kind_prims!();
    borrow_kind_prims!();
    type Tok = char;
    type Spn = Shifted;
    const HAS_SLICE: bool = true;
    fn slice_node<R: Er<'s, Self>>(p: BP<'s, Self, R>) -> BP<'s, Self, R> {
        p.to_slice().map(tok_slice_val::<char>).boxed()
    }
    fn map_slice_node<R: Er<'s, Self>>(p: BP<'s, Self, R>) -> BP<'s, Self, R> {
        p.map_with(|v, e| Val::pair(tok_slice_val::<char>(e.slice()), v)).boxed()
    }
    fn slice_node_explicit<R: Er<'s, Self>>(p: BP<'s, Self, R>) -> BP<'s, Self, R> {
        p.map_with(|_v, e| tok_slice_val::<char>(e.slice())).boxed()
    }
}

// ---------------------------------------------------------------------------------------------
// token trees (C16): a token is a leaf or a group that owns its children (with their spans) and the
// eoi span of the inner input

#[derive(Clone, Debug, PartialEq)]
pub enum TT {
    Leaf(char),
    Group(Vec<(TT, SimpleSpan)>, SimpleSpan),
}
impl Tk for TT {
    fn from_char(c: char) -> Self {
        TT::Leaf(c)
    }
    fn to_char(&self) -> char {
        match self {
            TT::Leaf(c) => *c,
            TT::Group(..) => GOPEN,
        }
    }
}
pub type TTPair = (TT, SimpleSpan);
pub type TTIn<'s> = chumsky::input::MappedInput<TT, SimpleSpan, &'s [TTPair], fn(&'s TTPair) -> (&'s TT, &'s SimpleSpan)>;
fn tt_ref<'s>(t: &'s TTPair) -> (&'s TT, &'s SimpleSpan) {
    (&t.0, &t.1)
}
pub fn tt_input<'s>(toks: &'s [TTPair], eoi: SimpleSpan) -> TTIn<'s> {
    toks.map(eoi, tt_ref as fn(&'s TTPair) -> (&'s TT, &'s SimpleSpan))
}
pub fn tt_from_nodes(nodes: &[TNode]) -> Vec<TTPair> {
    nodes
        .iter()
        .map(|n| {
            let t = match &n.tok {
                TreeTok::Leaf(c) => TT::Leaf(*c),
                TreeTok::Group(kids, eoi) => TT::Group(tt_from_nodes(kids), SimpleSpan::from(eoi.0..eoi.1)),
            };
            (t, SimpleSpan::from(n.span.0..n.span.1))
        })
        .collect()
}
impl<'s> Kind<'s> for TTIn<'s> {
    type Tok = TT;
    type Spn = SimpleSpan;
    no_slices!();
    value_kind_prims!();
    borrow_kind_prims!();
    fn p_nested_in<R: Er<'s, Self>>(a: BP<'s, Self, R>) -> BP<'s, Self, R> {
        let group = chumsky::select_ref! { TT::Group(kids, eoi) => tt_input(kids.as_slice(), *eoi) };
        a.nested_in(group).boxed()
    }
}

// ---------------------------------------------------------------------------------------------
// extension parser with separately written parse / check paths

pub struct ExtP {
    pub take: u8,
    pub ok: bool,
    pub tag: u32,
}
impl<'s, I: Kind<'s> + ValueInput<'s>, R: Er<'s, I>> ExtParser<'s, I, Val, Ex<R>> for ExtP {
    fn parse(&self, inp: &mut InputRef<'s, '_, I, Ex<R>>) -> Result<Val, R> {
        let before = inp.cursor();
        let mut s = String::new();
        for _ in 0..self.take {
            match inp.next() {
                Some(t) => s.push(t.to_char()),
                None => return Err(R::custom(inp.span_since(&before), format!("C{}:eof", self.tag))),
            }
        }
        if self.ok {
            Ok(Val::Str(s))
        } else {
            Err(R::custom(inp.span_since(&before), format!("C{}", self.tag)))
        }
    }
    fn check(&self, inp: &mut InputRef<'s, '_, I, Ex<R>>) -> Result<(), R> {
        // deliberately written separately from `parse`: counts instead of collecting
        let before = inp.cursor();
        let mut left = self.take;
        while left > 0 {
            if inp.next().is_none() {
                return Err(R::custom(inp.span_since(&before), format!("C{}:eof", self.tag)));
            }
            left -= 1;
        }
        if !self.ok {
            return Err(R::custom(inp.span_since(&before), format!("C{}", self.tag)));
        }
        Ok(())
    }
}

pub fn ctx_op(k: u8, c: &Val) -> Val {
    // context mappers used by generated map_ctx nodes
    let mut toks = Vec::new();
    c.tokens(&mut toks);
    match k % 3 {
        0 => Val::Str(toks.iter().rev().collect()),
        1 => Val::Str(toks.iter().chain(toks.iter()).collect()),
        _ => Val::Str(toks.iter().skip(1).collect()),
    }
}

#[derive(Clone, Copy, Debug, PartialEq, Eq)]
pub enum RecStyle {
    Func,
    DeclareDefine,
    /// declare, clone the handle BEFORE define, define, drop the declaring handle, keep the early clone
    EarlyClone,
}

pub struct Bld<'s, I: Kind<'s>, R: Er<'s, I>> {
    pub ids: HashMap<*const G, u32>,
    pub observed: bool,
    pub rec_style: RecStyle,
    /// C04: build every value-eliding combinator in its value-building formulation
    pub explicit: bool,
    /// C18: wrap every node in a map_with that records the user state (and make select / fold_with
    /// callbacks record it too)
    pub obs_state: bool,
    /// C07: try_map / validate / select closures also record the span they are given
    pub cap_spans: bool,
    /// build any() / select!() as any_ref() / select_ref!() where the input kind is a BorrowInput
    pub borrow_prims: bool,
    /// C11: structurally equal (closed) memoized sub-grammars are built ONCE and the same parser value is cloned
    /// into every place (clones of a Boxed share the memoized parser, hence its memo key)
    pub share_memo: bool,
    memo_cache: HashMap<G, BP<'s, I, R>>,
    recs: HashMap<u8, BP<'s, I, R>>,
}


impl<'s, I: Kind<'s>, R: Er<'s, I>> Bld<'s, I, R> {
    pub fn new(g: &G, observed: bool) -> Self {
        Bld { ids: number(g), observed, rec_style: RecStyle::Func, explicit: false, obs_state: false, cap_spans: false, borrow_prims: false, share_memo: false, memo_cache: HashMap::new(), recs: HashMap::new() }
    }

    pub fn build(&mut self, g: &G) -> BP<'s, I, R> {
        let p = self.node(g);
        let p = if self.observed {
            let id = self.ids[&(g as *const G)];
            p.map_with(move |v, e| {
                let (s, e2) = e.span().se();
                Val::obs(id, s, e2, v)
            })
            .boxed()
        } else {
            p
        };
        if self.obs_state {
            p.map_with(|v, e| {
                let st = e.state();
                Val::St(st.n, st.h, Box::new(v))
            })
            .boxed()
        } else {
            p
        }
    }

    fn sink<P>(&mut self, rep: P, sink: &Sink) -> BP<'s, I, R>
    where
        P: IterParser<'s, I, Val, Ex<R>> + Parser<'s, I, (), Ex<R>> + 's,
    {
        match sink {
            Sink::Vec => rep.collect::<Vec<Val>>().map(Val::List).boxed(),
            Sink::Str => unreachable!(),
            Sink::Count if self.explicit => rep.collect::<Vec<Val>>().map(|v| Val::Num(v.len() as u64)).boxed(),
            Sink::Unit | Sink::Bare if self.explicit => rep.collect::<Vec<Val>>().map(|_v| Val::Unit).boxed(),
            Sink::Count => rep.count().map(|n| Val::Num(n as u64)).boxed(),
            Sink::Unit => rep.collect::<()>().map(|()| Val::Unit).boxed(),
            Sink::Bare => rep.map(|()| Val::Unit).boxed(),
            Sink::Exactly(n) => match n {
                0 => rep.collect_exactly::<[Val; 0]>().map(|a| Val::List(a.into())).boxed(),
                1 => rep.collect_exactly::<[Val; 1]>().map(|a| Val::List(a.into())).boxed(),
                2 => rep.collect_exactly::<[Val; 2]>().map(|a| Val::List(a.into())).boxed(),
                3 => rep.collect_exactly::<[Val; 3]>().map(|a| Val::List(a.into())).boxed(),
                _ => rep.collect_exactly::<[Val; 4]>().map(|a| Val::List(a.into())).boxed(),
            },
            Sink::Enumerate => rep
                .enumerate()
                .collect::<Vec<(usize, Val)>>()
                .map(|v| {
                    Val::List(v.into_iter().map(|(i, x)| Val::pair(Val::Num(i as u64), x)).collect())
                })
                .boxed(),
            Sink::Foldl(init) => {
                let init = self.build(init);
                init.foldl(rep, Val::pair).boxed()
            }
            Sink::Foldr(tail) => {
                let tail = self.build(tail);
                rep.foldr(tail, Val::pair).boxed()
            }
            Sink::FoldlWith(init) => {
                let init = self.build(init);
                let os = self.obs_state;
                init.foldl_with(rep, move |a, b, e| {
                    let (s, e2) = e.span().se();
                    let v = Val::pair(Val::Span(s, e2), Val::pair(a, b));
                    if os {
                        let st = e.state();
                        Val::St(st.n, st.h, Box::new(v))
                    } else {
                        v
                    }
                })
                .boxed()
            }
            Sink::FoldrWith(tail) => {
                let tail = self.build(tail);
                let os = self.obs_state;
                rep.foldr_with(tail, move |a, b, e| {
                    let (s, e2) = e.span().se();
                    let v = Val::pair(Val::Span(s, e2), Val::pair(a, b));
                    if os {
                        let st = e.state();
                        Val::St(st.n, st.h, Box::new(v))
                    } else {
                        v
                    }
                })
                .boxed()
            }
        }
    }

    fn rep(&mut self, r: &Rep) -> BP<'s, I, R> {
        let item = self.build(&r.item);
        let lo = r.lo as usize;
        let hi = r.hi.map(|h| h as usize);
        if let Sink::Str = r.sink {
            // String collection needs `char` items
            let item = item.map(|v: Val| v.first_tok().unwrap_or('\u{0}'));
            return match &r.sep {
                None => {
                    let mut rep = item.repeated().at_least(lo);
                    if let Some(h) = hi {
                        rep = rep.at_most(h)
                    }
                    rep.collect::<String>().map(Val::Str).boxed()
                }
                Some(sep) => {
                    let sep = self.build(sep);
                    let mut rep = item.separated_by(sep).at_least(lo);
                    if let Some(h) = hi {
                        rep = rep.at_most(h)
                    }
                    if r.leading {
                        rep = rep.allow_leading()
                    }
                    if r.trailing {
                        rep = rep.allow_trailing()
                    }
                    rep.collect::<String>().map(Val::Str).boxed()
                }
            };
        }
        if r.ctxb != 0 {
            let mode = r.ctxb;
            return match mode {
                1 => {
                    let rep = item.repeated().configure(move |c, ctx: &Val| c.exactly(ctx_num(ctx)));
                    self.sink(rep, &r.sink)
                }
                2 => {
                    // static lower bound, upper bound from the context
                    let rep = item.repeated().at_least(lo).configure(move |c, ctx: &Val| c.at_most(ctx_num(ctx)));
                    self.sink(rep, &r.sink)
                }
                _ => {
                    let rep = item.repeated().try_configure(move |c, ctx: &Val, span| {
                        let n = ctx_num(ctx);
                        if n % 2 == 1 {
                            Err(R::custom(span, format!("K{}", n)))
                        } else {
                            Ok(c.exactly(n))
                        }
                    });
                    self.sink(rep, &r.sink)
                }
            };
        }
        match &r.sep {
            None => {
                if r.cfg {
                    // the same bounds, split between the static builder and the configuration closure in
                    // four ways (all equivalent by the documentation of configure)
                    let mode = (lo + hi.unwrap_or(7)) % 4;
                    let mut stat = item.repeated();
                    if mode == 1 || mode == 3 {
                        stat = stat.at_least(lo);
                    }
                    if let (Some(h), true) = (hi, mode == 2 || mode == 3) {
                        stat = stat.at_most(h);
                    }
                    let rep = stat.configure(move |c, _ctx: &Val| {
                        let c = if mode == 0 || mode == 2 { c.at_least(lo) } else { c };
                        match hi {
                            Some(h) if mode == 0 || mode == 1 => c.at_most(h),
                            _ => c,
                        }
                    });
                    self.sink(rep, &r.sink)
                } else {
                    let mut rep = item.repeated().at_least(lo);
                    if let Some(h) = hi {
                        rep = rep.at_most(h)
                    }
                    self.sink(rep, &r.sink)
                }
            }
            Some(sep) => {
                let sep = self.build(sep);
                let mut rep = item.separated_by(sep).at_least(lo);
                if let Some(h) = hi {
                    rep = rep.at_most(h)
                }
                if r.leading {
                    rep = rep.allow_leading()
                }
                if r.trailing {
                    rep = rep.allow_trailing()
                }
                self.sink(rep, &r.sink)
            }
        }
    }

    fn node(&mut self, g: &G) -> BP<'s, I, R> {
        use G::*;
        match g {
            Just(s) => just::<_, I, Ex<R>>(toks!(s, I))
                .map(|v: Vec<I::Tok>| Val::Str(v.iter().map(|t| t.to_char()).collect()))
                .boxed(),
            Any if self.borrow_prims => I::p_any_ref::<R>(),
            Any => I::p_any::<R>(),
            OneOf(s) => I::p_one_of::<R>(s),
            NoneOf(s) => I::p_none_of::<R>(s),
            Select(s) if self.borrow_prims => I::p_select_ref::<R>(s, if self.obs_state { SelFlavour::State } else if self.cap_spans { SelFlavour::Span } else { SelFlavour::Plain }),
            Select(s) => I::p_select::<R>(s, if self.obs_state { SelFlavour::State } else if self.cap_spans { SelFlavour::Span } else { SelFlavour::Plain }),
            End => end::<I, Ex<R>>().map(|()| Val::Unit).boxed(),
            Empty => empty::<I, Ex<R>>().map(|()| Val::Unit).boxed(),
            Custom { take, ok, tag } => I::p_custom::<R>(*take, *ok, *tag),
            G::Ext { take, ok, tag } if self.explicit => {
                let g2 = G::Custom { take: *take, ok: *ok, tag: *tag };
                self.node(&g2)
            }
            G::Ext { take, ok, tag } => I::p_ext::<R>(*take, *ok, *tag),
            Then(a, c) => {
                let (a, c) = (self.build(a), self.build(c));
                a.then(c).map(|(a, c)| Val::pair(a, c)).boxed()
            }
            IgnoreThen(a, c) if self.explicit => {
                let (a, c) = (self.build(a), self.build(c));
                a.then(c).map(|(_, c)| c).boxed()
            }
            ThenIgnore(a, c) if self.explicit => {
                let (a, c) = (self.build(a), self.build(c));
                a.then(c).map(|(a, _)| a).boxed()
            }
            IgnoreThen(a, c) => {
                let (a, c) = (self.build(a), self.build(c));
                a.ignore_then(c).boxed()
            }
            ThenIgnore(a, c) => {
                let (a, c) = (self.build(a), self.build(c));
                a.then_ignore(c).boxed()
            }
            Group(v) => {
                let mut ps: Vec<BP<'s, I, R>> = v.iter().map(|g| self.build(g)).collect();
                match ps.len() {
                    2 => {
                        let (b, a) = (ps.pop().unwrap(), ps.pop().unwrap());
                        group((a, b)).map(|(a, b)| Val::List(vec![a, b])).boxed()
                    }
                    3 => {
                        let (c, b, a) = (ps.pop().unwrap(), ps.pop().unwrap(), ps.pop().unwrap());
                        group((a, b, c)).map(|(a, b, c)| Val::List(vec![a, b, c])).boxed()
                    }
                    4 => {
                        let (d, c, b, a) =
                            (ps.pop().unwrap(), ps.pop().unwrap(), ps.pop().unwrap(), ps.pop().unwrap());
                        group((a, b, c, d)).map(|(a, b, c, d)| Val::List(vec![a, b, c, d])).boxed()
                    }
                    n => panic!("Group arity {}", n),
                }
            }
            GroupArr(v) => {
                let ps: Vec<BP<'s, I, R>> = v.iter().map(|g| self.build(g)).collect();
                fn arr<'s, I: Kind<'s>, R: Er<'s, I>, const N: usize>(ps: Vec<BP<'s, I, R>>) -> BP<'s, I, R> {
                    let a: [BP<'s, I, R>; N] = ps.try_into().ok().unwrap();
                    group(a).map(|a: [Val; N]| Val::List(a.into())).boxed()
                }
                match ps.len() {
                    1 => arr::<I, R, 1>(ps),
                    2 => arr::<I, R, 2>(ps),
                    3 => arr::<I, R, 3>(ps),
                    4 => arr::<I, R, 4>(ps),
                    n => panic!("GroupArr arity {}", n),
                }
            }
            Or(a, c) => {
                let (a, c) = (self.build(a), self.build(c));
                a.or(c).boxed()
            }
            Choice(v) => {
                let mut ps: Vec<BP<'s, I, R>> = v.iter().map(|g| self.build(g)).collect();
                ps.reverse();
                let mut nx = || ps.pop().unwrap();
                match v.len() {
                    1 => choice((nx(),)).boxed(),
                    2 => choice((nx(), nx())).boxed(),
                    3 => choice((nx(), nx(), nx())).boxed(),
                    4 => choice((nx(), nx(), nx(), nx())).boxed(),
                    5 => choice((nx(), nx(), nx(), nx(), nx())).boxed(),
                    n => panic!("Choice arity {}", n),
                }
            }
            ChoiceVec(v) => {
                let ps: Vec<BP<'s, I, R>> = v.iter().map(|g| self.build(g)).collect();
                choice(ps).boxed()
            }
            ChoiceArr(v) => {
                let ps: Vec<BP<'s, I, R>> = v.iter().map(|g| self.build(g)).collect();
                fn arr<'s, I: Kind<'s>, R: Er<'s, I>, const N: usize>(ps: Vec<BP<'s, I, R>>) -> BP<'s, I, R> {
                    let a: [BP<'s, I, R>; N] = ps.try_into().ok().unwrap();
                    choice(a).boxed()
                }
                match ps.len() {
                    1 => arr::<I, R, 1>(ps),
                    2 => arr::<I, R, 2>(ps),
                    3 => arr::<I, R, 3>(ps),
                    4 => arr::<I, R, 4>(ps),
                    n => panic!("ChoiceArr arity {}", n),
                }
            }
            OrNot(a) => self.build(a).or_not().map(Val::opt).boxed(),
            Not(a) => {
                let a = self.build(a);
                I::p_not::<R>(a)
            }
            AndIs(a, c) => {
                let (a, c) = (self.build(a), self.build(c));
                a.and_is(c).boxed()
            }
            Rewind(a) => self.build(a).rewind().boxed(),
            Delim { inner, open, close } if self.explicit => {
                let (o, i, c) = (self.build(open), self.build(inner), self.build(close));
                o.then(i).then(c).map(|((_, i), _)| i).boxed()
            }
            PaddedBy(a, p) if self.explicit => {
                let (a, p) = (self.build(a), self.build(p));
                p.clone().then(a).then(p).map(|((_, a), _)| a).boxed()
            }
            Delim { inner, open, close } => {
                let (o, i, c) = (self.build(open), self.build(inner), self.build(close));
                i.delimited_by(o, c).boxed()
            }
            PaddedBy(a, p) => {
                let (a, p) = (self.build(a), self.build(p));
                a.padded_by(p).boxed()
            }
            Map(a, t) => {
                let t = *t;
                self.build(a).map(move |v| Val::mark(t, v)).boxed()
            }
            To(a, t) if self.explicit => {
                let v = Val::mark(*t, Val::Unit);
                self.build(a).map(move |_| v.clone()).boxed()
            }
            Ignored(a) if self.explicit => self.build(a).map(|_| Val::Unit).boxed(),
            To(a, t) => self.build(a).to(Val::mark(*t, Val::Unit)).boxed(),
            Ignored(a) => self.build(a).ignored().map(|()| Val::Unit).boxed(),
            Filter(a, p) => {
                let p = p.clone();
                self.build(a).filter(move |v| p.test(v)).boxed()
            }
            TryMap(a, p, t) => {
                let (p, t) = (p.clone(), *t);
                let cap = self.cap_spans;
                self.build(a)
                    .try_map(move |v, span: I::Spn| {
                        if p.test(&v) {
                            let m = Val::mark(t, v);
                            Ok(if cap {
                                let (s, e) = span.se();
                                Val::pair(Val::Span(s, e), m)
                            } else {
                                m
                            })
                        } else {
                            Err(R::custom(span, format!("T{}", t)))
                        }
                    })
                    .boxed()
            }
            TryMapWith(a, p, t) => {
                let (p, t) = (p.clone(), *t);
                let cap = self.cap_spans;
                self.build(a)
                    .try_map_with(move |v, e| {
                        if p.test(&v) {
                            let m = Val::mark(t, v);
                            Ok(if cap {
                                let (s, e2) = e.span().se();
                                Val::pair(Val::Span(s, e2), m)
                            } else {
                                m
                            })
                        } else {
                            Err(R::custom(e.span(), format!("T{}", t)))
                        }
                    })
                    .boxed()
            }
            ToSlice(a) if self.explicit => {
                let a = self.build(a);
                I::slice_node_explicit::<R>(a)
            }
            ToSlice(a) => {
                let a = self.build(a);
                I::slice_node::<R>(a)
            }
            MapSlice(a) => {
                let a = self.build(a);
                I::map_slice_node::<R>(a)
            }
            ToSpan(a) if self.explicit => self
                .build(a)
                .map_with(|_v, e| {
                    let (s, e2) = e.span().se();
                    Val::Span(s, e2)
                })
                .boxed(),
            ToSpan(a) => self
                .build(a)
                .to_span()
                .map(|s: I::Spn| {
                    let (s, e) = s.se();
                    Val::Span(s, e)
                })
                .boxed(),
            MapSpan(a) => self
                .build(a)
                .map_with(|v, e| {
                    let (s, e2) = e.span().se();
                    Val::pair(Val::Span(s, e2), v)
                })
                .boxed(),
            Unwrapped(a) => self.build(a).map(Some).unwrapped().boxed(),
            IntoIter(a, k) => {
                let it = self.build(a).map(|v: Val| v.into_items()).into_iter();
                match *k {
                    0 => it.collect::<Vec<Val>>().map(Val::List).boxed(),
                    1 => it.count().map(|n| Val::Num(n as u64)).boxed(),
                    2 => it.collect_exactly::<[Val; 0]>().map(|a| Val::List(a.into())).boxed(),
                    3 => it.collect_exactly::<[Val; 1]>().map(|a| Val::List(a.into())).boxed(),
                    4 => it.collect_exactly::<[Val; 2]>().map(|a| Val::List(a.into())).boxed(),
                    5 => it.collect_exactly::<[Val; 3]>().map(|a| Val::List(a.into())).boxed(),
                    _ => it.collect_exactly::<[Val; 4]>().map(|a| Val::List(a.into())).boxed(),
                }
            }
            G::Rep(r) => self.rep(r),
            Validate(a, t, n) => {
                let (t, n) = (*t, *n);
                let cap = self.cap_spans;
                self.build(a)
                    .validate(move |v, e, em| {
                        let sp = e.span();
                        for k in 0..n {
                            em.emit(R::custom(sp.clone(), format!("V{}.{}", t, k)));
                        }
                        if cap {
                            let (s, e2) = sp.se();
                            Val::pair(Val::Span(s, e2), v)
                        } else {
                            v
                        }
                    })
                    .boxed()
            }
            Recover(a, s) => {
                let a = self.build(a);
                match s {
                    Strat::Via(g) => {
                        let f = self.build(g);
                        a.recover_with(via_parser(f)).boxed()
                    }
                    Strat::SkipUntil { skip, until, tag } => {
                        let (sk, un, tag) = (self.build(skip), self.build(until), *tag);
                        a.recover_with(skip_until(sk.ignored(), un.ignored(), move || Val::Fallback(tag)))
                            .boxed()
                    }
                    Strat::SkipRetry { skip, until } => {
                        let (sk, un) = (self.build(skip), self.build(until));
                        a.recover_with(skip_then_retry_until(sk.ignored(), un.ignored())).boxed()
                    }
                    Strat::Nested { open, close, others, tag } => I::p_nested::<R>(a, *open, *close, others, *tag),
                }
            }
            Labelled(a, l, ctx) => {
                let p = self.build(a).labelled(l.clone());
                if *ctx {
                    p.as_context().boxed()
                } else {
                    p.boxed()
                }
            }
            MapErr(a, t, ws) => {
                let t = *t;
                if *ws {
                    self.build(a)
                        .map_err_with_state(move |e: R, _s, _st| {
                            maperr_bump();
                            e.mark(t)
                        })
                        .boxed()
                } else {
                    self.build(a)
                        .map_err(move |e: R| {
                            maperr_bump();
                            e.mark(t)
                        })
                        .boxed()
                }
            }
            Memo(a) if self.share_memo && !self.observed && !a.any_node(&|n| matches!(n, RecRef(_) | CxObs(_) | JustCfg(_) | MapCtx(..))) => {
                if let Some(p) = self.memo_cache.get(&**a) {
                    return p.clone();
                }
                let p = self.build(a).memoized().boxed();
                self.memo_cache.insert((**a).clone(), p.clone());
                p
            }
            Memo(a) => self.build(a).memoized().boxed(),
            Wrapped(a, w) => {
                let p = self.build(a);
                match w {
                    Wrap::Boxed => p.boxed(),
                    Wrap::BoxedTwice => p.boxed().boxed(),
                    Wrap::RcW => Rc::new(p).boxed(),
                    Wrap::BoxW => Box::new(p).boxed(),
                    Wrap::ArcW => Arc::new(p).boxed(),
                    Wrap::EitherL => either::Either::<_, BP<'s, I, R>>::Left(p).boxed(),
                    Wrap::EitherR => either::Either::<BP<'s, I, R>, _>::Right(p).boxed(),
                    Wrap::Cloned => p.clone().boxed(),
                }
            }
            Rec(id, body) => match self.rec_style {
                RecStyle::Func => {
                    let id = *id;
                    let prev = self.recs.remove(&id);
                    let p = recursive(|r| {
                        self.recs.insert(id, r.boxed());
                        self.build(body)
                    })
                    .boxed();
                    match prev {
                        Some(x) => {
                            self.recs.insert(id, x);
                        }
                        None => {
                            self.recs.remove(&id);
                        }
                    }
                    p
                }
                RecStyle::DeclareDefine => {
                    let id = *id;
                    let mut r: Recursive<Indirect<'s, 's, I, Val, Ex<R>>> = Recursive::declare();
                    let prev = self.recs.insert(id, r.clone().boxed());
                    let b = self.build(body);
                    r.define(b);
                    match prev {
                        Some(x) => {
                            self.recs.insert(id, x);
                        }
                        None => {
                            self.recs.remove(&id);
                        }
                    }
                    r.boxed()
                }
                RecStyle::EarlyClone => {
                    let id = *id;
                    let mut r: Recursive<Indirect<'s, 's, I, Val, Ex<R>>> = Recursive::declare();
                    let early = r.clone();
                    let prev = self.recs.insert(id, early.clone().boxed());
                    let b = self.build(body);
                    r.define(b);
                    drop(r);
                    match prev {
                        Some(x) => {
                            self.recs.insert(id, x);
                        }
                        None => {
                            self.recs.remove(&id);
                        }
                    }
                    early.boxed()
                }
            },
            RecRef(id) => self.recs.get(id).expect("unbound RecRef").clone(),
            Lazy(a) => {
                let a = self.build(a);
                I::p_lazy::<R>(a)
            }
            NestedIn(a) => {
                let a = self.build(a);
                I::p_nested_in::<R>(a)
            }
            StPush(a, t) => {
                let t = *t;
                // validate() runs its closure in parse and in check mode alike (map_with closures
                // may legitimately be skipped when the value is not needed)
                self.build(a)
                    .validate(move |v, e, _em| {
                        e.state().log.push(t);
                        v
                    })
                    .boxed()
            }
            StObs(a) => self
                .build(a)
                .map_with(|v, e| {
                    let st = e.state();
                    Val::St(st.n, st.h, Box::new(v))
                })
                .boxed(),
            WithState(a, seed) => self.build(a).with_state(Insp::seeded(*seed)).boxed(),
            WithCtx(a, s) => self.build(a).with_ctx(Val::Str(s.clone())).boxed(),
            ThenWithCtx(a, c) => {
                let (a, c) = (self.build(a), self.build(c));
                a.then_with_ctx(c).map(|(a, c)| Val::pair(a, c)).boxed()
            }
            IgnoreWithCtx(a, c) => {
                let (a, c) = (self.build(a), self.build(c));
                a.ignore_with_ctx(c).boxed()
            }
            MapCtx(a, k) => {
                let k = *k;
                let a = self.build(a);
                map_ctx::<_, Val, I, Ex<R>, Ex<R>, _>(move |c: &Val| ctx_op(k, c), a).boxed()
            }
            CxObs(a) => self
                .build(a)
                .map_with(|v, e| Val::Cx(Box::new(e.ctx().clone()), Box::new(v)))
                .boxed(),
            JustCfg(s) => just::<_, I, Ex<R>>(toks!(s, I))
                .configure(|cfg, ctx: &Val| {
                    let mut t = Vec::new();
                    ctx.tokens(&mut t);
                    if t.is_empty() {
                        cfg
                    } else {
                        cfg.seq(t.into_iter().map(I::Tok::from_char).collect::<Vec<_>>())
                    }
                })
                .map(|v: Vec<I::Tok>| Val::Str(v.iter().map(|t| t.to_char()).collect()))
                .boxed(),
            Track(a, t) => {
                let t = *t;
                self.build(a).map(move |v| Val::pair(Val::Tr(Tracked::new(t)), v)).boxed()
            }
        }
    }
}

pub fn build<'s, I: Kind<'s>, R: Er<'s, I>>(g: &G, observed: bool) -> BP<'s, I, R> {
    Bld::<'s, I, R>::new(g, observed).build(g)
}
pub fn build_explicit<'s, I: Kind<'s>, R: Er<'s, I>>(g: &G) -> BP<'s, I, R> {
    let mut b = Bld::<'s, I, R>::new(g, false);
    b.explicit = true;
    b.build(g)
}
pub fn build_obs_state<'s, I: Kind<'s>, R: Er<'s, I>>(g: &G, observed: bool) -> BP<'s, I, R> {
    let mut b = Bld::<'s, I, R>::new(g, observed);
    b.obs_state = true;
    b.build(g)
}
pub fn build_with<'s, I: Kind<'s>, R: Er<'s, I>>(g: &G, observed: bool, rs: RecStyle) -> BP<'s, I, R> {
    let mut b = Bld::<'s, I, R>::new(g, observed);
    b.rec_style = rs;
    b.build(g)
}
