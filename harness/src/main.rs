#![allow(dead_code, unused_imports, clippy::all)]
//! cv -- property-based verification harness for chumsky (see /verif/DESIGN.md).
pub mod build;
pub mod build_a;
pub mod build_b;
pub mod build_c;
pub mod build_d;
pub mod build_e;
pub mod compare;
pub mod driver;
pub mod gen;
pub mod grammar;
pub mod props;
pub mod reference;
pub mod run;
pub mod val;
pub mod worker;
pub mod fuzz;

use driver::{seed_from_env, Case, Local, Tier};

fn usage() -> ! {
    eprintln!("usage: cv check <ID> [quick|thorough] | cv replay <path> | cv show <path>");
    std::process::exit(2)
}

type CheckFn = fn(&Case, &mut Local) -> Result<(), driver::Fail>;
type RunFn = fn(Tier, u64) -> i32;

fn table(id: &str) -> Option<(RunFn, CheckFn)> {
    match id {
        "C01" => Some((props::c01::run, props::c01::check_case)),
        "C02" => Some((props::c02::run, props::c02::check_case)),
        "C03" => Some((props::c03::run, props::c03::check_case)),
        "C04" => Some((props::c04::run, props::c04::check_case)),
        "C05" => Some((props::c05::run, props::c05::check_case)),
        "C06" => Some((props::c06::run, props::c06::check_case)),
        "C07" => Some((props::c07::run, props::c07::check_case)),
        "C08" => Some((props::c08::run, props::c08::check_case)),
        "C09" => Some((props::c09::run, props::c09::check_case)),
        "C10" => Some((props::c10::run, props::c10::check_case)),
        "C11" => Some((props::c11::run, props::c11::check_case)),
        "C12" => Some((props::c12::run, props::c12::check_case)),
        "C13" => Some((props::c13::run, props::c13::check_case)),
        "C14" => Some((props::c14::run, props::c14::check_case)),
        "C15" => Some((props::c15::run, props::c15::check_case)),
        "C19" => Some((props::c19::run, props::c19::check_case)),
        "C20" => Some((props::c20::run, props::c20::check_case)),
        "C16" => Some((props::c16::run, props::c16::check_case)),
        "C17" => Some((props::c17::run, props::c17::check_case)),
        "C18" => Some((props::c18::run, props::c18::check_case)),
        _ => None,
    }
}
fn dispatch_check(id: &str) -> Option<CheckFn> {
    table(id).map(|t| t.1)
}

/// run one check in a child process of this binary and pass its output and exit code through; a child that dies of a
/// signal or of an uncaught panic (exit code 101) is a violation whose replay file records the crash
fn isolated(id: &str, tier: Tier, seed: u64) -> i32 {
    use props::c20::{run_child_passthrough, Passthrough};
    let tier_s = if tier == Tier::Quick { "quick" } else { "thorough" };
    let timeout = if tier == Tier::Quick { 3_000 } else { 6 * 3_600 };
    let seed_s = seed.to_string();
    let crash = |what: String, out: &str| -> i32 {
        print!("{}", out);
        let dir = driver::verif_root().join("replays").join(id);
        let _ = std::fs::create_dir_all(&dir);
        let replay = dir.join("crash.json");
        let mut c = Case::new(id, "crash", &grammar::G::Empty, &[]);
        c.extra = serde_json::json!({ "what": what, "tier": tier_s, "seed": seed });
        let _ = std::fs::write(&replay, serde_json::to_string_pretty(&c).unwrap());
        println!("the process running check {} {}", id, what);
        println!("VIOLATION property={} replay={}", id, replay.display());
        1
    };
    match run_child_passthrough(&["checkrun", id, tier_s, &seed_s], timeout, 0, &[("CV_INNER", "1")]) {
        Passthrough::Exited(101, out) => {
            // an uncaught panic: raised inside the library (location under .../repo/src/, e.g. while a parser is being built)
            // it is a violation; raised inside the harness itself it is a defect of the tool, reported as inconclusive
            // (no panic line at all: the panic was raised while a library call was being guarded -- the hook is silent there --
            // and could not be caught, e.g. a panic during unwinding: the library's doing as well)
            let lines: Vec<&str> = out.lines().filter(|l| l.contains("harness panic:")).collect();
            let in_library = lines.is_empty() || lines.iter().any(|l| l.rsplit(" @ ").next().map(|loc| loc.contains("repo/src/") || loc.contains("chumsky")).unwrap_or(false));
            if in_library {
                crash("panicked inside the library outside the places where panics are caught (e.g. while building a parser; the message is in the output above)".into(), &out)
            } else {
                print!("{}", out);
                println!("INCONCLUSIVE property={} the check's own process panicked in harness code (see the message above): a defect of the tool, not a verdict", id);
                2
            }
        }
        Passthrough::Exited(code, out) => {
            print!("{}", out);
            code
        }
        Passthrough::Signal(sig, out) => crash(format!("was killed by signal {} (memory error / stack overflow / abort)", sig), &out),
        Passthrough::Timeout => {
            println!("INCONCLUSIVE property={} watchdog: the check did not finish within {} s", id, timeout);
            2
        }
        Passthrough::Failed(m) => {
            println!("INCONCLUSIVE property={} {}", id, m);
            2
        }
    }
}

fn main() {
    run::install_panic_hook();
    let args: Vec<String> = std::env::args().collect();
    if args.len() < 3 {
        usage();
    }
    match args[1].as_str() {
        "check" => {
            let id = args[2].as_str();
            let tier = match args.get(3).map(|s| s.as_str()).or(std::env::var("VERIF_TIER").ok().as_deref()) {
                Some("thorough") => Tier::Thorough,
                _ => Tier::Quick,
            };
            let seed = seed_from_env();
            // every check runs in a child process (C20 isolates itself): a crash of the process under test -- a signal
            // (memory error, stack overflow, abort) or a panic outside the places where panics are expected and caught
            // (e.g. while a parser is being BUILT) -- is reported as a violation instead of taking the check down
            if std::env::var("CV_INNER").is_err() && table(id).is_some() {
                std::process::exit(isolated(id, tier, seed));
            }
            let code = match table(id) {
                Some((run, _)) => run(tier, seed),
                None => {
                    eprintln!("unknown property {}", id);
                    2
                }
            };
            std::process::exit(code);
        }
        "worker" => {
            let a: Vec<&str> = args[2..].iter().map(|s| s.as_str()).collect();
            let num = |i: usize| a.get(i).and_then(|x| x.parse::<u64>().ok()).unwrap_or(0);
            let code = match a[0] {
                "leftrec" => props::c11::leftrec_worker(num(1) as usize, num(2), num(3)),
                "checkrun" => match table(a[1]) {
                    Some((run, _)) => run(if a[2] == "thorough" { Tier::Thorough } else { Tier::Quick }, num(3)),
                    None => 2,
                },
                "c20run" => props::c20::run_inner(if a[1] == "thorough" { Tier::Thorough } else { Tier::Quick }, num(2)),
                "depth" => props::c12::depth_worker(a[1], a[2], a[3], num(4) as usize, num(5) == 1),
                _ => 2,
            };
            std::process::exit(code);
        }
        "fuzznote" => {
            // merge the outcome of the coverage-guided campaign into the evidence file of this run
            let path = driver::verif_root().join("evidence").join(format!("{}.json", args[2]));
            let mut ev: serde_json::Value = serde_json::from_str(&std::fs::read_to_string(&path).expect("evidence file")).expect("evidence json");
            let note: serde_json::Value = serde_json::from_str(args.get(3).map(|s| s.as_str()).unwrap_or("{}")).expect("note json");
            ev["coverage"]["coverage_guided"] = note;
            std::fs::write(&path, serde_json::to_string_pretty(&ev).unwrap() + "\n").expect("cannot write evidence");
        }
        "replay" => {
            let bytes = std::fs::read(&args[2]).expect("cannot read replay file");
            let parsed = std::str::from_utf8(&bytes).ok().and_then(|s| serde_json::from_str::<Case>(s).ok());
            let Some(case) = parsed else {
                // a raw libFuzzer artifact (replays/<ID>/fuzz-*): run it through the fuzz entry point
                let id = std::path::Path::new(&args[2]).parent().and_then(|p| p.file_name()).and_then(|n| n.to_str()).unwrap_or("").to_string();
                if std::env::var("CV_FUZZ_ONLY").is_err() {
                    std::env::set_var("CV_FUZZ_ONLY", &id);
                }
                println!("replaying a raw coverage-guided input of {} ({} bytes)", id, bytes.len());
                let r = run::quietly(|| fuzz::fuzz_entry(&bytes));
                if r.is_err() {
                    println!("VIOLATION property={} replay={}", id, args[2]);
                    std::process::exit(1)
                }
                println!("property held on this input (note: memory errors need the ASan build: harness/fuzz)");
                std::process::exit(0)
            };
            let s = String::new();
            let _ = s;
            let Some(f) = dispatch_check(&case.prop) else {
                eprintln!("unknown property {}", case.prop);
                std::process::exit(2)
            };
            if case.sub == "crash" && case.prop != "C20" {
                println!("replaying {}: a recorded crash of the check's process; re-running the quick tier", case.prop);
                std::process::exit(isolated(&case.prop, Tier::Quick, seed_from_env()));
            }
            let mut l = Local::default();
            println!("replaying {} ({}): {}", case.prop, case.sub, grammar::render(&case.g));
            println!("  input: {:?}", case.input);
            match f(&case, &mut l) {
                Ok(()) => {
                    println!("property held on this case");
                    std::process::exit(0)
                }
                Err(fail) => {
                    println!("  why: {}", fail.msg);
                    println!("  sig: {}", fail.sig);
                    println!("VIOLATION property={} replay={}", case.prop, args[2]);
                    std::process::exit(1)
                }
            }
        }
        _ => usage(),
    }
}
