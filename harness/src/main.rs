//! cv -- property-based verification harness for chumsky (see /verif/DESIGN.md).
fn main() {
    cv::cli_main()
}
