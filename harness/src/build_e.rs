//! Part of the dynamic builder (see build.rs): the node kinds are spread over several modules so that the
//! monomorphised code of the ~35 (input kind, error type) instantiations lands in several codegen units
//! instead of one giant one (rustc places the instances of a generic function in the unit of its module).
#![allow(clippy::type_complexity)]
use crate::build::*;
use crate::grammar::*;
use crate::val::{Tracked, Val};
use chumsky::error::{Cheap, EmptyErr, LabelError, Rich, RichPattern, RichReason, Simple};
use chumsky::extra::Full;
use chumsky::input::{Checkpoint, Cursor, Input, InputRef, ValueInput};
use chumsky::inspector::Inspector;
use chumsky::prelude::*;
use chumsky::recursive::{Indirect, Recursive};
use chumsky::{ConfigIterParser, ConfigParser, IterParser};
use std::collections::HashMap;
use std::fmt::Debug;
use std::rc::Rc;
use std::sync::Arc;

pub fn node_e<'s, I: Kind<'s>, R: Er<'s, I>>(this: &mut Bld<'s, I, R>, g: &G) -> BP<'s, I, R> {
    use G::*;
    match g {
        StPush(a, t) => {
            let t = *t;
            // validate() runs its closure in parse and in check mode alike (map_with closures
            // may legitimately be skipped when the value is not needed)
            this.build(a)
                .validate(move |v, e, _em| {
                    e.state().log.push(t);
                    v
                })
                .cb()
        }
        StObs(a) => this
            .build(a)
            .map_with(|v, e| {
                let st = e.state();
                Val::St(st.n, st.h, Box::new(v))
            })
            .cb(),
        WithState(a, seed) => this.build(a).with_state(Insp::seeded(*seed)).cb(),
        WithCtx(a, s) => this.build(a).with_ctx(Val::Str(s.clone())).cb(),
        ThenWithCtx(a, c) => {
            let (a, c) = (this.build(a), this.build(c));
            a.then_with_ctx(c).mb(|(a, c)| Val::pair(a, c))
        }
        IgnoreWithCtx(a, c) => {
            let (a, c) = (this.build(a), this.build(c));
            a.ignore_with_ctx(c).cb()
        }
        MapCtx(a, k) => {
            let k = *k;
            let a = this.build(a);
            map_ctx::<_, Val, I, Ex<R>, Ex<R>, _>(move |c: &Val| ctx_op(k, c), a).cb()
        }
        CxObs(a) => this
            .build(a)
            .map_with(|v, e| Val::Cx(Box::new(e.ctx().clone()), Box::new(v)))
            .cb(),
        JustCfg(s) => just::<_, I, Ex<R>>(toks_of::<I>(s))
            .configure(|cfg, ctx: &Val| {
                let mut t = Vec::new();
                ctx.tokens(&mut t);
                if t.is_empty() {
                    cfg
                } else {
                    cfg.seq(t.into_iter().map(I::Tok::from_char).collect::<Vec<_>>())
                }
            })
            // the configured parser ITSELF is boxed (its own dyn entry points go_emit / go_check are then on the path,
            // as for any user who writes `just(..).configure(..).boxed()`), the conversion comes on top
            .boxed()
            .map(|v: Vec<I::Tok>| Val::Str(v.iter().map(|t| t.to_char()).collect()))
            .cb(),
        Track(a, t) => {
            let t = *t;
            this.build(a).map(move |v| Val::pair(Val::Tr(Tracked::new(t)), v)).cb()
        }
        _ => unreachable!("node kind handled by another part of the builder"),
    }
}
