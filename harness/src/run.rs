//! Running the real parser: parse / check through one entry point with panic capture.
use crate::build::*;
use crate::val::Val;
use chumsky::prelude::*;
use std::cell::RefCell;
use std::panic::{catch_unwind, AssertUnwindSafe};

thread_local! {
    pub static LAST_PANIC: RefCell<Option<String>> = RefCell::new(None);
    /// > 0 while a panic of the code under test is expected to be caught (message is captured,
    /// not printed); a panic of the harness itself is printed
    pub static QUIET: std::cell::Cell<u32> = std::cell::Cell::new(0);
}

pub fn quietly<T>(f: impl FnOnce() -> T) -> std::thread::Result<T> {
    QUIET.with(|q| q.set(q.get() + 1));
    let r = catch_unwind(AssertUnwindSafe(f));
    QUIET.with(|q| q.set(q.get() - 1));
    r
}

pub fn install_panic_hook() {
    std::panic::set_hook(Box::new(|info| {
        let msg = if let Some(s) = info.payload().downcast_ref::<&str>() {
            s.to_string()
        } else if let Some(s) = info.payload().downcast_ref::<String>() {
            s.clone()
        } else {
            "<non-string panic>".to_string()
        };
        let loc = info.location().map(|l| format!("{}:{}", l.file(), l.line())).unwrap_or_default();
        if QUIET.with(|q| q.get()) == 0 {
            println!("harness panic: {} @ {}", msg, loc);
        }
        LAST_PANIC.with(|p| *p.borrow_mut() = Some(format!("{} @ {}", msg, loc)));
    }));
}

#[derive(Clone, Debug, PartialEq)]
pub struct ImplOut {
    pub out: Option<Val>,
    pub has_output: bool,
    pub errs: Vec<ErrDesc>,
    pub st: Insp,
    pub panic: Option<String>,
}

pub fn run_parse<'s, I: Kind<'s>, R: Er<'s, I>>(p: &BP<'s, I, R>, input: I) -> ImplOut {
    let mut st = Insp::default();
    let r = quietly(|| p.parse_with_state(input, &mut st).into_output_errors());
    match r {
        Ok((out, errs)) => ImplOut {
            has_output: out.is_some(),
            out,
            errs: errs.iter().map(|e| e.desc()).collect(),
            st,
            panic: None,
        },
        Err(_) => ImplOut {
            out: None,
            has_output: false,
            errs: vec![],
            st,
            panic: Some(LAST_PANIC.with(|p| p.borrow_mut().take()).unwrap_or_default()),
        },
    }
}

pub fn run_check<'s, I: Kind<'s>, R: Er<'s, I>>(p: &BP<'s, I, R>, input: I) -> ImplOut {
    let mut st = Insp::default();
    let r = quietly(|| p.check_with_state(input, &mut st).into_output_errors());
    match r {
        Ok((out, errs)) => ImplOut {
            has_output: out.is_some(),
            out: None,
            errs: errs.iter().map(|e| e.desc()).collect(),
            st,
            panic: None,
        },
        Err(_) => ImplOut {
            out: None,
            has_output: false,
            errs: vec![],
            st,
            panic: Some(LAST_PANIC.with(|p| p.borrow_mut().take()).unwrap_or_default()),
        },
    }
}

/// ParseResult-level contract (C03), checked on the raw ParseResult.
pub fn result_contract<T: Clone, E: Clone>(r: chumsky::ParseResult<T, E>) -> Result<(bool, usize), String> {
    let ho = r.has_output();
    let he = r.has_errors();
    let n = r.errors().len();
    // the accessors describe one and the same result
    if r.output().is_some() != ho || r.clone().into_output().is_some() != ho {
        return Err(format!("has_output() = {} but output() / into_output() say otherwise", ho));
    }
    let (o2, e2) = r.clone().into_output_errors();
    if o2.is_some() != ho || e2.len() != n || r.clone().into_errors().len() != n || r.errors().count() != n {
        return Err(format!("into_output_errors() / into_errors() / errors() disagree: has_output {} vs {}, {} errors vs {}", ho, o2.is_some(), n, e2.len()));
    }
    if he != (n > 0) {
        return Err(format!("has_errors() = {} with {} errors", he, n));
    }
    if !ho && n == 0 {
        return Err("no output and no error".into());
    }
    let ok = r.into_result().is_ok();
    if he && ok {
        return Err("into_result() is Ok although errors were reported".into());
    }
    if !he && !ok {
        return Err("into_result() is Err although there is no error".into());
    }
    if !he && !ho {
        return Err("error-free result without output".into());
    }
    Ok((ho, n))
}
