//! Entry point of the coverage-guided tier (harness/fuzz, cargo-fuzz + libFuzzer + ASan).
//!
//! The fuzzer's bytes are read as a choice tape: byte 0 selects the property whose generator and
//! in-target oracle are used, the rest is taken as little-endian u32 choices -- exactly what the
//! proptest-driven random tier feeds the same decoders. A failure that is not a listed known
//! finding writes a replay file in the usual format and panics (libFuzzer keeps the input).
use crate::driver::{load_known, write_replay, CaseRes, Local};

type One = fn(&[u32], &mut Local) -> CaseRes;

pub const TARGETS: &[(&str, One)] = &[
    ("C01", crate::props::c01::fuzz_one),
    ("C02", crate::props::c02::fuzz_one),
    ("C03", crate::props::c03::fuzz_one),
    ("C04", crate::props::c04::fuzz_one),
    ("C05", crate::props::c05::fuzz_one),
    ("C06", crate::props::c06::fuzz_one),
    ("C07", crate::props::c07::fuzz_one),
    ("C08", crate::props::c08::fuzz_one),
    ("C10", crate::props::c10::fuzz_one),
    ("C11", crate::props::c11::fuzz_one),
    ("C12", crate::props::c12::fuzz_one),
    ("C15", crate::props::c15::fuzz_one),
    ("C16", crate::props::c16::fuzz_one),
    ("C17", crate::props::c17::fuzz_one),
    ("C18", crate::props::c18::fuzz_one),
    ("C19", crate::props::c19::fuzz_one),
    ("C20", crate::props::c20::fuzz_one),
];

pub fn tape_of(data: &[u8]) -> Vec<u32> {
    data.chunks(4)
        .map(|c| {
            let mut b = [0u8; 4];
            b[..c.len()].copy_from_slice(c);
            u32::from_le_bytes(b)
        })
        .collect()
}

thread_local! {
    static KNOWN: std::cell::RefCell<Option<Vec<String>>> = std::cell::RefCell::new(None);
}

/// `only`: restrict to one property (env CV_FUZZ_ONLY=C05), else byte 0 selects
pub fn fuzz_entry(data: &[u8]) {
    if data.len() < 2 {
        return;
    }
    static INIT: std::sync::Once = std::sync::Once::new();
    INIT.call_once(crate::run::install_panic_hook);
    let only = std::env::var("CV_FUZZ_ONLY").ok();
    let (id, f) = match &only {
        Some(o) => match TARGETS.iter().find(|(i, _)| i == o) {
            Some(t) => *t,
            None => return,
        },
        None => TARGETS[data[0] as usize % TARGETS.len()],
    };
    let tape = tape_of(&data[1..]);
    let mut l = Local::default();
    if let Err((case, fail)) = f(&tape, &mut l) {
        let known = KNOWN.with(|k| {
            k.borrow_mut()
                .get_or_insert_with(|| TARGETS.iter().flat_map(|(i, _)| load_known(i)).map(|k| k.sig).collect())
                .contains(&fail.sig)
        });
        if known {
            return;
        }
        let path = write_replay(id, &case, &fail);
        eprintln!("failing case ({}): {}", case.sub, crate::grammar::render(&case.g));
        eprintln!("  input: {:?}", case.input);
        eprintln!("  why:   {}", fail.msg);
        eprintln!("  sig:   {}", fail.sig);
        eprintln!("VIOLATION property={} replay={}", id, path);
        panic!("VIOLATION property={} replay={}", id, path);
    }
}
