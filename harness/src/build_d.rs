//! Part of the dynamic builder (see build.rs): the node kinds are spread over several modules so that the
//! monomorphised code of the ~35 (input kind, error type) instantiations lands in several codegen units
//! instead of one giant one (rustc places the instances of a generic function in the unit of its module).
#![allow(clippy::type_complexity)]
use crate::build::*;
use crate::grammar::*;
use crate::val::{Tracked, Val};
use chumsky::error::{Cheap, EmptyErr, LabelError, Rich, RichPattern, RichReason, Simple};
use chumsky::extra::Full;
use chumsky::input::{Checkpoint, Cursor, Input, InputRef, ValueInput};
use chumsky::inspector::Inspector;
use chumsky::prelude::*;
use chumsky::recursive::{Indirect, Recursive};
use chumsky::{ConfigIterParser, ConfigParser, IterParser};
use std::collections::HashMap;
use std::fmt::Debug;
use std::rc::Rc;
use std::sync::Arc;

pub fn node_d<'s, I: Kind<'s>, R: Er<'s, I>>(this: &mut Bld<'s, I, R>, g: &G) -> BP<'s, I, R> {
    use G::*;
    match g {
        Validate(a, t, n) => {
            let (t, n) = (*t, *n);
            let cap = this.cap_spans;
            this.build(a)
                .validate(move |v, e, em| {
                    let sp = e.span();
                    for k in 0..n {
                        em.emit(R::custom(sp.clone(), format!("V{}.{}", t, k)));
                    }
                    if cap {
                        let (s, e2) = sp.se();
                        Val::pair(Val::Span(s, e2), v)
                    } else {
                        v
                    }
                })
                .cb()
        }
        Recover(a, s) => {
            let a = this.build(a);
            match s {
                Strat::Via(g) => {
                    let f = this.build(g);
                    a.recover_with(via_parser(f)).cb()
                }
                Strat::SkipUntil { skip, until, tag } => {
                    let (sk, un, tag) = (this.build(skip), this.build(until), *tag);
                    a.recover_with(skip_until(sk.ignored(), un.ignored(), move || Val::Fallback(tag)))
                        .cb()
                }
                Strat::SkipRetry { skip, until } => {
                    let (sk, un) = (this.build(skip), this.build(until));
                    a.recover_with(skip_then_retry_until(sk.ignored(), un.ignored())).cb()
                }
                Strat::Nested { open, close, others, tag } => I::p_nested::<R>(a, *open, *close, others, *tag),
            }
        }
        Labelled(a, l, ctx) => {
            let p = this.build(a).labelled(l.clone());
            if *ctx {
                p.as_context().cb()
            } else {
                p.cb()
            }
        }
        MapErr(a, t, ws) => {
            let t = *t;
            if *ws {
                this.build(a)
                    .map_err_with_state(move |e: R, _s, _st| {
                        maperr_bump();
                        e.mark(t)
                    })
                    .cb()
            } else {
                this.build(a)
                    .map_err(move |e: R| {
                        maperr_bump();
                        e.mark(t)
                    })
                    .cb()
            }
        }
        Memo(a) if this.share_memo && !this.observed && !a.any_node(&|n| matches!(n, RecRef(_) | CxObs(_) | JustCfg(_) | MapCtx(..))) => {
            if let Some(p) = this.memo_cache.get(&**a) {
                return p.clone();
            }
            let p = this.build(a).memoized().cb();
            this.memo_cache.insert((**a).clone(), p.clone());
            p
        }
        Memo(a) => this.build(a).memoized().cb(),
        Wrapped(a, w) => {
            let p = this.build(a);
            match w {
                Wrap::Boxed => p.cb(),
                Wrap::BoxedTwice => p.cb().cb(),
                Wrap::RcW => Rc::new(p).cb(),
                Wrap::BoxW => Box::new(p).cb(),
                Wrap::ArcW => Arc::new(p).cb(),
                Wrap::EitherL => either::Either::<_, BP<'s, I, R>>::Left(p).cb(),
                Wrap::EitherR => either::Either::<BP<'s, I, R>, _>::Right(p).cb(),
                Wrap::Cloned => p.clone().cb(),
                // value-building formulation of the extension parser below: the equal custom parser
                Wrap::ExtOf if this.explicit => custom::<_, I, Val, Ex<R>>(move |inp| inp.parse(&p)).cb(),
                Wrap::ExtOf => chumsky::extension::v1::Ext(ExtOf::<I, R>(p)).cb(),
            }
        }
        Rec(id, body) => match this.rec_style {
            RecStyle::Func => {
                let id = *id;
                let prev = this.recs.remove(&id);
                let p = recursive(|r| {
                    this.recs.insert(id, r.cb());
                    this.build(body)
                })
                .cb();
                match prev {
                    Some(x) => {
                        this.recs.insert(id, x);
                    }
                    None => {
                        this.recs.remove(&id);
                    }
                }
                p
            }
            RecStyle::DeclareDefine => {
                let id = *id;
                let mut r: Recursive<Indirect<'s, 's, I, Val, Ex<R>>> = Recursive::declare();
                let prev = this.recs.insert(id, r.clone().cb());
                let b = this.build(body);
                r.define(b);
                match prev {
                    Some(x) => {
                        this.recs.insert(id, x);
                    }
                    None => {
                        this.recs.remove(&id);
                    }
                }
                r.cb()
            }
            RecStyle::EarlyClone => {
                let id = *id;
                let mut r: Recursive<Indirect<'s, 's, I, Val, Ex<R>>> = Recursive::declare();
                let early = r.clone();
                let prev = this.recs.insert(id, early.clone().cb());
                let b = this.build(body);
                r.define(b);
                drop(r);
                match prev {
                    Some(x) => {
                        this.recs.insert(id, x);
                    }
                    None => {
                        this.recs.remove(&id);
                    }
                }
                early.cb()
            }
        },
        RecRef(id) => this.recs.get(id).expect("unbound RecRef").clone(),
        Lazy(a) => {
            let a = this.build(a);
            I::p_lazy::<R>(a)
        }
        NestedIn(a) => {
            let a = this.build(a);
            I::p_nested_in::<R>(a)
        }
        _ => unreachable!("node kind handled by another part of the builder"),
    }
}
